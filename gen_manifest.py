#!/usr/bin/env python3
"""Regenerates /verif/MANIFEST.json. Edit the tables here, not the JSON."""
import json

BUILT = ["C01", "C02", "C03", "C04", "C05", "C06", "C07", "C08", "C09", "C10", "C11", "C12", "C13", "C14", "C15", "C16", "C17", "C18", "C19", "C20"]

# id -> (category, technique, level text, level note, design ref)
P = {
 "C01": ("exploration", "reference-model monitor (independent float64 EOTFs) over the exhaustively enumerated code space of every public decode entry point",
         "Every 8-bit and 16-bit code of every space is pushed through every public decode entry point and each returned value is compared with an independent float64 EOTF, plus exact end points, strict monotonicity and 8-bit==16-bit(257v); the whole opaque 8-bit colour cube goes through the three pixel constructors of every space (each channel must decode as it does alone). The input space is finite and is enumerated completely in both tiers, so the verdict covers every execution of these entry points on opaque colours.",
         "Trusted: the transcription of the published EOTFs in harness/internal/refcolor; Go's math.Pow.", "DESIGN.md §3 C01"),
 "C02": ("exploration", "reference-model monitor (interval law from independent float64 OETFs) over bucket boundaries / every float32 in [0,1]; recover() around each call",
         "Each encoder result is checked against the interval the published OETF allows within half a table step and half a code, clipping and monotonicity are checked along ascending float32 sequences; thorough enumerates every float32 bit pattern in [0,1] per encoder.",
         "Trusted: refcolor OETFs; the analytic float32 rounding slack documented in DESIGN.md.", "DESIGN.md §3 C02"),
 "C03": ("exploration", "reference-model monitor: matrices probed through the public API vs float64 derivation from declared and published chromaticities; lattice round trips",
         "Coefficients recovered by probing unit vectors are compared with a Gauss-Jordan derivation from the declared primaries/white (which are compared with published values); linearity and inversion are then observed on lattices, random out-of-range triples, call sequences on one function at a time, and 2^24 (thorough 2^31 + 2^16) conversions of distinct colours per space and direction in one process; the numeric properties are observed once more in a GOARCH=386 build of the monitor.",
         "Trusted: published chromaticities transcribed in refcolor.", "DESIGN.md §3 C03"),
 "C04": ("exploration", "reference-model monitor: documented pixel pipeline vs independent float64 colorimetric pipeline with the encoder's interval law",
         "Every ordered pair of spaces, lattices/greys/gamut edges/random pixels (all 2^24 RGB per pair in thorough) through the README pipeline, compared per channel with the code interval allowed around the float64 reference; alpha identity; clip-not-wrap.",
         "Trusted: refcolor; the encoder tolerance is the one C02 states.", "DESIGN.md §3 C04"),
 "C05": ("exploration", "generator ground truth + independent decoders (image/png, image/jpeg, x/image/webp DecodeConfig) as oracle over generated headers",
         "Well-formed files are generated from parameters with known ground truth, cross-checked by the standard decoders where they accept the file, and loaded through the specific and auto loaders.",
         "Trusted: the byte-stream generators (self-checked against std decoders each run).", "DESIGN.md §3 C05"),
 "C06": ("exploration", "generator ground truth monitor over embedded profiles (sizes, orders, placements, damage classes)",
         "Profiles of boundary sizes are embedded per format specification, in every chunk order up to 5, with each damage class; the accessor's bytes/error are compared with the embedded bytes.",
         "Trusted: generators; compress/zlib for building iCCP streams.", "DESIGN.md §3 C06"),
 "C07": ("fault_enumeration", "boundary monitor on the source io.Reader: every prefix length and every injected-error position of each seed, stream read-out compared with bytes actually delivered",
         "For each seed every truncation point and every I/O error position is enumerated under several segmentations; the monitored source knows what it delivered, the returned stream must replay exactly that and then the terminal condition; a child process loads inputs at the limits of the formats under a three-minute bound (no answer = a loader that did not return).",
         "Trusted: the monitored reader; faults enter only through the io.Reader.", "DESIGN.md §3 C07"),
 "C08": ("exploration", "differential monitor: same bytes under many io.Reader delivery schedules must give identical outcomes",
         "Each input is loaded under all-at-once and under fixed/random/short/data+EOF schedules (and bufio/short-count readers for the ICC reader); success, metadata, ICC bytes, header fields, tags and description must agree; so must what a caller still holds of one load's profile bytes after further loads, and each of three successive ReadProfile calls on one reader.",
         "Trusted: schedules conform to the io.Reader contract (0, nil only in the two zero-nil schedules, which the contract allows and defines as \"nothing happened\").", "DESIGN.md §3 C08"),
 "C09": ("exploration", "resource monitors (allocation delta, thread CPU time, reads after EOF) + recover() around every public call, in watchdog-supervised child processes, over a field-value matrix, structure-aware mutation and all truncations",
         "Hostile inputs drive Load -> ICCProfile -> Description and ReadProfile -> Description; a recovered panic, allocation above 2 MiB + 16384*n per call chain, or CPU above 2 s + 2 us*n is a violation; a dead/hung child is attributed to the logged case and replayed alone.",
         "Trusted: runtime.MemStats, getrusage(RUSAGE_THREAD).", "DESIGN.md §3 C09"),
 "C10": ("exploration", "reference-model monitor: independent per-pixel image semantics compared byte-for-byte incl. canary-filled parents; second pass under the race detector",
         "Cross product of source types x destination types x geometries x parallelisms x transforms; every byte of the destination parent buffer is compared with a model built from At/Set.",
         "Trusted: image/color models of the standard library.", "DESIGN.md §3 C10"),
 "C11": ("exploration", "Go race detector over fresh-process first-use trials + value comparison against sequential results",
         "Each trial is a fresh process under -race in which N goroutines make their first calls into one target set simultaneously; race reports with a prism frame and any value differing from the sequential value are violations; for the rejects target every outcome (values, error text, replayed bytes) is also compared with the same load made as the only call of a process of its own; a trial in which every goroutine is parked and none can run is reported as a deadlock with its goroutine dump.",
         "Trusted: the race detector's happens-before analysis; schedules with unobserved synchronisation shapes are out of reach.", "DESIGN.md §3 C11"),
 "C12": ("exploration", "reference-model monitor: independent float64 Bradford adaptation; algebraic laws on white-point pairs and triples",
         "All ordered pairs of a white-point set are compared entry-wise with the float64 Bradford matrix, white->white, identity, inverse, composition and constructor agreement are observed; 2^26 (thorough 2^30) distinct white pairs are requested in one process, each judged on its own white.",
         "Trusted: published Bradford matrix in refcolor.", "DESIGN.md §3 C12"),
 "C13": ("exploration", "reference-model monitor: CIE 1976 definition in float64, junction sweeps, round trips",
         "XYZ/Lab lattices, random points and dense sweeps through the junction are compared with the float64 definition; monotonicity, continuity, achromatic axis and finiteness are observed.",
         "Trusted: CIE constants in refcolor.", "DESIGN.md §3 C13"),
 "C14": ("exploration", "enumerating monitor over (channel, alpha) pairs with exact-alpha and premultiplied-validity oracles",
         "All 16-bit alphas with channel samples (all 2.1e9 pairs in thorough) through LineariseColor/EncodeColor and the constructors; alpha identity bit-exact, c'<=a'.",
         "Trusted: none beyond integer arithmetic.", "DESIGN.md §3 C14"),
 "C15": ("exploration", "differential monitor against image/draw.Draw(Src) per pixel; identity and input-unchanged checks; second pass under the race detector",
         "Input types x geometries x parallelisms x 3 helpers compared per pixel with the standard library's conversion.",
         "Trusted: image/draw.", "DESIGN.md §3 C15"),
 "C16": ("exploration", "table-driven monitor (ICC.1 header layout transcribed independently) over walking bits, per-byte sweeps and random headers",
         "Each exposed header field is compared with the big-endian value at its ICC.1 offset; walking ones over all 1024 bits show each bit feeds exactly its field.",
         "Trusted: the transcribed ICC.1:2010 header table.", "DESIGN.md §3 C16"),
 "C17": ("exploration", "generator ground truth monitor over well-formed profiles (tag layouts, mluc record placements)",
         "Profiles are generated with known description ground truth across tag counts, data layouts, paddings and mluc record/string placements, read directly and via an embedding JPEG.",
         "Trusted: the ICC generator and the harness's own UTF-16 decoder.", "DESIGN.md §3 C17"),
 "C18": ("exploration", "boundary monitor on the source io.Reader: bytes pulled when Load returns vs end of last needed structure",
         "Files with lazily generated pixel payloads up to 64 MiB are loaded through a counting source that offers unlimited data per Read; pulled bytes must stay within 64 KiB of the needed end, and the truncated file must load identically.",
         "Trusted: generator offsets.", "DESIGN.md §3 C18"),
 "C19": ("exploration", "differential monitor: autometa.Load vs first succeeding specific loader on identical bytes, incl. polyglots; stream replay",
         "Valid, truncated, mutated and polyglot inputs: the auto loader's outcome must equal that of the first of png/jpeg/webp that succeeds, and its stream must replay the input; sources also fail for good or temporarily part-way, are misnamed files, or pipes that deliver their last bytes seconds after Load has returned.",
         "Trusted: none beyond the specific loaders as reference.", "DESIGN.md §3 C19"),
 "C20": ("exploration", "reference-model monitor: independent Gauss-Jordan/naive float64 algebra vs library on published spaces, random triangles and matrices; panic observation on exactly singular inputs",
         "Generated matrices are compared with an independent derivation; inverse/product/transpose with naive implementations scaled by condition number; exactly singular inputs must panic.",
         "Trusted: refcolor algebra.", "DESIGN.md §3 C20"),
}

checks = []
na = []
for pid in sorted(P):
    cat, tech, text, note, ref = P[pid]
    if pid in BUILT:
        checks.append({
            "property_id": pid,
            "quick_cmd": f"./check {pid} quick",
            "thorough_cmd": f"./check {pid} thorough",
            "evidence_file": f"evidence/{pid}.json",
            "replay_cmd_template": "./check --replay {path}",
            "engine": "vcheck",
            "level_claimed": {"category": cat, "text": text, "design_ref": ref},
            "level_note": note,
            "technique": tech,
        })
    else:
        na.append({"property_id": pid, "reason": "monitor designed (DESIGN.md) but not built yet in this tree; not claimed until its check exists and is silent on the unchanged tree"})

m = {
    "version": 1,
    "setup_cmd": "./setup.sh",
    "hooks": {
        "guard": "verif",
        "enable": "no hooks are needed: every property is observed at the public API; checks build /repo's working tree through a go.mod replace directive (go build -tags verif would be the switch if a hook were ever added)",
        "baseline_off_cmd": "cd /repo && GOFLAGS=-mod=mod GOPROXY=off GOSUMDB=off GOTOOLCHAIN=local go test -json -vet=off -count=1 -timeout 25m ./...",
        "source_commits": [],
        "add_only": True,
    },
    "engines": [
        {"name": "vcheck", "path": "harness/cmd/vcheck", "serves_properties": sorted(BUILT),
         "kind_free_text": "Go runtime-monitoring harness: reference-model, boundary (io.Reader), resource and race-detector monitors driven by seeded/enumerated workloads against /repo's working tree"},
    ],
    "checks": checks,
    "not_applicable": na,
    "notes": "All checks: exit 0 held, exit 1 + VIOLATION line, exit 3 + INCONCLUSIVE line (never on the unchanged tree). VERIF_SEED selects the sampled workloads; enumerated stages ignore it. Known findings: known_findings.json.",
}
json.dump(m, open("/verif/MANIFEST.json", "w"), indent=1)
print("wrote MANIFEST.json with", len(checks), "checks,", len(na), "not yet claimed")
