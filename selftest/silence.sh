#!/bin/bash
# selftest/silence.sh <tier> <seed>...   every check must exit 0 on the unchanged tree at each seed
tier=$1; shift
for s in "$@"; do
  for i in 01 02 03 04 05 06 07 08 09 10 11 12 13 14 15 16 17 18 19 20; do
    out=$(VERIF_SEED=$s "$(dirname "$0")/../check" C$i $tier 2>&1); rc=$?
    echo "seed=$s C$i rc=$rc $(echo "$out" | grep -E '^RESULT' | cut -c1-140)"
    [ $rc -ne 0 ] && echo "$out" | grep -E 'VIOLATION|INCONCLUSIVE|signature' | head -5
  done
done
