#!/bin/bash
# selftest/thorough_all.sh [ids...]   runs the thorough tier of every check in turn against /repo, prints verdict, exit code and wall time
cd "$(dirname "$0")/.."
ids=("$@"); [ ${#ids[@]} -eq 0 ] && ids=(C01 C02 C03 C04 C05 C06 C07 C08 C09 C10 C11 C12 C13 C14 C15 C16 C17 C18 C19 C20)
for id in "${ids[@]}"; do
  t0=$(date +%s)
  out=$(./check "$id" thorough 2>&1); rc=$?
  t1=$(date +%s)
  echo "$id rc=$rc wall=$((t1-t0))s $(echo "$out" | grep -E '^RESULT' | cut -c1-150)"
  [ $rc -ne 0 ] && echo "$out" | grep -E 'VIOLATION|INCONCLUSIVE|signature' | head -6
done
