#!/usr/bin/env python3
"""selftest/archive_seeds.py <seed-root> <results-file> <round>  copies validated seeds into /verif/seeded/<id>-r<round>m<k>/"""
import json,os,shutil,sys,re
root,resf,rnd=sys.argv[1],sys.argv[2],sys.argv[3]
before={}
if len(sys.argv)>4:   # optional: the results file measured before the checks were extended
    for l in open(sys.argv[4]):
        m=re.match(r'(C\d+) (m\d+) .*caught_\w+=(\d)',l.strip())
        if m: before[(m.group(1),m.group(2))]=m.group(3)=='1'
res={}
for l in open(resf):
    m=re.match(r'(C\d+) (m\d+) clean=(\d) suite=(\d) demo_fails=(\d) caught_(\w+)=(\d)(?: exit=\d*)? \| ?(.*)',l.strip())
    if m: res[(m.group(1),m.group(2))]=m.groups()
for (pid,mk),g in sorted(res.items()):
    src=os.path.join(root,pid,mk)
    ok = g[2]=='1' and g[3]=='1' and g[4]=='1'
    dst=f'/verif/seeded/{pid}-r{rnd}{mk}'
    if not ok:
        print('SKIP (not confirmed)',pid,mk,g); continue
    os.makedirs(dst,exist_ok=True)
    for f in os.listdir(src):
        p=os.path.join(src,f)
        if os.path.isdir(p):
            shutil.copytree(p,os.path.join(dst,f),dirs_exist_ok=True)
        elif f!='PROMPT.txt':
            # demo files must not be picked up by `go build ./...` of the harness: keep the name, they live outside harness/
            shutil.copy(p,os.path.join(dst,f))
    meta=json.load(open(os.path.join(src,'meta.json')))
    meta['confirmed']={'by':'selftest/seedcheck.sh on a scratch copy of /repo (rsync, outside /repo and /verif, removed afterwards)',
        'clean_tree_demo':'pass','suite_with_patch':'all packages ok','demo_with_patch':'fails',
        'check':f'./check {pid} {g[5]}','caught':g[6]=='1','first_signature':g[7]}
    if (pid,mk) in before:
        meta['confirmed']['caught_before_the_checks_were_extended']=before[(pid,mk)]
    json.dump(meta,open(os.path.join(dst,'meta.json'),'w'),indent=1)
    print('archived',dst,'caught' if g[6]=='1' else 'MISSED')
