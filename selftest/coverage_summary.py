#!/usr/bin/env python3
"""coverage_summary.py [--uncovered] <covdata textfmt file>...
Per-package statement coverage of the library's own code; with --uncovered also the blocks never executed."""
import sys, collections, re

args = [a for a in sys.argv[1:] if not a.startswith('--')]
unc = '--uncovered' in sys.argv
PREFIX = 'github.com/mandykoh/prism/'
tot = collections.Counter(); hit = collections.Counter(); blocks = {}
lines = []
for a in args:
    try:
        lines += open(a).read().splitlines()
    except OSError:
        pass
if not lines:
    print('  (no coverage data written)'); sys.exit(0)
for ln in lines:
    m = re.match(r'(.+):(\d+)\.(\d+),(\d+)\.(\d+) (\d+) (\d+)$', ln)
    if not m or not m.group(1).startswith(PREFIX):
        continue
    f = m.group(1)[len(PREFIX):]
    if f.startswith('example') or '/example' in f:
        continue
    key = (f, int(m.group(2)), int(m.group(3)), int(m.group(4)), int(m.group(5)))
    n = int(m.group(6)); c = int(m.group(7))
    old = blocks.get(key)
    blocks[key] = (n, max(c, old[1]) if old else c)
for (f, *_), (n, c) in blocks.items():
    pkg = f.rsplit('/', 1)[0] if '/' in f else '.'
    tot[pkg] += n
    if c: hit[pkg] += n
T = sum(tot.values()); H = sum(hit.values())
for p in sorted(tot):
    if hit[p]:
        print(f'  {p:28s} {hit[p]:5d}/{tot[p]:5d} {100.0*hit[p]/tot[p]:5.1f}%')
print(f'  total                        {H:5d}/{T:5d} {100.0*H/max(T,1):5.1f}%')
if unc:
    print('  never-executed blocks (file:lines statements):')
    for (f, l0, c0, l1, c1), (n, c) in sorted(blocks.items()):
        if not c:
            print(f'    {f}:{l0}-{l1} {n}')
