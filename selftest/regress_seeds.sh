#!/bin/bash
# selftest/regress_seeds.sh [jobs] [tier] [dir-glob]
# Re-runs every archived seeded change (seeded/<id>-r<round>m<k>/patch.diff) against the checks as
# they are now: each in its own scratch copy of /repo (removed afterwards), <jobs> at a time.
# Output: one line per change "<dir> exit=<rc> CAUGHT|MISSED"; summary at the end.
jobs=${1:-4}; tier=${2:-quick}; glob=${3:-*}
V="$(cd "$(dirname "$0")/.." && pwd)"
out=$(mktemp /tmp/regress.XXXXXX)
ls -d "$V"/seeded/$glob/ | xargs -P "$jobs" -I{} bash -c '
  d="{}"; r=$(SKIP_DEMO=1 "'"$V"'/selftest/seedcheck.sh" "$d" "'"$tier"'" 2>&1 | tail -1)
  echo "$(basename "$d") $(echo "$r" | sed "s/.*exit=\([0-9]*\).*=> \([A-Z]*\).*/exit=\1 \2/")"' | tee "$out"
echo "caught: $(grep -c CAUGHT "$out") of $(wc -l < "$out")"
grep -v CAUGHT "$out" | sed 's/^/NOT CAUGHT: /'
rm -f "$out"
