#!/usr/bin/env python3
"""selftest/run_mutants.py [prop ...] : applies each mutant of selftest/mutants.json to a scratch copy of /repo,
makes sure it still builds (and, with --suite, still passes the repository's tests), runs the property's quick check
against the copy and reports CAUGHT / MISSED. Entries whose 'what' says 'must NOT be flagged' are expected to be missed."""
import json,os,subprocess,sys,tempfile,shutil
env=dict(os.environ,GOFLAGS='-mod=mod',GOPROXY='off',GOSUMDB='off',GOTOOLCHAIN='local')
here=os.path.dirname(os.path.abspath(__file__))
muts=json.load(open(os.path.join(here,'mutants.json')))
args=[a for a in sys.argv[1:] if not a.startswith('--')]
only=None
for a in sys.argv[1:]:
    if a.startswith('--only='): only=set(int(x) for x in a[7:].split(','))
suite='--suite' in sys.argv
tier='thorough' if '--thorough' in sys.argv else 'quick'
res=[]
for i,m in enumerate(muts):
    if args and m['prop'] not in args: continue
    if only is not None and i not in only: continue
    S=tempfile.mkdtemp(prefix='vmut.',dir='/tmp')
    try:
        subprocess.check_call(['rsync','-a','--exclude','.git','--exclude','example-output','/repo/',S+'/'])
        p=os.path.join(S,m['file']); s=open(p).read(); ok=True
        for old,new in m['edits']:
            if old not in s: ok=False; break
            s=s.replace(old,new,1)
        if not ok:
            print(f"{m['prop']} #{i} NOT-APPLICABLE {m['what']}"); res.append((m,'n/a')); continue
        open(p,'w').write(s)
        b=subprocess.run(['go','build','./...'],cwd=S,env=env,capture_output=True,text=True)
        if b.returncode!=0:
            print(f"{m['prop']} #{i} DOES-NOT-BUILD {m['what']}: {b.stderr.strip()[:200]}"); res.append((m,'nobuild')); continue
        st=''
        if suite:
            t=subprocess.run(['go','test','-vet=off','-count=1','./...'],cwd=S,env=env,capture_output=True,text=True)
            st=' suite=pass' if t.returncode==0 else ' suite=FAIL'
        c=subprocess.run([os.path.join(here,'..','check'),m['prop'],tier],env=dict(env,VERIF_REPO=S,VERIF_OUT_DIR=os.path.join(S,'zz_verif_out')),capture_output=True,text=True)
        sig=[l.strip() for l in c.stdout.split('\n') if 'signature=' in l][:1]
        verdict='CAUGHT' if c.returncode==1 else ('MISSED' if c.returncode==0 else f'EXIT{c.returncode}')
        print(f"{m['prop']} #{i} {verdict}{st} {m['what']} | {sig[0][:110] if sig else ''}",flush=True)
        res.append((m,verdict))
    finally:
        shutil.rmtree(S,ignore_errors=True)
n=sum(1 for _,v in res if v=='CAUGHT'); print(f"caught {n} of {len(res)}")
