#!/bin/bash
# selftest/mut.sh <Cnn> <tier> <patch-file | -e FILE SEDEXPR [-e FILE SEDEXPR ...]>
# Copies /repo to a scratch dir outside /repo and /verif, breaks it, runs the check against the copy,
# prints the last lines + exit code, removes the copy. Expect exit=1 and a VIOLATION line.
set -u
id=$1; tier=$2; shift 2
S=$(mktemp -d /tmp/vmut.XXXXXX)
trap 'rm -rf "$S"' EXIT
rsync -a --exclude .git --exclude example-output /repo/ "$S/"
if [ "$1" = "-e" ]; then
  while [ "${1:-}" = "-e" ]; do
    f="$S/$2"; before=$(md5sum "$f"); sed -i "$3" "$f"; after=$(md5sum "$f")
    [ "$before" = "$after" ] && { echo "MUTATION DID NOT CHANGE $2"; exit 9; }
    shift 3
  done
else
  (cd "$S" && patch -p1 -s < "$1") || { echo "PATCH FAILED"; exit 9; }
fi
if [ "${MUT_RUN_SUITE:-0}" = 1 ]; then
  (cd "$S" && GOFLAGS=-mod=mod GOPROXY=off GOSUMDB=off go test -vet=off -count=1 ./... 2>&1 | grep -v '^ok\|no test files' | head -20)
fi
VERIF_OUT_DIR="$S/zz_verif_out" VERIF_REPO="$S" "$(dirname "$0")/../check" "$id" "$tier" > "$S/out.txt" 2>&1
rc=$?
grep -E '^(VIOLATION|RESULT|INCONCLUSIVE|KNOWN)' "$S/out.txt" | head -${MUT_LINES:-6}
grep -A2 '^VIOLATION' "$S/out.txt" | grep -v '^VIOLATION\|^--' | head -4
echo "exit=$rc"
