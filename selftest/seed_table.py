#!/usr/bin/env python3
"""Regenerates the seed and mutant tables of DESIGN.md from seeded/*/meta.json and selftest/mutants_results.txt."""
import json,glob,os,re
rows=[]
for d in sorted(glob.glob('/verif/seeded/*')):
    try: m=json.load(open(os.path.join(d,'meta.json')))
    except Exception: continue
    c=m.get('confirmed',{})
    name=os.path.basename(d)
    summ=(m.get('summary','') or '').replace('|','/').replace('\n',' ')
    if len(summ)>150: summ=summ[:147]+'...'
    caught=('**MISSED**' if not c.get('caught') else c.get('check','').replace('./check ',''))
    sig=(c.get('first_signature','') or '').replace('|','/')
    sig=re.sub(r'^signature=','',sig); sig=re.sub(r' occurrences=\d+','',sig)
    if len(sig)>60: sig=sig[:57]+'...'
    rows.append(f"| {name} | {summ} | {caught} | {sig} |")
seed="| seeded change | what was changed | caught by | first violation signature |\n|---|---|---|---|\n"+"\n".join(rows)
n=len(rows); miss=sum(1 for r in rows if 'MISSED' in r)
thor=sum(1 for r in rows if ' thorough |' in r)
seed=f"{n} seeded changes are kept; {n-miss-thor} are caught by the quick tier of their property's check"+(f", {thor} by the thorough tier only" if thor else "")+(f", {miss} are not (see below)" if miss else "")+".\n\n"+seed
mut=""
p='/verif/selftest/mutants_results.txt'
if os.path.exists(p):
    ls=[l.rstrip() for l in open(p) if re.match(r'^C\d\d #',l)]
    tot=len(ls); caught=sum(1 for l in ls if ' CAUGHT' in l)
    mut=f"`selftest/run_mutants.py --suite`, last full run: {caught} of {tot} caught by the quick tier (results in selftest/mutants_results.txt).\n\n| mutant | verdict | what it breaks |\n|---|---|---|\n"
    for l in ls:
        m=re.match(r'^(C\d\d) #(\d+) (\S+)( suite=\w+)? (.*?) \| ?(.*)$',l)
        if m: mut+=f"| {m.group(1)} #{m.group(2)} | {m.group(3)}{(m.group(4) or '')} | {m.group(5).replace('|','/')} |\n"
s=open('/verif/DESIGN.md').read()
s=re.sub(r'<!-- SEED-TABLE-BEGIN -->.*?<!-- SEED-TABLE-END -->','<!-- SEED-TABLE-BEGIN -->\n'+seed.replace('\\','\\\\')+'\n<!-- SEED-TABLE-END -->',s,flags=re.S)
if mut:
    s=re.sub(r'<!-- MUTANT-TABLE-BEGIN -->.*?<!-- MUTANT-TABLE-END -->','<!-- MUTANT-TABLE-BEGIN -->\n'+mut.replace('\\','\\\\')+'<!-- MUTANT-TABLE-END -->',s,flags=re.S)
open('/verif/DESIGN.md','w').write(s)
print('seeds',n,'missed',miss)
