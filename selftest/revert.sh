#!/bin/bash
# selftest/revert.sh <Cnn> <tier> <commit>   run a check against /repo with one fix commit reverted (scratch copy)
set -u
id=$1; tier=$2; c=$3
P=$(mktemp /tmp/vrev.XXXXXX.diff); trap 'rm -f "$P"' EXIT
git -C /repo show "$c" --format= > "$P"
S=$(mktemp -d /tmp/vmut.XXXXXX); trap 'rm -rf "$S" "$P"' EXIT
rsync -a --exclude .git --exclude example-output /repo/ "$S/"
(cd "$S" && patch -R -p1 -s < "$P") || { echo "REVERT FAILED"; exit 9; }
VERIF_OUT_DIR="$S/zz_verif_out" VERIF_REPO="$S" "$(dirname "$0")/../check" "$id" "$tier" > "$S/out.txt" 2>&1; rc=$?
grep -E '^(RESULT|INCONCLUSIVE)' "$S/out.txt" | head -3
grep -A2 '^VIOLATION' "$S/out.txt" | grep -v '^VIOLATION\|^--' | head -${SEED_LINES:-4} | cut -c1-300
echo "revert $(git -C /repo log -1 --format=%s $c | cut -c1-60): check($tier) exit=$rc => $([ $rc = 1 ] && echo CAUGHT || echo MISSED)"
