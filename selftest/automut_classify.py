#!/usr/bin/env python3
"""selftest/automut_classify.py   writes selftest/automut_survivors.md: every surviving mutant of
selftest/automut_results.jsonl with the reason it survives. The rules below were written by reading
each surviving mutant's code; a survivor that matches no rule is listed as UNCLASSIFIED (and the
script exits 1) so that a new survivor cannot slip through unread."""
import json, re, sys, collections, os
V = os.path.dirname(os.path.dirname(os.path.abspath(__file__)))
res = {}
for l in open(os.path.join(V, 'selftest', 'automut_results.jsonl')):
    r = json.loads(l); res[r['id']] = r
A = 'outside every property'
B = 'equivalent for every input'
C = 'equivalent within the tolerance the property states'
D = 'differs only on inputs outside the property\'s quantifier'
E = 'reachable only after a parser panic'
RULES = [
 (lambda r: r['file'].endswith('segmentreader.go'), A, 'jpegmeta.NewSegmentReader / ReadSegment is a public helper that no loader and no property uses'),
 (lambda r: r['func'] in ('Luminance', 'WriteU32Big', 'WriteU32Little', 'getString'), A, 'helper that no property\'s entry point reaches (getString is dead code)'),
 (lambda r: r['file'] == 'meta/binary/utils.go' and r['op'] == 'int+1' and r['desc'].startswith('0 ->') and r['func'] != 'ReadBytes', B, 'the mutated 0 is the value returned together with a non-nil error; every caller discards it'),
 (lambda r: r['file'] == 'meta/webpmeta/webpmeta.go' and r['func'] == 'readWebPFormat' and r['op'] == 'int+1', B, 'value returned together with a non-nil error'),
 (lambda r: r['func'] == 'ReadBytes', D, 'only the identity of the error on a truncated input changes (io.EOF / io.ErrUnexpectedEOF); the properties speak of success or error, and the same error arises under every delivery schedule'),
 (lambda r: r['file'] == 'meta/jpegmeta/jpegmeta.go' and 'io.EOF' in r['desc'], D, 'only the text of the error returned for an input that ends inside the segment list changes; the stream still surfaces the source\'s own error (C07)'),
 (lambda r: r['op'] in ('drop-defer',) or (r['func'] in ('extractMetadata', 'ReadProfile') and ('metadataExtracted' in r['desc'] or 'md = nil' in r['desc'] or 'p = nil' in r['desc'] or 'panic while' in r['desc'])), E, 'body or installation of a recover(): on the repaired tree no input found by C09 (matrix, mutations, crafted) makes a parser panic, so the code is never entered'),
 (lambda r: r['file'] == 'meta/jpegmeta/jpegmeta.go' and 'iccData != nil || iccErr != nil' in r['desc'], D, 'keeps processing ICC chunks after the set is complete or has failed; differs only for files with further ICC chunks after a complete set, which C06 deliberately does not generate (DESIGN C06, assumption on "1 of 1 after SOF")'),
 (lambda r: r['file'] == 'meta/jpegmeta/marker.go', B, 'length 1 instead of 2 for markers without payload gives DataLength -1, which readSegment treats like 0'),
 (lambda r: r['file'] == 'meta/jpegmeta/segment.go', B, 'make([]byte, 0) instead of nil'),
 (lambda r: r['file'] == 'meta/data.go', D, 'Set…Data after Set…Error (or the reverse) on one object: no loader does it and no property speaks about the setters'),
 (lambda r: r['file'].endswith('multilocalisedunicode.go') and r['func'] == 'setString', C, 'a second record of a language that already has one is not stored; the description is still "an English record when one exists" (C17 accepts any of them)'),
 (lambda r: r['file'].endswith('multilocalisedunicode.go') and r['func'] == 'parseMultiLocalisedUnicode', D, 'the skip loop runs only when the record size field is larger than 12; ICC.1 fixes it at 12 and C17 generates well-formed tags'),
 (lambda r: r['file'].endswith('profilereader.go') and r['func'] == 'readHeader', B, '28/4 and 29/4 are both 7'),
 (lambda r: r['file'].endswith('profilereader.go') and r['func'] == 'readTagTable', B, 'initial maximum 1 instead of 0 / >= instead of > when updating a running maximum or when the length is 0: same result'),
 (lambda r: r['file'].endswith('textdescription.go') and 'asciiCount' in r['desc'], D, 'rejects a v2 description whose ASCII part is the last byte of the element; ICC.1 requires the Unicode and ScriptCode parts after it, and C17 generates them'),
 (lambda r: r['file'].endswith('textdescription.go'), B, 'the terminating NUL is not read; nothing is read after it'),
 (lambda r: r['file'].endswith('chunkheader.go'), D, 'an error while reading the four type bytes is swallowed: the sticky source fails again at the next read and the load ends with the same outcome'),
 (lambda r: r['file'] == 'meta/pngmeta/pngmeta.go' and r['line'] in (119, 129), D, 'accepts profile names of 80 bytes; C06 quantifies over names of 1-79 bytes'),
 (lambda r: r['file'] == 'meta/webpmeta/webpmeta.go' and r['func'] == 'parseWebpLossless', B, 'the wider mask lets in a bit that is shifted to bit 14 and removed by the following & 0x3FFF (or the operand has no such bit)'),
 (lambda r: r['file'] == 'meta/webpmeta/webpmeta.go' and r['func'] == 'parseWebpSimple', D, 'weaker start-code test: accepts malformed VP8 frames; C05 quantifies over well-formed files, C19 compares the loaders with each other'),
 (lambda r: r['file'] == 'prism.go' and '+ workerNum' in r['desc'], B, 'Min.Y - w and Min.Y + w start rows of residue classes -w and w modulo the worker count: the workers swap roles, every row is still converted once'),
 (lambda r: r['file'] == 'prism.go', B, 'one extra row / column outside the bounds: At returns the zero colour and Set ignores points outside the rectangle'),
 (lambda r: r['file'] == 'linear/linear.go' and '+ workerNum' in r['desc'], B, 'workers swap residue classes, as above'),
 (lambda r: r['file'] == 'linear/linear.go' and r['func'].startswith('NormalisedTo') and r['op'] == 'binop', B, 'at v = 0 (v = 1) both branches give 0 (the maximum code)'),
 (lambda r: r['file'] == 'linear/linear.go' and r['func'].startswith('NormalisedTo'), C, 'rounding offset 0.50025 instead of 0.5: changes results only within 0.00025 of a tie, C02 allows max*2^-21 around ties'),
 (lambda r: r['file'] == 'linear/rgb.go' and r['func'] == 'RGBFromEncoded', A, 'the colour value of a translucent pixel (decode, then divide by alpha) is fixed by no property: C01 speaks of opaque codes, C14 of alpha and of premultiplied validity, C10 takes the per-colour function as given'),
 (lambda r: r['file'].startswith('ciexyz/') and ('constantE' in r['desc']), C, 'the two branches meet at the junction (C13 checks continuity there); > or >= picks between values that agree within 1e-6'),
 (lambda r: r['file'] == 'prophotorgb/color.go', C, 'a coefficient that is 0 (or 9e-5, changed by 5e-8): invisible at the 1e-6 the property states'),
 (lambda r: r['file'] in ('prophotorgb/prophotorgb.go', 'srgb/srgb.go', 'adobergb/adobergb.go'), C, 'a branch threshold of a transfer function moved by 0.05 % or made (non-)strict, or a branch for v < 0 / v >= 1 that the table builders never call: at the threshold both branches agree to well within 3e-7 / half a code'),
]
surv = sorted((r for r in res.values() if r['status'] == 'survived'), key=lambda r: r['id'])
out = ['# Surviving mutants of the systematic mutation run, and why they survive', '',
       'Generated by selftest/automut_classify.py from selftest/automut_results.jsonl.', '',
       '| mutant | site | change | class | why |', '|---|---|---|---|---|']
cnt = collections.Counter(); bad = 0
for r in surv:
    for pred, cls, why in RULES:
        if pred(r):
            break
    else:
        cls, why = 'UNCLASSIFIED', ''; bad += 1
    cnt[cls] += 1
    out.append('| `%s` | %s:%d `%s` | %s | %s | %s |' % (r['id'], r['file'], r['line'], r['func'], r['desc'].replace('|', '\\|')[:90], cls, why))
out += ['', 'Totals: ' + ', '.join('%s: %d' % kv for kv in sorted(cnt.items()))]
open(os.path.join(V, 'selftest', 'automut_survivors.md'), 'w').write('\n'.join(out) + '\n')
print('\n'.join('%-60s %d' % kv for kv in sorted(cnt.items())))
sys.exit(1 if bad else 0)
