#!/bin/bash
# selftest/seed_all.sh <seed-root> <out-file> [tier]   validates every seed under <seed-root>/*/m*/ and runs its property's check
root=$1; out=$2; tier=${3:-quick}
: > "$out"
for d in $(ls -d "$root"/C*/m* | sort); do
  prop=$(basename $(dirname "$d"))
  flags=""; run="."
  case "$prop" in C11) flags="-race";; esac
  if grep -q 'TestSeedC04' "$d/demo_test.go" 2>/dev/null; then run="TestSeedC04"; fi
  if grep -q -- '-race' "$d/meta.json" 2>/dev/null; then flags="-race"; fi
  res=$(DEMO_FLAGS="$flags" DEMO_RUN="$run" timeout 3000 "$(dirname "$0")/seedcheck.sh" "$d" "$tier" 2>&1)
  clean=$(echo "$res" | grep -c 'clean-demo: pass')
  suite=$(echo "$res" | grep -c 'suite-with-patch: pass')
  demo=$(echo "$res" | grep -c 'patched-demo: fail')
  caught=$(echo "$res" | grep -c '=> CAUGHT')
  rc=$(echo "$res" | sed -n 's/.*check([a-z]*) exit=\([0-9]*\).*/\1/p' | head -1)
  sig=$(echo "$res" | grep -m1 'signature=' | sed 's/^ *//' | cut -c1-160)
  echo "$prop $(basename $d) clean=$clean suite=$suite demo_fails=$demo caught_$tier=$caught exit=$rc | $sig" | tee -a "$out"
done
