#!/bin/bash
# selftest/seedcheck.sh <seed-dir> [tier]     seed-dir contains patch.diff, demo_test.go|demo/main.go, meta.json
# 1. scratch copy of /repo; 2. clean demo must pass; 3. apply patch; suite must pass; demo must fail;
# 4. run the property's check against the scratch copy; report.
set -u
export GOFLAGS=-mod=mod GOPROXY=off GOSUMDB=off GOTOOLCHAIN=local
D=$(cd "$1" && pwd); tier=${2:-quick}
prop=$(python3 -c "import json;print(json.load(open('$D/meta.json'))['property'])")
demodir=$(python3 -c "import json;d=json.load(open('$D/meta.json')).get('demo_dir','.') or '.';print(d.split()[0].rstrip('/') if d.strip() else '.')")
S=$(mktemp -d /tmp/vseed.XXXXXX); trap 'rm -rf "$S"' EXIT
rsync -a --exclude .git --exclude example-output /repo/ "$S/"
# a demonstration that needs a 32-bit build says so in its meta.json (GOARCH=386 runs natively here)
DEMO_ENV=""; grep -q 'GOARCH=386' "$D/meta.json" 2>/dev/null && DEMO_ENV="GOARCH=386"
rundemo() {
  if [ -f "$D/demo_test.go" ]; then
    mkdir -p "$S/$demodir"; cp "$D/demo_test.go" "$S/$demodir/zz_seed_demo_test.go"
    (cd "$S/$demodir" && env $DEMO_ENV go test -vet=off -count=1 ${DEMO_FLAGS:-} -run "${DEMO_RUN:-.}" . 2>&1 | tail -${DEMO_LINES:-3}; exit ${PIPESTATUS[0]}); rc=$?
    rm -f "$S/$demodir/zz_seed_demo_test.go"; return $rc
  else
    mkdir -p "$S/zz_seed_demo"; cp "$D"/demo/*.go "$S/zz_seed_demo/"
    (cd "$S/zz_seed_demo" && env $DEMO_ENV go run ${DEMO_FLAGS:-} . 2>&1 | tail -${DEMO_LINES:-3}; exit ${PIPESTATUS[0]}); rc=$?
    rm -rf "$S/zz_seed_demo"; return $rc
  fi
}
echo "== $D ($prop)"
if [ "${SKIP_DEMO:-0}" != 1 ]; then
rundemo >/dev/null 2>&1 && echo "clean-demo: pass (ok)" || echo "clean-demo: FAIL (bad seed?)"
fi
(cd "$S" && patch -p1 -s < "$D/patch.diff") || { echo "PATCH FAILED"; exit 9; }
if [ "${SKIP_DEMO:-0}" != 1 ]; then
(cd "$S" && go build ./... && go test -vet=off -count=1 ./... 2>&1 | grep -v '^ok\|no test files' | head -5; exit ${PIPESTATUS[0]}) && echo "suite-with-patch: pass (ok)" || echo "suite-with-patch: FAIL"
rundemo >/dev/null 2>&1 && echo "patched-demo: PASS (seed does not manifest?)" || echo "patched-demo: fail (ok)"
fi
VERIF_OUT_DIR="$S/zz_verif_out" VERIF_REPO="$S" "$(dirname "$0")/../check" "$prop" "$tier" > "$S/out.txt" 2>&1; rc=$?
grep -E '^(RESULT|INCONCLUSIVE)' "$S/out.txt" | head -3
grep -A2 '^VIOLATION' "$S/out.txt" | grep -v '^VIOLATION\|^--' | head -${SEED_LINES:-4} | cut -c1-260
echo "check($tier) exit=$rc  => $([ $rc = 1 ] && echo CAUGHT || echo MISSED)"
