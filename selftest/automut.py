#!/usr/bin/env python3
"""selftest/automut.py [--jobs N] [--limit N] [--only <substring>] [--ids id,id] [--summary]

Systematic mutation run. Mutants come from harness/cmd/automut (operator swaps, literal +-1,
negated conditions, removed calls / assignments / defers in the library's non-test code).
For each mutant, in a scratch copy of /repo under /tmp (removed afterwards):
  1. it must compile                                  (else: nocompile)
  2. the repository's own test suite must still pass  (else: suite - the tests already settle it)
  3. the quick checks of the properties anchored in that file run against the copy
     (VERIF_REPO=<copy>); the first that exits 1 is recorded (caught), otherwise: survived.
Results are appended to selftest/automut_results.jsonl (resumable: finished ids are skipped).
Survivors are either equivalent mutants or blind spots; selftest/automut_survivors.md records
the classification made by hand. --summary prints the table used in DESIGN.md 5.4.
"""
import json, os, signal, subprocess, sys, tempfile, shutil, random, time, collections
from concurrent.futures import ThreadPoolExecutor

V = os.path.dirname(os.path.dirname(os.path.abspath(__file__)))
RES = os.path.join(V, 'selftest', 'automut_results.jsonl')
ENV = dict(os.environ, GOFLAGS='-mod=mod', GOPROXY='off', GOSUMDB='off', GOTOOLCHAIN='local')

def props_for(f):
    if f.startswith(('srgb/', 'adobergb/', 'prophotorgb/', 'displayp3/')):
        return ['C01', 'C02', 'C04', 'C03', 'C14', 'C10', 'C11']
    if f.startswith('linear/lut'):
        return ['C01', 'C02', 'C04', 'C14']
    if f.startswith('linear/'):
        return ['C10', 'C14', 'C02', 'C01', 'C04', 'C11']
    if f.startswith('ciexyz/'):
        return ['C03', 'C12', 'C13', 'C04', 'C20']
    if f.startswith(('cielab/', 'ciexyy/')):
        return ['C13', 'C12', 'C03']
    if f.startswith('matrix/'):
        return ['C20', 'C03', 'C12', 'C04']
    if f == 'prism.go':
        return ['C15', 'C11']
    if f.startswith('meta/icc/'):
        return ['C16', 'C17', 'C09', 'C08']
    if f.startswith('meta/autometa/'):
        return ['C19', 'C07', 'C05']
    if f.startswith('meta/'):
        return ['C05', 'C06', 'C07', 'C08', 'C09', 'C18', 'C19', 'C16', 'C17']
    return []

def sh(cmd, cwd=None, timeout=None, env=ENV):
    # own process group, killed as a whole on timeout: a check that hangs inside a mutated
    # library would otherwise leave its monitor process (and that one's children) running
    p = subprocess.Popen(cmd, cwd=cwd, env=env, stdout=subprocess.PIPE, stderr=subprocess.STDOUT, text=True, errors='replace', start_new_session=True)
    try:
        out, _ = p.communicate(timeout=timeout)
        return p.returncode, out
    except subprocess.TimeoutExpired:
        try:
            os.killpg(p.pid, signal.SIGKILL)
        except ProcessLookupError:
            pass
        try:
            out, _ = p.communicate(timeout=30)
        except Exception:
            out = ''
        return 124, out or ''

def run_one(m, automut):
    t0 = time.time()
    S = tempfile.mkdtemp(prefix='am.', dir='/tmp')
    rec = dict(m)
    try:
        sh(['rsync', '-a', '--exclude', '.git', '--exclude', 'example-output', '/repo/', S + '/'])
        rc, out = sh([automut, 'apply', S, m['id']])
        if rc != 0:
            rec['status'] = 'apply-failed'; return rec
        rc, out = sh(['go', 'build', './...'], cwd=S, timeout=600)
        if rc != 0:
            rec['status'] = 'nocompile'; return rec
        rc, out = sh(['go', 'test', '-vet=off', '-count=1', '-timeout', '240s', './...'], cwd=S, timeout=900)
        if rc != 0:
            rec['status'] = 'suite'; return rec
        rec['status'] = 'survived'; rec['tried'] = []
        for p in props_for(m['file']):
            rc, out = sh([os.path.join(V, 'check'), p, 'quick'], timeout=600, env=dict(ENV, VERIF_REPO=S, VERIF_OUT_DIR=os.path.join(S, 'zz_verif_out')))
            rec['tried'].append('%s:%d' % (p, rc))
            if rc == 1:
                rec['status'] = 'caught'; rec['by'] = p
                sig = [l.strip() for l in out.splitlines() if 'signature=' in l]
                rec['sig'] = sig[0][:200] if sig else ''
                break
        return rec
    finally:
        rec['secs'] = round(time.time() - t0, 1)
        shutil.rmtree(S, ignore_errors=True)

def load():
    out = {}
    if os.path.exists(RES):
        for l in open(RES):
            try:
                r = json.loads(l); out[r['id']] = r
            except Exception:
                pass
    return out

def summary():
    res = load()
    by = collections.defaultdict(collections.Counter)
    for r in res.values():
        d = r['file'].rsplit('/', 1)[0] if '/' in r['file'] else r['file']
        by[d][r['status']] += 1
    cols = ['nocompile', 'suite', 'caught', 'survived']
    print('| package | mutants run | do not compile | killed by the repository suite | caught by a check | survived |')
    print('|---|---|---|---|---|---|')
    tot = collections.Counter()
    for d in sorted(by):
        c = by[d]; n = sum(c.values()); tot.update(c)
        print('| `%s` | %d | %s |' % (d, n, ' | '.join(str(c[k]) for k in cols)))
    print('| **all** | %d | %s |' % (sum(tot.values()), ' | '.join(str(tot[k]) for k in cols)))
    live = tot['caught'] + tot['survived']
    if live:
        print('\nof the %d mutants that compile and pass the repository suite, %d (%.1f %%) are caught by a quick check' % (live, tot['caught'], 100.0 * tot['caught'] / live))
    byp = collections.Counter(r.get('by') for r in res.values() if r['status'] == 'caught')
    print('first catching check: ' + ', '.join('%s %d' % kv for kv in sorted(byp.items())))
    print('\nsurvivors:')
    for r in sorted(res.values(), key=lambda r: r['id']):
        if r['status'] == 'survived':
            print('  %s  %s:%d %s  [%s] %s' % (r['id'], r['file'], r['line'], r['func'], r['op'], r['desc']))

def main():
    a = sys.argv[1:]
    if '--summary' in a:
        summary(); return
    jobs = int(a[a.index('--jobs') + 1]) if '--jobs' in a else 6
    limit = int(a[a.index('--limit') + 1]) if '--limit' in a else 10**9
    only = a[a.index('--only') + 1] if '--only' in a else ''
    ids = a[a.index('--ids') + 1].split(',') if '--ids' in a else None
    automut = os.path.join(tempfile.gettempdir(), 'automut.%d' % os.getpid())
    rc, out = sh(['go', 'build', '-o', automut, './cmd/automut'], cwd=os.path.join(V, 'harness'))
    if rc != 0:
        print(out); sys.exit(2)
    rc, out = sh([automut, 'list', '/repo'])
    muts = [json.loads(l) for l in out.splitlines() if l.startswith('{')]
    done = load()
    if ids:
        todo = [m for m in muts if m['id'] in ids]
    else:
        todo = [m for m in muts if m['id'] not in done and only in m['file'] and props_for(m['file'])]
        random.Random(20261002).shuffle(todo)   # a prefix of the run is a uniform sample
        todo = todo[:limit]
    print('%d mutants in all, %d already done, %d to run' % (len(muts), len(done), len(todo)), flush=True)
    with ThreadPoolExecutor(max_workers=jobs) as ex, open(RES, 'a') as f:
        for rec in ex.map(lambda m: run_one(m, automut), todo):
            f.write(json.dumps(rec) + '\n'); f.flush()
            print('%-40s %-9s %-4s %5.0fs  %s' % (rec['id'], rec['status'], rec.get('by', ''), rec['secs'], rec['desc'][:80]), flush=True)
    os.remove(automut)

if __name__ == '__main__':
    main()
