#!/usr/bin/env python3
import json,sys,glob
import jsonschema
es=json.load(open('/root/.vp/EVIDENCE.schema.json'))
ms=json.load(open('/root/.vp/MANIFEST.schema.json'))
ok=True
try:
    jsonschema.validate(json.load(open('/verif/MANIFEST.json')),ms); print('MANIFEST ok')
except Exception as e:
    print('MANIFEST',str(e)[:300]); ok=False
for f in sorted(glob.glob('/verif/evidence/*.json')):
    try:
        jsonschema.validate(json.load(open(f)),es); print(f,'ok')
    except Exception as e:
        print(f,'INVALID',str(e)[:300]); ok=False
sys.exit(0 if ok else 1)
