#!/bin/bash
# Builds the harness once (plain and -race) so that later checks hit a warm build cache. Offline.
set -e
export GOFLAGS=-mod=mod GOPROXY=off GOSUMDB=off GOTOOLCHAIN=local
cd "$(dirname "${BASH_SOURCE[0]}")"
mkdir -p .bin .work evidence replays
(cd harness && go build -tags all -o ../.bin/vcheck.setup ./cmd/vcheck && go build -tags all -race -o ../.bin/vcheck-race.setup ./cmd/vcheck)
rm -f .bin/vcheck.setup .bin/vcheck-race.setup
echo "setup ok"
