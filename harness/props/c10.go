//go:build all || c10

package props

import (
	"bufio"
	"bytes"
	"encoding/json"
	"fmt"
	"image"
	"image/color"
	"image/draw"
	"os"
	"strings"
	"time"

	"github.com/mandykoh/prism/linear"

	"verifharness/internal/core"
)

// C10 — image linearise/encode is the per-pixel function, everywhere and only there.

type c10Cell struct {
	Src     string `json:"src"`
	SrcSub  bool   `json:"src_is_subimage"`
	SrcBand bool   `json:"src_is_full_width_band,omitempty"`
	// SrcOdd: hand-built source whose stride is not a multiple of its pixel size
	SrcOdd bool `json:"src_has_odd_stride,omitempty"`
	// SrcCorner: 4 = the source is the bottom-right corner of its parent, 5 = the top-left corner
	SrcCorner int    `json:"src_parent_corner,omitempty"`
	Content   int    `json:"content_mode,omitempty"`
	Dst       string `json:"dst"` // RGBA64 RGBA NRGBA NRGBA64 opaque
	W         int    `json:"w"`
	H         int    `json:"h"`
	OX        int    `json:"src_origin_x"`
	OY        int    `json:"src_origin_y"`
	DstMode   string `json:"dst_mode"` // same | larger | sub | inplace
	Par       int    `json:"parallelism"`
	Fn        string `json:"transform"` // hash | <space>.LineariseImage | <space>.EncodeImage
	Seed      uint64 `json:"content_seed"`
}

var c10SrcKinds = []string{"RGBA64", "NRGBA64", "RGBA", "NRGBA", "YCbCr444", "YCbCr422", "YCbCr420", "YCbCr440", "YCbCr411", "YCbCr410", "NYCbCrA", "Gray", "Gray16", "Alpha", "Alpha16", "CMYK", "Paletted", "Uniform", "opaque"}
var c10DstKinds = []string{"RGBA64", "RGBA", "NRGBA", "NRGBA64", "opaque"}
var c10Sizes = [][2]int{{0, 0}, {1, 1}, {1, 9}, {11, 1}, {7, 5}, {33, 17}}
var c10Origins = [][2]int{{0, 0}, {-3, -2}, {5, 9}}

const c10Orbit = 4 // content mode: rows related through the transform itself (in-place cells)

func c10Fn(name string) (perColor func(color.Color) color.RGBA64, run func(dst draw.Image, src image.Image, par int)) {
	if name == "hash" {
		return c10Hash, func(d draw.Image, s image.Image, p int) { linear.TransformImageColor(d, s, p, c10Hash) }
	}
	if name == "typed" {
		return c10Typed, func(d draw.Image, s image.Image, p int) { linear.TransformImageColor(d, s, p, c10Typed) }
	}
	if name == "wild" {
		return c10Wild, func(d draw.Image, s image.Image, p int) { linear.TransformImageColor(d, s, p, c10Wild) }
	}
	parts := strings.SplitN(name, ".", 2)
	s := spaceByName(parts[0])
	if s == nil || len(parts) != 2 {
		return nil, nil
	}
	if parts[1] == "LineariseImage" {
		return s.Linearise, s.LineariseImage
	}
	return s.Encode, s.EncodeImage
}

// sliceImg is a caller-defined image with value receivers whose struct holds a slice: two such
// values cannot be compared with == (comparing them through an interface panics).
type sliceImg struct {
	pix  []uint64
	rect image.Rectangle
}

func (s sliceImg) ColorModel() color.Model { return color.RGBA64Model }
func (s sliceImg) Bounds() image.Rectangle { return s.rect }
func (s sliceImg) At(x, y int) color.Color {
	if !(image.Point{x, y}).In(s.rect) {
		return color.RGBA64{}
	}
	v := s.pix[(y-s.rect.Min.Y)*s.rect.Dx()+(x-s.rect.Min.X)]
	return color.RGBA64{R: uint16(v >> 48), G: uint16(v >> 32), B: uint16(v >> 16), A: uint16(v)}
}
func (s sliceImg) Set(x, y int, c color.Color) {
	if !(image.Point{x, y}).In(s.rect) {
		return
	}
	r, g, b, a := c.RGBA()
	s.pix[(y-s.rect.Min.Y)*s.rect.Dx()+(x-s.rect.Min.X)] = uint64(r&0xffff)<<48 | uint64(g&0xffff)<<32 | uint64(b&0xffff)<<16 | uint64(a&0xffff)
}

// c10Wild is a per-colour function that does not return valid premultiplied colours: alpha 0 with
// non-zero channels, channels above alpha. The property says the destination receives its colour
// model's conversion of whatever the function returns.
func c10Wild(c color.Color) color.RGBA64 {
	h := c10Hash(c)
	switch h.A % 4 {
	case 0:
		return color.RGBA64{R: h.R | 1, G: h.G, B: h.B | 0x100, A: 0}
	case 1:
		return color.RGBA64{R: 0xFFFF - h.R, G: h.G, B: 0xFFFF, A: h.A / 2}
	case 2:
		return color.RGBA64{R: h.R, G: h.G, B: h.B, A: 0xFFFF}
	}
	return h
}

func c10SubMode(c c10Cell) int {
	if c.SrcOdd {
		return 3
	}
	if c.SrcCorner != 0 {
		return c.SrcCorner
	}
	if c.SrcBand {
		return 2
	}
	if c.SrcSub {
		return 1
	}
	return 0
}

func c10PathClass(c c10Cell) string {
	switch {
	case c.Dst == "RGBA64" && c.Src == "RGBA64":
		return "fast:RGBA64<-RGBA64"
	case c.Dst == "RGBA64":
		return "fast:RGBA64<-any"
	case c.Dst == "RGBA":
		return "fast:RGBA<-any"
	}
	return "generic:Set"
}

// c10Run builds the images for a cell, runs the library and the model, and
// compares every byte of the destination's parent buffer.
func c10Run(c c10Cell) (bad bool, msg string) {
	defer func() {
		if p := recover(); p != nil {
			bad, msg = true, fmt.Sprintf("panic in cell %+v: %v", c, p)
		}
	}()
	perColor, run := c10Fn(c.Fn)
	if run == nil {
		return false, "unknown transform"
	}
	rng := core.NewRNG(int64(c.Seed), "C10cell")
	sr := image.Rect(c.OX, c.OY, c.OX+c.W, c.OY+c.H)
	var src image.Image
	var dst draw.Image    // what is handed to the library
	var parent draw.Image // concrete image owning the whole buffer
	var view draw.Image   // concrete (sub-)image with the destination bounds
	dkind := c.Dst
	if dkind == "opaque" {
		dkind = "NRGBA64"
		if c.Seed&1 == 1 {
			dkind = "RGBA"
		}
	}
	if c.DstMode == "inplace" {
		content := c.Content
		if content == c10Orbit {
			content = 0
		}
		m := newSourceMode(c.Src, sr, c10SubMode(c), content, rng)
		d, ok := m.(draw.Image)
		if !ok || pixOf(m) == nil {
			return false, "inplace not applicable"
		}
		if c.Content == c10Orbit {
			// every row is the transform of the row `parallelism` above it: what a worker reads in
			// its next source row equals what it has just written
			step := c.Par
			if step < 1 || step >= c.H {
				step = 1
			}
			for y := sr.Min.Y + step; y < sr.Max.Y; y++ {
				for x := sr.Min.X; x < sr.Max.X; x++ {
					d.Set(x, y, perColor(d.At(x, y-step)))
				}
			}
		}
		src, dst, view = m, d, d
		// the parent buffer of an in-place sub-image is reachable through Pix only; compare the view's Pix
		parent = d
	} else {
		src = newSourceMode(c.Src, sr, c10SubMode(c), c.Content, rng)
		var dr image.Rectangle
		switch c.DstMode {
		case "same":
			dr = sr
			parent = newConcrete(dkind, dr)
			view = parent
		case "larger":
			dr = image.Rect(c.OX+4, c.OY-6, c.OX+4+c.W+3, c.OY-6+c.H+2)
			parent = newConcrete(dkind, dr)
			view = parent
		case "sub":
			dr = image.Rect(7, -4, 7+c.W+1, -4+c.H+1)
			pr := image.Rect(dr.Min.X-3, dr.Min.Y-2, dr.Max.X+4, dr.Max.Y+3)
			parent = newConcrete(dkind, pr)
			view = parent.(subImager).SubImage(dr).(draw.Image)
		case "band": // full-width band of a taller parent: same X range, rows above and below
			dr = image.Rect(c.OX, c.OY+2, c.OX+c.W, c.OY+2+c.H)
			pr := image.Rect(dr.Min.X, dr.Min.Y-2, dr.Max.X, dr.Max.Y+3)
			parent = newConcrete(dkind, pr)
			view = parent.(subImager).SubImage(dr).(draw.Image)
		default:
			return false, "unknown dst mode"
		}
		fillBytes(rng, pixOf(parent)) // canary
		dst = view
		if c.Dst == "opaque" {
			dst = opaqueDst{view}
		}
	}
	srcSnap := snapshot(src)
	// model
	var modelParent, modelView draw.Image
	if c.DstMode == "inplace" {
		modelParent = cloneConcrete(unwrapDraw(view))
		modelView = modelParent
	} else {
		modelParent = cloneConcrete(parent)
		modelView = modelParent
		if c.DstMode == "sub" || c.DstMode == "band" {
			modelView = modelParent.(subImager).SubImage(view.Bounds()).(draw.Image)
		}
	}
	db := view.Bounds()
	for y := sr.Min.Y; y < sr.Max.Y; y++ {
		for x := sr.Min.X; x < sr.Max.X; x++ {
			modelView.Set(db.Min.X+(x-sr.Min.X), db.Min.Y+(y-sr.Min.Y), perColor(srcSnap.At(x, y)))
		}
	}
	run(dst, src, c.Par)
	got, want := pixOf(unwrapDraw(parent)), pixOf(modelParent)
	if len(got) != len(want) {
		return true, fmt.Sprintf("cell %+v: buffer length changed", c)
	}
	if !bytes.Equal(got, want) {
		i := 0
		for got[i] == want[i] {
			i++
		}
		return true, fmt.Sprintf("cell %+v: destination buffer byte %d is %#02x, model says %#02x (%s)", c, i, got[i], want[i], c10Locate(unwrapDraw(parent), view.Bounds(), i))
	}
	if c.DstMode != "inplace" {
		if ok, p := imagesEqualAt(src, srcSnap, sr); !ok {
			return true, fmt.Sprintf("cell %+v: source pixel %v was modified", c, p)
		}
	}
	return false, "ok"
}

func unwrapDraw(d draw.Image) draw.Image {
	if o, ok := d.(opaqueDst); ok {
		return o.Image
	}
	return d
}

func c10Locate(parent draw.Image, view image.Rectangle, off int) string {
	var stride, bpp int
	switch m := parent.(type) {
	case *image.RGBA64:
		stride, bpp = m.Stride, 8
	case *image.NRGBA64:
		stride, bpp = m.Stride, 8
	case *image.RGBA:
		stride, bpp = m.Stride, 4
	case *image.NRGBA:
		stride, bpp = m.Stride, 4
	default:
		return "?"
	}
	// offsets are relative to the parent's Pix start, whose first pixel is parent.Bounds().Min for non-sub images
	pb := parent.Bounds()
	y, x := off/stride, (off%stride)/bpp
	p := image.Point{pb.Min.X + x, pb.Min.Y + y}
	where := "outside the destination bounds"
	if p.In(view) {
		where = "inside the destination bounds"
	}
	return fmt.Sprintf("buffer pixel (%d,%d) channel byte %d, %s", p.X, p.Y, off%bpp, where)
}

func c10Cells(seed int64, thorough bool, race bool) []c10Cell {
	rng := core.NewRNG(seed, "C10", "cells")
	var fns []string
	for _, s := range libSpaces {
		fns = append(fns, s.Name+".LineariseImage", s.Name+".EncodeImage")
	}
	var cells []c10Cell
	fi := 0
	for _, sk := range c10SrcKinds {
		for _, dk := range c10DstKinds {
			for _, sz := range c10Sizes {
				for _, o := range c10Origins {
					if (strings.HasPrefix(sk, "YCbCr") || sk == "NYCbCrA") && (o[0] < 0 || o[1] < 0) {
						o = [2]int{-o[0], -o[1]} // see newSource: YCbCr only at non-negative coordinates
					}
					for _, mode := range []string{"same", "larger", "sub", "inplace"} {
						if mode == "inplace" && !(sk == dk && dk != "opaque") {
							continue
						}
						pars := []int{1, 2, 3, 7, 16, sz[1] + 5}
						for _, par := range pars {
							if race && par == 1 {
								continue
							}
							if race && !thorough && (sz[1] < 5 || par > 7) {
								continue
							}
							var use []string
							if thorough && !race {
								use = append([]string{"hash"}, fns...)
							} else {
								use = []string{"hash", fns[fi%len(fns)]}
								fi++
							}
							for _, fn := range use {
								cells = append(cells, c10Cell{Src: sk, SrcSub: rng.Intn(2) == 0, Dst: dk, W: sz[0], H: sz[1], OX: o[0], OY: o[1], DstMode: mode, Par: par, Fn: fn, Seed: rng.U64()})
							}
						}
					}
				}
			}
		}
	}
	// full-width bands (in place and band-to-band), runs of equal pixels, constant contents
	for _, sk := range c10SrcKinds {
		for _, dk := range c10DstKinds {
			for _, sz := range [][2]int{{7, 5}, {12, 9}} {
				for _, par := range []int{1, 2, 3, 7} {
					if race && par == 1 {
						continue
					}
					fn := fns[fi%len(fns)]
					fi++
					o := [2]int{3, 2}
					cells = append(cells,
						c10Cell{Src: sk, SrcBand: true, Dst: dk, W: sz[0], H: sz[1], OX: o[0], OY: o[1], DstMode: "band", Par: par, Fn: fn, Seed: rng.U64()},
						c10Cell{Src: sk, SrcSub: true, Dst: dk, W: sz[0], H: sz[1], OX: o[0], OY: o[1], DstMode: "larger", Par: par, Fn: "hash", Content: 1, Seed: rng.U64()},
						c10Cell{Src: sk, Dst: dk, W: sz[0], H: sz[1], OX: o[0], OY: o[1], DstMode: "sub", Par: par, Fn: fn, Content: 1 + fi%3, Seed: rng.U64()})
					if sk == dk && dk != "opaque" {
						cells = append(cells,
							c10Cell{Src: sk, SrcBand: true, Dst: dk, W: sz[0], H: sz[1], OX: o[0], OY: o[1], DstMode: "inplace", Par: par, Fn: fn, Seed: rng.U64()},
							c10Cell{Src: sk, SrcBand: true, Dst: dk, W: sz[0], H: sz[1], OX: o[0], OY: o[1], DstMode: "inplace", Par: par, Fn: "hash", Content: 1, Seed: rng.U64()})
					}
				}
			}
		}
	}
	// per-colour functions returning invalid premultiplied colours, through every (src, dst) pair;
	// in-place cells whose rows are related through the transform itself
	for _, sk := range append(append([]string{}, c10SrcKinds...), "override", "override64") {
		for _, dk := range c10DstKinds {
			for _, mode := range []string{"same", "sub"} {
				par := 1 + fi%4
				fi++
				if race && par == 1 {
					continue
				}
				cells = append(cells, c10Cell{Src: sk, SrcSub: fi%2 == 0, Dst: dk, W: 9, H: 6, OX: 2, OY: 1, DstMode: mode, Par: par, Fn: "wild", Seed: rng.U64()})
				// a function that looks at the concrete colour; sources that override At
				cells = append(cells, c10Cell{Src: sk, SrcSub: fi%2 == 1, Dst: dk, W: 9, H: 6, OX: 2, OY: 1, DstMode: mode, Par: 1 + (fi+1)%4, Fn: "typed", Seed: rng.U64()})
				if strings.HasPrefix(sk, "override") {
					cells = append(cells, c10Cell{Src: sk, SrcSub: fi%2 == 0, Dst: dk, W: 13, H: 7, OX: -2, OY: 3, DstMode: mode, Par: 1 + (fi+2)%4, Fn: fns[fi%len(fns)], Seed: rng.U64()},
						c10Cell{Src: sk, SrcSub: fi%2 == 1, Dst: dk, W: 13, H: 7, OX: 0, OY: 0, DstMode: mode, Par: 1 + (fi+3)%4, Fn: "hash", Seed: rng.U64()})
				}
			}
			if sk == dk && dk != "opaque" && !race {
				for _, par := range []int{1, 2, 3, 5} {
					for _, fn := range []string{"hash", fns[fi%len(fns)], "wild"} {
						fi++
						cells = append(cells, c10Cell{Src: sk, SrcBand: fi%2 == 0, Dst: dk, W: 8, H: 12, OX: 1, OY: 2, DstMode: "inplace", Par: par, Fn: fn, Content: c10Orbit, Seed: rng.U64()})
					}
				}
			}
		}
	}
	// hand-built sources with an odd stride; images above 65 536 pixels (a size from which an
	// implementation might switch strategy), in place and out of place, at parallelisms that do not
	// divide the row count
	for _, sk := range c10SrcKinds {
		for _, dk := range c10DstKinds {
			fi++
			if !race {
				cells = append(cells, c10Cell{Src: sk, SrcOdd: true, Dst: dk, W: 7, H: 6, OX: 1, OY: 2, DstMode: []string{"same", "sub", "larger"}[fi%3], Par: 1 + fi%3, Fn: []string{"hash", fns[fi%len(fns)]}[fi%2], Seed: rng.U64()})
				if sk == dk && dk != "opaque" {
					cells = append(cells, c10Cell{Src: sk, SrcOdd: true, Dst: dk, W: 7, H: 6, OX: 1, OY: 2, DstMode: "inplace", Par: 2, Fn: "hash", Seed: rng.U64()},
						c10Cell{Src: sk, SrcCorner: 4, Dst: dk, W: 5, H: 4, OX: 2, OY: 1, DstMode: "inplace", Par: 3, Fn: "hash", Seed: rng.U64()})
				}
				cells = append(cells,
					c10Cell{Src: sk, SrcCorner: 4, Dst: dk, W: 5, H: 4, OX: 2, OY: 1, DstMode: []string{"same", "sub"}[fi%2], Par: 1 + fi%4, Fn: fns[fi%len(fns)], Seed: rng.U64()},
					c10Cell{Src: sk, SrcCorner: 5, Dst: dk, W: 5, H: 4, OX: 2, OY: 1, DstMode: "larger", Par: 2, Fn: "hash", Seed: rng.U64()},
					c10Cell{Src: sk, SrcSub: true, Dst: dk, W: 6, H: 5, OX: 1, OY: 1, DstMode: "same", Par: 1 + fi%3, Fn: fns[(fi+1)%len(fns)], Content: 5, Seed: rng.U64()})
			}
			if sk == dk && dk != "opaque" && !race {
				for _, par := range []int{2, 3, 7, 16} {
					cells = append(cells, c10Cell{Src: sk, Dst: dk, W: 301, H: 299, OX: 0, OY: 0, DstMode: "inplace", Par: par, Fn: "hash", Seed: rng.U64()})
				}
				cells = append(cells, c10Cell{Src: sk, Dst: dk, W: 1031, H: 67, OX: -5, OY: -3, DstMode: "same", Par: 5, Fn: fns[fi%len(fns)], Seed: rng.U64()})
			}
		}
	}
	// widths around the sizes a span-wise implementation might use (multiples of 64 .. 1024 and
	// their neighbours), three rows high
	if !race {
		for _, dk := range c10DstKinds {
			for wi, w := range []int{63, 64, 65, 127, 128, 129, 255, 256, 257, 511, 512, 513, 768, 1023, 1024, 1025} {
				sk := []string{"NRGBA", "RGBA64", "RGBA", "YCbCr444", "NRGBA64", "Gray16"}[(wi+len(dk))%6]
				cells = append(cells, c10Cell{Src: sk, Dst: dk, W: w, H: 3, OX: 0, OY: 1, DstMode: []string{"same", "sub"}[wi%2], Par: 1 + wi%3, Fn: fns[(wi+fi)%len(fns)], Seed: rng.U64()})
			}
		}
	}
	if thorough && !race {
		// seeded random geometries and a large image per (src,dst)
		for _, sk := range c10SrcKinds {
			for _, dk := range c10DstKinds {
				for k := 0; k < 20000; k++ {
					mode := []string{"same", "larger", "sub"}[rng.Intn(3)]
					ox, oy := rng.Range(-50, 50), rng.Range(-50, 50)
					if strings.HasPrefix(sk, "YCbCr") || sk == "NYCbCrA" {
						ox, oy = (ox+50)/2, (oy+50)/2
					}
					cells = append(cells, c10Cell{Src: sk, SrcSub: rng.Bool(), Dst: dk, W: rng.Range(1, 40), H: rng.Range(1, 40), OX: ox, OY: oy, DstMode: mode, Par: rng.Range(1, 24), Fn: core.Pick(rng, append([]string{"hash"}, fns...)), Seed: rng.U64()})
				}
				cells = append(cells, c10Cell{Src: sk, Dst: dk, W: 257, H: 129, OX: 5, OY: 3, DstMode: "sub", Par: 16, Fn: "hash", Seed: rng.U64()})
			}
		}
	}
	return cells
}

func c10NT(c c10Cell) (string, bool) {
	nt := c.OX != 0 || c.OY != 0 || c.DstMode == "sub" || c.DstMode == "band" || c.DstMode == "larger" || c.Par != 1
	geo := fmt.Sprintf("%dx%d@%d,%d/%v/%v/%d", c.W, c.H, c.OX, c.OY, c.SrcSub, c.SrcBand, c.Content)
	return fmt.Sprintf("%s|%s|%s|%s|%s|%d|%s", c.Src, c.Dst, c10PathClass(c), geo, c.DstMode, c.Par, c.Fn), nt && c.W*c.H > 0
}

func runC10(r *core.Run) {
	r.Rule = "cross product of 15 source kinds x 5 destination kinds x 6 sizes x 3 origins x {same, larger+shifted, sub-image of canary-filled parent, in-place} x parallelism {1,2,3,7,16,rows+5} x {keyed hash transform + library transforms}; every byte of the destination parent buffer compared with an independent At/Set model; a reduced matrix repeated under the race detector. non-trivial = distinct cells with non-zero origin, shifted/sub destination or parallelism != 1 (and at least one pixel)"
	r.Assumptions = []string{"the per-colour functions themselves are judged by C01/C02/C14; here only their application over images", "standard library colour models"}
	c10FirstUse(r)
	if isBurst(r.Variant) {
		return
	}
	cells := c10Cells(r.Seed, r.Thorough(), false)
	if strings.HasPrefix(r.Variant, "plain") {
		// a child that exists for its environment (GOMAXPROCS = 1, 2: "no parallelism available" is a
		// case an implementation may special-case): every fifth cell with parallelism above 1
		var sub []c10Cell
		for i, c := range cells {
			if c.Par > 1 && i%5 == 0 && c.W*c.H < 5000 {
				sub = append(sub, c)
			}
		}
		cells = sub
	}
	paths := map[string]int64{}
	for _, c := range cells {
		paths[c10PathClass(c)]++
	}
	core.ParallelFor(len(cells), 16, func(i int) {
		c := cells[i]
		bad, msg := c10Run(c)
		r.AddEvals(1)
		if key, nt := c10NT(c); nt {
			r.NT(key)
		}
		if bad {
			r.Violate("cell", fmt.Sprintf("%s<-%s/%s/%s", c.Dst, c.Src, c.DstMode, c10PathClass(c)), msg, c)
		}
	})
	if strings.HasPrefix(r.Variant, "plain") {
		return
	}
	// caller-defined image types: a value type whose struct holds a slice (not comparable with ==),
	// as source, as destination, and as both at once (in place)
	{
		rg := core.NewRNG(r.Seed, "C10", "custom-types")
		for k := 0; k < 24; k++ {
			rect := image.Rect(-2+k%3, 1, 5+k%3, 4+k%5)
			mk := func() sliceImg {
				m := sliceImg{pix: make([]uint64, rect.Dx()*rect.Dy()), rect: rect}
				for i := range m.pix {
					a := rg.U64() & 0xffff
					m.pix[i] = (rg.U64()%(a+1))<<48 | (rg.U64()%(a+1))<<32 | (rg.U64()%(a+1))<<16 | a
				}
				return m
			}
			src := mk()
			var dst draw.Image
			mode := []string{"in place", "value to value", "value to *image.RGBA64", "*image.NRGBA to value"}[k%4]
			var from image.Image = src
			switch k % 4 {
			case 0:
				dst = src
			case 1:
				dst = mk()
			case 2:
				dst = image.NewRGBA64(rect)
			case 3:
				n := image.NewNRGBA(rect)
				rg.Fill(n.Pix)
				from, dst = n, mk()
			}
			want := make([]color.RGBA64, 0, rect.Dx()*rect.Dy())
			for y := rect.Min.Y; y < rect.Max.Y; y++ {
				for x := rect.Min.X; x < rect.Max.X; x++ {
					want = append(want, c10Hash(from.At(x, y)))
				}
			}
			pan := func() (p any) {
				defer func() { p = recover() }()
				linear.TransformImageColor(dst, from, 1+k%3, c10Hash)
				return nil
			}()
			r.AddEvals(1)
			if pan != nil {
				r.Violate("custom", "custom-type/panic", fmt.Sprintf("TransformImageColor with a caller-defined value-type image (%s) panicked: %v", mode, pan), map[string]any{"mode": mode, "k": k, "seed": r.Seed})
				continue
			}
			i := 0
			for y := rect.Min.Y; y < rect.Max.Y; y++ {
				for x := rect.Min.X; x < rect.Max.X; x++ {
					if got := color.RGBA64Model.Convert(dst.At(x, y)).(color.RGBA64); got != want[i] {
						r.Violate("custom", "custom-type/pixel", fmt.Sprintf("TransformImageColor with a caller-defined value-type image (%s): pixel (%d,%d) is %v, the per-colour function gives %v", mode, x, y, got, want[i]), map[string]any{"mode": mode, "k": k, "seed": r.Seed})
						y = rect.Max.Y
						break
					}
					i++
				}
			}
		}
	}
	// every (rows, parallelism) pair up to 64 x 80 on images two pixels wide: whichever way the
	// rows are dealt out to the workers, each row is transformed exactly once
	{
		var cells []c10Cell
		for rows := 1; rows <= 64; rows++ {
			for par := 1; par <= 80; par++ {
				kind := []string{"RGBA64", "NRGBA", "RGBA", "NRGBA64"}[(rows+par)%4]
				mode := "same"
				if (rows*7+par)%5 == 0 {
					mode = "inplace"
				}
				cells = append(cells, c10Cell{Src: kind, Dst: kind, W: 2, H: rows, OX: 1, OY: -3, DstMode: mode, Par: par, Fn: "hash", Seed: uint64(rows*1000 + par)})
			}
		}
		core.ParallelFor(len(cells), 8, func(i int) {
			if bad, msg := c10Run(cells[i]); bad {
				r.Violate("cell", fmt.Sprintf("%s<-%s/%s/rows-x-parallelism", cells[i].Dst, cells[i].Src, cells[i].DstMode), msg, cells[i])
			}
			r.AddEvals(1)
		})
		r.Obs("rows_x_parallelism_cells", len(cells))
	}
	// sequences on one source object: transform, mutate the source in place (palette entries,
	// pixels), transform again - no result may be remembered across calls by the source's identity
	{
		rg := core.NewRNG(r.Seed, "C10", "sequences")
		for k := 0; k < 80; k++ {
			kind := []string{"Paletted", "Gray", "NRGBA", "RGBA64"}[k%4]
			rect := image.Rect(2, 1, 25, 14) // 299 pixels
			src := newSource(kind, rect, false, rg)
			fn := []string{"hash", "srgb.LineariseImage", "adobergb.EncodeImage"}[k%3]
			perColor, run := c10Fn(fn)
			for step := 0; step < 3; step++ {
				dkind := c10DstKinds[(k+step)%4]
				dst := newConcrete(dkind, rect)
				model := newConcrete(dkind, rect)
				for y := rect.Min.Y; y < rect.Max.Y; y++ {
					for x := rect.Min.X; x < rect.Max.X; x++ {
						model.Set(x, y, perColor(src.At(x, y)))
					}
				}
				run(dst, src, 1+(k+step)%5)
				r.AddEvals(1)
				if !bytes.Equal(pixOf(dst), pixOf(model)) {
					r.Violate("sequence", dkind+"<-"+kind+"/after-in-place-edit", fmt.Sprintf("%s of one %s image, call #%d after the image (its palette / pixels) had been edited in place: the result differs from the per-pixel function of the image as it is now", fn, kind, step+1), map[string]any{"src": kind, "dst": dkind, "transform": fn, "step": step, "k": k, "seed": r.Seed})
					break
				}
				switch m := src.(type) {
				case *image.Paletted:
					first := m.Palette[0]
					copy(m.Palette, m.Palette[1:])
					m.Palette[len(m.Palette)-1] = first
					v := rg.U64()
					m.Palette[rg.Intn(len(m.Palette))] = color.NRGBA{R: uint8(v), G: uint8(v >> 8), B: uint8(v >> 16), A: uint8(v >> 24)}
				default:
					p := pixOf(src)
					for i := 0; i < 40; i++ {
						p[rg.Intn(len(p))] = byte(rg.Intn(256))
					}
					if len(p) > 0 {
						p[0], p[len(p)-1] = 255, 255
					}
				}
			}
		}
	}
	if r.Variant == "" {
		vs := []string{"burst@4", "burst+stagger@8", "burst+rev@16", "burst+rev+stagger@2", "plain@1", "plain@2"}
		for _, v := range vs {
			r.RunVariantChild(v, 5*time.Minute, false)
		}
		r.Obs("fresh_process_first_use_bursts", vs)
	}
	r.Obs("cells_per_code_path", paths)
	r.Sample(cells[len(cells)/3])
	r.Sample(cells[2*len(cells)/3])
	// race pass
	work := core.WorkDir("C10")
	defer os.RemoveAll(work)
	tier := "quick"
	if r.Thorough() {
		tier = "thorough"
	}
	out, reports, _, timedOut, err := core.RunRaceChild(work, "c10", []string{fmt.Sprintf("VERIF_SEED=%d", r.Seed), "GOMAXPROCS=3"}, 20*time.Minute, "C10", tier)
	if timedOut {
		r.Inconclusive("race pass watchdog fired")
	} else if err != nil {
		r.Inconclusive("race pass: " + err.Error())
	}
	raceCells := c10ParseChild(r, out)
	r.Obs("race_pass_cells", raceCells)
	r.Obs("race_reports", len(reports))
	c10Races(r, reports, "C10")
}

// c10FirstUse: the first image transforms of the process, per space and direction, are made by
// eight goroutines at once on images that contain every 16-bit code; each result is compared with
// the per-colour function afterwards. (Lazily built tables must not be observable through the
// image entry points either.)
func c10FirstUse(r *core.Run) {
	const side = 256
	rect := image.Rect(0, 0, side, side)
	src := image.NewNRGBA64(rect)
	for i := 0; i < side*side; i++ {
		c := color.NRGBA64{R: uint16(i), G: uint16(65535 - i), B: uint16(i * 7), A: 65535}
		src.SetNRGBA64(i%side, i/side, c)
	}
	type job struct {
		s   *libSpace
		enc bool
	}
	var jobs []job
	for _, s := range libSpaces {
		jobs = append(jobs, job{s, false}, job{s, true})
	}
	if strings.Contains(r.Variant, "rev") {
		for i, j := 0, len(jobs)-1; i < j; i, j = i+1, j-1 {
			jobs[i], jobs[j] = jobs[j], jobs[i]
		}
	}
	const G = 8
	out := make([][]*image.RGBA64, len(jobs))
	for j := range out {
		out[j] = make([]*image.RGBA64, G)
		for g := range out[j] {
			out[j][g] = image.NewRGBA64(rect)
		}
	}
	body := func(g, ph int) {
		defer func() {
			if p := recover(); p != nil {
				r.Violate("first-use", "panic", fmt.Sprintf("first image transform of the process panicked: %v", p), map[string]any{"variant": r.Variant})
			}
		}()
		jb := jobs[ph]
		if jb.enc {
			jb.s.EncodeImage(out[ph][g], src, 1+g%3)
		} else {
			jb.s.LineariseImage(out[ph][g], src, 1+g%3)
		}
	}
	if strings.Contains(r.Variant, "stagger") {
		for ph := range jobs {
			ph := ph
			firstUseBurst(G, true, func(g int) { body(g, ph) })
		}
	} else {
		firstUsePhases(G, len(jobs), body)
	}
	for ph, jb := range jobs {
		f, name := jb.s.Linearise, jb.s.Name+".LineariseImage"
		if jb.enc {
			f, name = jb.s.Encode, jb.s.Name+".EncodeImage"
		}
		want := image.NewRGBA64(rect)
		for i := 0; i < side*side; i++ {
			want.SetRGBA64(i%side, i/side, f(src.NRGBA64At(i%side, i/side)))
		}
		for g := 0; g < G; g++ {
			r.AddEvals(1)
			if !bytes.Equal(out[ph][g].Pix, want.Pix) {
				i := 0
				for out[ph][g].Pix[i] == want.Pix[i] {
					i++
				}
				px := i / 8
				r.Violate("first-use", name+"/first-use", fmt.Sprintf("%s as one of the first %d concurrent calls of the process (variant %q): pixel (%d,%d) = %v, the per-colour function gives %v", name, G, r.Variant, px%side, px/side, out[ph][g].RGBA64At(px%side, px/side), want.RGBA64At(px%side, px/side)), map[string]any{"transform": name, "variant": r.Variant})
				break
			}
		}
	}
}

func c10ParseChild(r *core.Run, out []byte) int64 {
	var n int64
	sc := bufio.NewScanner(bytes.NewReader(out))
	sc.Buffer(make([]byte, 1<<20), 1<<20)
	done := false
	for sc.Scan() {
		line := sc.Text()
		switch {
		case strings.HasPrefix(line, "CELLS "):
			fmt.Sscanf(line, "CELLS %d", &n)
			done = true
		case strings.HasPrefix(line, "MISMATCH "):
			var v struct {
				Cell c10Cell
				Msg  string
			}
			if json.Unmarshal([]byte(line[9:]), &v) == nil {
				r.Violate("cell", fmt.Sprintf("%s<-%s/%s/%s", v.Cell.Dst, v.Cell.Src, v.Cell.DstMode, c10PathClass(v.Cell)), v.Msg+" (under -race)", v.Cell)
			}
		}
	}
	if !done {
		r.Inconclusive("race pass child did not finish its matrix")
	}
	r.AddEvals(n)
	return n
}

func childC10(args []string) int {
	if len(args) > 0 && (isBurst(args[0]) || strings.HasPrefix(args[0], "plain")) {
		return variantChild("C10", "exploration", runC10)(args)
	}
	thorough := len(args) > 0 && args[0] == "thorough"
	cells := c10Cells(core.Seed(), thorough, true)
	w := bufio.NewWriter(os.Stdout)
	defer w.Flush()
	type res struct {
		c   c10Cell
		msg string
	}
	results := make(chan res, 64)
	go func() {
		core.ParallelFor(len(cells), 8, func(i int) {
			if bad, msg := c10Run(cells[i]); bad {
				results <- res{cells[i], msg}
			}
		})
		close(results)
	}()
	for x := range results {
		b, _ := json.Marshal(map[string]any{"Cell": x.c, "Msg": x.msg})
		fmt.Fprintf(w, "MISMATCH %s\n", b)
	}
	fmt.Fprintf(w, "CELLS %d\n", len(cells))
	return 0
}

func replayC10(stage string, raw json.RawMessage) (bool, string, error) {
	if stage == "race" {
		return false, "", fmt.Errorf("race reports are replayed by re-running the check (./check C10 quick)")
	}
	var c c10Cell
	if err := json.Unmarshal(raw, &c); err != nil {
		return false, "", err
	}
	bad, msg := c10Run(c)
	return bad, msg, nil
}

func init() {
	core.Register(&core.Property{ID: "C10", Level: "exploration", Run: runC10, Replay: replayC10, Child: childC10})
}
