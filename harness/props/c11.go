//go:build all || c11

package props

import (
	"bytes"
	"encoding/binary"
	"encoding/json"
	"fmt"
	"hash/fnv"
	"image"
	"image/color"
	"image/draw"
	"math"
	"os"
	"runtime"
	"sort"
	"strings"
	"sync"
	"sync/atomic"
	"time"
	"verifharness/internal/src"

	"github.com/mandykoh/prism"
	"github.com/mandykoh/prism/ciexyy"
	"github.com/mandykoh/prism/ciexyz"
	"github.com/mandykoh/prism/linear"
	"github.com/mandykoh/prism/meta"
	"github.com/mandykoh/prism/meta/icc"

	"verifharness/internal/core"
	"verifharness/internal/imggen"
)

// C11 — safe for concurrent use including first use.

type c11Trial struct {
	Target     string `json:"target"`
	N          int    `json:"goroutines"`
	GOMAXPROCS int    `json:"gomaxprocs"`
	Park       bool   `json:"half_of_the_goroutines_park_after_first_call"`
	Rep        int    `json:"repetition"`
}

// wordImage stores one machine word per pixel, so that two workers writing the
// same pixel are a word-sized write/write race the detector can see (byte-wise
// stores into image.RGBA64 can hide from its shadow memory).
type wordImage struct {
	Pix  []uint64
	Rect image.Rectangle
}

func newWordImage(r image.Rectangle) *wordImage {
	return &wordImage{Pix: make([]uint64, r.Dx()*r.Dy()), Rect: r}
}
func (w *wordImage) ColorModel() color.Model { return color.RGBA64Model }
func (w *wordImage) Bounds() image.Rectangle { return w.Rect }
func (w *wordImage) idx(x, y int) int        { return (y-w.Rect.Min.Y)*w.Rect.Dx() + (x - w.Rect.Min.X) }
func (w *wordImage) At(x, y int) color.Color {
	if !(image.Point{x, y}).In(w.Rect) {
		return color.RGBA64{}
	}
	v := w.Pix[w.idx(x, y)]
	return color.RGBA64{R: uint16(v >> 48), G: uint16(v >> 32), B: uint16(v >> 16), A: uint16(v)}
}
func (w *wordImage) Set(x, y int, c color.Color) {
	if !(image.Point{x, y}).In(w.Rect) {
		return
	}
	r, g, b, a := c.RGBA()
	w.Pix[w.idx(x, y)] = uint64(r&0xffff)<<48 | uint64(g&0xffff)<<32 | uint64(b&0xffff)<<16 | uint64(a&0xffff)
}

func hashImage(img image.Image) uint64 {
	h := fnv.New64a()
	b := img.Bounds()
	var buf [8]byte
	for y := b.Min.Y; y < b.Max.Y; y++ {
		for x := b.Min.X; x < b.Max.X; x++ {
			r, g, bb, a := img.At(x, y).RGBA()
			buf[0], buf[1], buf[2], buf[3], buf[4], buf[5], buf[6], buf[7] = byte(r>>8), byte(r), byte(g>>8), byte(g), byte(bb>>8), byte(bb), byte(a>>8), byte(a)
			h.Write(buf[:])
		}
	}
	return h.Sum64()
}

// c11Shared: inputs shared read-only between all goroutines of a trial.
type c11Shared struct {
	files    [][]byte
	formats  []string
	profiles [][]byte
	srcImg   *image.NRGBA
	ycc      *image.YCbCr
	// objects shared by all goroutines of a trial (target shared-objects)
	sharedMD   []*meta.Data
	sharedProf []*icc.Profile
	premul     *image.RGBA
	rejects    []c11Reject
	// convert-own / tiles
	opaqueRGBA     *image.RGBA
	opaqueNRGBA    *image.NRGBA
	tileParents    []draw.Image
	tileN          int
	convSources    []image.Image
	headerProfiles [][]byte
}

// c11Reject is one input of the "rejects" target: mostly inputs a loader turns down, each for a
// reason of its own, mixed with a few it accepts.
type c11Reject struct {
	name, loader string
	data         []byte
}

func c11Rejects() []c11Reject {
	var out []c11Reject
	rng := core.NewRNG(1, "c11rejects")
	// RIFF/WEBP streams whose first chunk is not a bitstream header, each with a FourCC of its own
	for i, cc := range []string{"ALPH", "ANIM", "EXIF", "ICCP", "XMP ", "Qa01", "Qb02", "VP8Z", "vp8x", "ANMF"} {
		body := append(append([]byte(cc), 8, 0, 0, 0), rng.Bytes(8)...)
		data := append(append([]byte("RIFF"), byte(4+len(body)), 0, 0, 0), append([]byte("WEBP"), body...)...)
		out = append(out, c11Reject{"webp first chunk " + cc, []string{"webpmeta", "autometa"}[i%2], data})
	}
	plain, _ := imggen.JPEGSpec{Precision: 8, W: 31, H: 17, Comps: imggen.StdComps(3, 2, 2), Entropy: []byte{1, 2, 3}}.Build()
	withICC, _ := imggen.JPEGSpec{Precision: 8, W: 33, H: 19, Comps: imggen.StdComps(3, 1, 1), Before: []imggen.JPEGSeg{imggen.ICCChunkSeg(1, 1, bytes.Repeat([]byte("j"), 300))}, Entropy: []byte{1}}.Build()
	out = append(out, c11Reject{"jpeg without profile", "jpegmeta", plain}, c11Reject{"jpeg with profile", "jpegmeta", withICC})
	for _, lead := range [][]byte{{0}, {'x', 'y'}, {0xFF}, {0x20, 0x20, 0x20, 0x20}, {0xFF, 0x00}} {
		out = append(out, c11Reject{fmt.Sprintf("jpeg behind % x", lead), "jpegmeta", append(append([]byte{}, lead...), plain...)})
		out = append(out, c11Reject{"jpeg without profile (again)", "jpegmeta", plain})
	}
	out = append(out, c11Reject{"jpeg SOI then 12 34", "jpegmeta", []byte{0xFF, 0xD8, 0x12, 0x34, 0, 0, 0, 0}})
	out = append(out, c11Reject{"jpeg SOI then FF 01 FF 02", "autometa", []byte{0xFF, 0xD8, 0xFF, 0x01, 0xFF, 0x02, 0xFF, 0xD9}})
	png, _ := pngSpecFor(45, 23, 2, 8, 0, rng).Build()
	out = append(out, c11Reject{"png", "pngmeta", png}, c11Reject{"png cut in IHDR", "pngmeta", png[:20]}, c11Reject{"png signature damaged", "pngmeta", append([]byte{0x89, 'P', 'N', 'G', 13, 10, 26, 11}, png[8:]...)})
	for i, ct := range []string{"IDAT", "PLTE", "IEND", "tEXt"} {
		b, _ := imggen.PNGSpec{W: 7, H: 9, Depth: 8, ColorType: 2, IDAT: []byte{1}}.Build()
		copy(b[12:16], ct) // first chunk is not IHDR
		out = append(out, c11Reject{"png first chunk " + ct, []string{"pngmeta", "autometa"}[i%2], b})
	}
	// PNGs whose iCCP stream is turned down at its zlib header (nine of them, each a little different),
	// and well-formed profiled PNGs between and after them
	for i := 0; i < 9; i++ {
		sp := pngSpecFor(uint32(20+i), 31, 2, 8, 0, rng)
		raw := append([]byte{0x12 + byte(i), 0x34}, rng.Bytes(40)...)
		sp.ICC = &imggen.PNGICC{Name: "b", RawStream: raw, State: "damaged"}
		b, _ := sp.Build()
		out = append(out, c11Reject{fmt.Sprintf("png iccp with bad zlib header #%d", i), []string{"pngmeta", "autometa"}[i%2], b})
		if i%3 == 2 {
			gp := pngSpecFor(uint32(50+i), 17, 6, 8, 0, rng)
			gp.ICC = &imggen.PNGICC{Name: "good", Profile: bytes.Repeat([]byte{byte('a' + i)}, 300), Level: 6}
			gb, _ := gp.Build()
			out = append(out, c11Reject{fmt.Sprintf("png with a profile #%d", i), "pngmeta", gb})
		}
	}
	out = append(out, c11Reject{"garbage", "autometa", rng.Bytes(64)}, c11Reject{"empty", "autometa", nil}, c11Reject{"text", "autometa", []byte("not an image at all, just text")})
	vp8l, _ := imggen.WebPSpec{Kind: "VP8L", W: 12, H: 34, Payload: []byte{1, 2, 3, 4}}.Build()
	out = append(out, c11Reject{"webp vp8l", "webpmeta", vp8l}, c11Reject{"webp vp8l cut", "webpmeta", vp8l[:22]})
	return out
}

// c11Outcome is everything a caller can see of one load: success, values, error text.
func c11Outcome(it c11Reject) string {
	res := loadWith(it.loader, bytes.NewReader(it.data))
	s := summarise(res)
	rest := -1
	if res.Stream != nil && res.Panic == nil {
		b, _, _ := src.ReadAllChunks(res.Stream, 512, int64(len(it.data))+4096)
		rest = len(b)
	}
	return fmt.Sprintf("%s stream=%d", sumStr(s), rest) + " err=" + s.ErrText
}

var c11AloneTable []uint64
var c11AloneMu sync.Mutex
var c11AloneMism = map[int]string{}

func newC11Shared() *c11Shared {
	sh := &c11Shared{}
	sh.rejects = c11Rejects()
	for _, s := range smallSeeds(1) {
		if s.Truth.Format != "" {
			sh.files = append(sh.files, s.Bytes)
			sh.formats = append(sh.formats, s.Truth.Format)
		}
	}
	// a PNG whose iCCP stream is damaged (an error path that returns pooled objects must not poison later loads)
	for _, dmg := range []string{"truncated", "bad-adler"} {
		s := pngSpecFor(33, 44, 6, 8, 0, core.NewRNG(1, "c11dmg"))
		stream := imggen.Deflate(bytes.Repeat([]byte("profile "), 200), 6)
		if dmg == "truncated" {
			stream = stream[:len(stream)/2]
		} else {
			stream[len(stream)-1] ^= 0x55
		}
		s.ICC = &imggen.PNGICC{Name: "d", Profile: nil, RawStream: stream, State: "damaged"}
		b, _ := s.Build()
		sh.files = append(sh.files, b)
		sh.formats = append(sh.formats, "PNG")
	}
	for k := 0; k < 2; k++ {
		s := pngSpecFor(21, 22, 2, 8, 0, core.NewRNG(1, "c11twin"))
		prof := bytes.Repeat([]byte{byte('A' + k)}, 600)
		s.ICC = &imggen.PNGICC{Name: "twin", Profile: prof, Level: 0}
		s.FixedICCCRC = 0xCAFEF00D // the loaders do not verify CRCs; the file is still unambiguous
		b, _ := s.Build()
		sh.files = append(sh.files, b)
		sh.formats = append(sh.formats, "PNG")
	}
	rng := core.NewRNG(1, "c11shared")
	sh.profiles = [][]byte{structuredProfile(rng, 0), structuredProfile(rng, 4)}
	for k := 0; k < 80; k++ {
		prof := structuredProfile(rng, k%5)
		if k%4 == 3 {
			// an mluc description whose records have odd byte lengths (declared length 2n+1)
			recs := []imggen.MlucRecord{{Lang: "en", Country: "US", Text: c17Text(rng, "ascii", 7+k%5)}, {Lang: "de", Country: "DE", Text: c17Text(rng, "ascii", 4)}}
			tag, fields := imggen.Mluc(recs, nil, 3, 12)
			for _, f := range fields {
				if f.Name == "mluc.rec0.length" { // the first record only: the byte after its string is inside the tag
					binary.BigEndian.PutUint32(tag[f.Off:], binary.BigEndian.Uint32(tag[f.Off:])+1)
				}
			}
			prof, _ = imggen.ICCSpec{Header: imggen.MinimalHeader(true), Tags: []imggen.ICCTag{{Sig: "desc", Data: tag}, {Sig: "cprt", Data: rng.Bytes(24)}}}.Build()
		}
		pb, _ := imggen.PNGSpec{W: uint32(3 + k), H: 2, Depth: 8, ColorType: 2, ICC: &imggen.PNGICC{Name: "s", Profile: prof, Level: 6}, IDAT: []byte{1}}.Build()
		res := loadWith("autometa", bytes.NewReader(pb))
		sh.sharedMD = append(sh.sharedMD, res.MD)
		p, _, _ := readProfile(bytes.NewReader(prof))
		sh.sharedProf = append(sh.sharedProf, p)
	}
	// a premultiplied image holding every alpha byte with several channel values (partial alphas included)
	sh.premul = image.NewRGBA(image.Rect(0, 0, 64, 16))
	for i := 0; i < 64*16; i++ {
		a := uint8(i * 7)
		sh.premul.Pix[4*i], sh.premul.Pix[4*i+1], sh.premul.Pix[4*i+2], sh.premul.Pix[4*i+3] = uint8(int(a)*(i%5)/4), a/2, a, a
	}
	sh.opaqueRGBA, sh.opaqueNRGBA = image.NewRGBA(image.Rect(0, 0, 40, 24)), image.NewNRGBA(image.Rect(0, 0, 40, 24))
	for i := 0; i < 40*24; i++ {
		sh.opaqueRGBA.Pix[4*i], sh.opaqueRGBA.Pix[4*i+1], sh.opaqueRGBA.Pix[4*i+2], sh.opaqueRGBA.Pix[4*i+3] = uint8(i*7), uint8(i*13+5), uint8(i>>2), 255
		sh.opaqueNRGBA.Pix[4*i], sh.opaqueNRGBA.Pix[4*i+1], sh.opaqueNRGBA.Pix[4*i+2], sh.opaqueNRGBA.Pix[4*i+3] = uint8(i*11), uint8(i*3+9), uint8(i>>1), 255
	}
	{
		crng := core.NewRNG(1, "c11conv")
		for i, sig := range []string{"2CLR", "3CLR", "4CLR", "5CLR", "6CLR", "7CLR", "8CLR", "9CLR", "ACLR", "BCLR", "CCLR", "DCLR", "ECLR", "FCLR", "XYZ ", "Lab ", "Luv ", "YCbr", "Yxy ", "RGB ", "GRAY", "HSV ", "HLS ", "CMYK", "CMY ", "zzzz"} {
			hd := imggen.MinimalHeader(i%2 == 0)
			copy(hd[16:20], sig)
			copy(hd[20:24], []string{"XYZ ", "Lab ", sig}[i%3])
			copy(hd[12:16], []string{"scnr", "mntr", "prtr", "link", "spac", "abst", "nmcl", "qqqq"}[i%8])
			copy(hd[40:44], []string{"APPL", "MSFT", "SGI ", "SUNW", "TGNT", "yyyy"}[i%6])
			pb, _ := imggen.ICCSpec{Header: hd, KeepSig: true, Tags: []imggen.ICCTag{{Sig: "cprt", Data: []byte{1, 2, 3, 4}}}}.Build()
			sh.headerProfiles = append(sh.headerProfiles, pb)
		}
		for _, kind := range []string{"NRGBA", "RGBA", "NRGBA64", "RGBA64", "YCbCr420", "YCbCr444", "YCbCr422", "Gray", "Gray16", "Paletted", "CMYK", "NYCbCrA", "Alpha"} {
			sh.convSources = append(sh.convSources, newSource(kind, image.Rect(1, 2, 18, 13), kind == "RGBA", crng))
		}
	}
	sh.tileN = 8
	for k := 0; k < 8; k++ {
		var p draw.Image
		switch k % 4 {
		case 0:
			p = image.NewRGBA(image.Rect(0, 0, 8*9, 14))
		case 1:
			p = image.NewRGBA64(image.Rect(0, 0, 8*5, 11))
		case 2:
			p = image.NewNRGBA(image.Rect(0, 0, 8*7, 9))
		default:
			p = image.NewNRGBA64(image.Rect(0, 0, 8*3, 17))
		}
		px := pixOf(p)
		for i := range px {
			px[i] = uint8(i*31 + k*17)
		}
		if k%4 < 2 { // keep the premultiplied parents valid
			bpp := bytesPerPixel(p)
			for i := 0; i+bpp <= len(px); i += bpp {
				for c := 0; c < bpp; c++ {
					px[i+c] = 0x90 + uint8(i+c)%0x60
				}
				if bpp == 4 {
					px[i+3] = 0xF8
				} else {
					px[i+6], px[i+7] = 0xF8, 0x00
				}
			}
		}
		sh.tileParents = append(sh.tileParents, p)
	}
	sh.srcImg = image.NewNRGBA(image.Rect(0, 0, 19, 13))
	rng.Fill(sh.srcImg.Pix)
	sh.ycc = image.NewYCbCr(image.Rect(0, 0, 18, 11), image.YCbCrSubsampleRatio420)
	rng.Fill(sh.ycc.Y)
	rng.Fill(sh.ycc.Cb)
	rng.Fill(sh.ycc.Cr)
	return sh
}

// c11Step performs call number `it` of goroutine g for a target and returns a
// value that depends on everything the library returned. It is a pure function
// of (target, g, it) when the library is correct, so it can be recomputed
// sequentially after the join.
func c11Step(target string, g, it int, sh *c11Shared) uint64 {
	sp := func(name string) *libSpace { return spaceByName(name) }
	code := uint16(it*257 + g*31)
	x := float32((it*37+g*11)%1001) / 1000
	h := uint64(0)
	switch {
	case strings.HasSuffix(target, ".from16"):
		h = mix(h, uint64(float32bits(sp(strings.TrimSuffix(target, ".from16")).From16(code))))
	case strings.HasSuffix(target, ".to16"):
		h = mix(h, uint64(sp(strings.TrimSuffix(target, ".to16")).To16(x)))
	case strings.HasSuffix(target, ".both"):
		s := sp(strings.TrimSuffix(target, ".both"))
		if (g+it)%2 == 0 {
			h = mix(h, uint64(float32bits(s.From16(code))))
			h = mix(h, uint64(s.To16(x)))
		} else {
			h = mix(h, uint64(s.To16(x)))
			h = mix(h, uint64(float32bits(s.From16(code))))
		}
	case target == "tables8":
		for _, s := range libSpaces {
			if s.To8 != nil {
				h = mix(h, uint64(s.To8(x)))
				h = mix(h, uint64(float32bits(s.From8(uint8(code)))))
			}
		}
	case target == "displayp3":
		s := sp("displayp3")
		c, a := s.FromEncoded(color.NRGBA64{R: code, G: code ^ 0x5555, B: ^code, A: 40000})
		o := s.ToRGBA64(c, a)
		h = mix(h, uint64(o.R)<<48|uint64(o.G)<<32|uint64(o.B)<<16|uint64(o.A))
	case target == "colors":
		s := libSpaces[(g+it)%len(libSpaces)]
		var o color.RGBA64
		if (g+it/3)%2 == 0 {
			o = s.Linearise(color.NRGBA64{R: code, G: code ^ 0x5555, B: ^code, A: 65535 - code/2})
		} else {
			o = s.Encode(color.RGBA64{R: code / 2, G: code / 3, B: code / 4, A: code})
		}
		h = mix(h, uint64(o.R)<<48|uint64(o.G)<<32|uint64(o.B)<<16|uint64(o.A))
	case target == "images" || target == "images-inplace":
		if it%50 != 0 { // image transforms are heavier: every 50th step
			return 0
		}
		s := libSpaces[(g+it/50)%len(libSpaces)]
		rows := 5 + (g+it/50)%6
		r := image.Rect(-2, 3, 7, 3+rows)
		par := 1 + (g+it/50)%4
		if target == "images-inplace" {
			img := newWordImage(r)
			for i := range img.Pix {
				a := uint64(0x8000 + (i*977+g)%0x7fff)
				img.Pix[i] = (a/2)<<48 | (a/3)<<32 | (a/5)<<16 | a
			}
			if it%100 == 0 {
				s.LineariseImage(img, img, par)
			} else {
				s.EncodeImage(img, img, par)
			}
			return hashImage(img)
		}
		src := image.NewNRGBA64(r)
		for i := range src.Pix {
			src.Pix[i] = byte(i*7 + g*13 + it)
		}
		dst := newWordImage(image.Rect(0, 0, r.Dx(), r.Dy()))
		if it%100 == 0 {
			s.LineariseImage(dst, src, par)
		} else {
			s.EncodeImage(dst, src, par)
		}
		h = hashImage(dst)
		dst2 := image.NewRGBA64(r)
		s.LineariseImage(dst2, src, par)
		h = mix(h, hashImage(dst2))
	case target == "images-rgba64":
		if it%50 != 0 {
			return 0
		}
		s := libSpaces[(g+it/50)%len(libSpaces)]
		rows := 4 + (g+it/50)%7
		r := image.Rect(1, 2, 12, 2+rows)
		src := image.NewRGBA64(r)
		for i := 0; i < len(src.Pix); i += 8 { // runs of equal pixels and pairs of identical rows, valid premultiplied
			col, row := (i/8)%11, (i/8)/11
			v := byte((col/3)*29 + (row/2)*7 + g)
			src.Pix[i], src.Pix[i+2], src.Pix[i+4], src.Pix[i+6] = v/2, v/3, v/4, v
			src.Pix[i+1], src.Pix[i+3], src.Pix[i+5], src.Pix[i+7] = 0, 0, 0, 0
		}
		dst := image.NewRGBA64(r)
		par := 2 + (g+it/50)%3
		if it%100 == 0 {
			s.LineariseImage(dst, src, par)
		} else {
			s.EncodeImage(dst, src, par)
		}
		h = hashImage(dst)
		dst8 := image.NewRGBA(r)
		s.EncodeImage(dst8, src, par)
		h = mix(h, hashImage(dst8))
	case target == "images-wide":
		// many workers per call: with 64 goroutines several thousand workers are requested at once
		// (a process-wide worker budget, pool or semaphore is under pressure only here)
		if it%25 != 0 {
			return 0
		}
		s := libSpaces[(g+it/25)%len(libSpaces)]
		par := []int{16, 40, 64, 129}[(g+it/25)%4]
		r := image.Rect(0, 0, 5, 70)
		src := image.NewNRGBA64(r)
		for i := range src.Pix {
			src.Pix[i] = byte(i*11 + g*5 + it)
		}
		dst := image.NewRGBA64(r)
		s.EncodeImage(dst, src, par)
		h = hashImage(dst)
		h = mix(h, hashImage(prism.ConvertImageToRGBA(src, par)))
	case target == "images-shapes":
		// shapes for which an implementation might divide the work differently: far wider than high
		// (fewer rows than workers), a single row, a source of a caller's own type; the result must be
		// the one a single worker produces
		if it%40 != 0 {
			return 0
		}
		k := (g + it/40) % 6
		s := libSpaces[(g+it/40)%len(libSpaces)]
		shape := [][3]int{{4096, 3, 8}, {2048, 1, 4}, {600, 2, 2}, {1024, 2, 4}, {96, 48, 8}, {33, 96, 2}}[k]
		r := image.Rect(0, 0, shape[0], shape[1])
		m := image.NewRGBA64(r)
		for i := 0; i < len(m.Pix); i += 8 {
			v := byte(i/8*13 + g*7 + it)
			m.Pix[i], m.Pix[i+2], m.Pix[i+4], m.Pix[i+6] = v/2, v/3, v, v|0x80
			m.Pix[i+1], m.Pix[i+3], m.Pix[i+5], m.Pix[i+7] = v, 0, 0, 0xFF
		}
		var src image.Image = m
		if k >= 4 || it%80 == 0 {
			src = mirroredRGBA64{m} // not a standard-library image type
		}
		one, many := image.NewRGBA64(r), image.NewRGBA64(r)
		if it%80 == 0 {
			s.LineariseImage(one, src, 1)
			s.LineariseImage(many, src, shape[2])
		} else {
			s.EncodeImage(one, src, 1)
			s.EncodeImage(many, src, shape[2])
		}
		h = hashImage(many)
		if h1 := hashImage(one); h1 != h {
			c11AloneMu.Lock()
			if _, dup := c11AloneMism[-1-k]; !dup {
				c11AloneMism[-1-k] = fmt.Sprintf("%s image transform of a %d x %d image (%T source) with %d workers differs from the result with one worker", s.Name, shape[0], shape[1], src, shape[2])
			}
			c11AloneMu.Unlock()
		}
	case target == "shared-objects":
		// one metadata object / one parsed profile used by all goroutines at once, first use included
		// (the objects are created before the goroutines start and nobody has asked them anything)
		if it%5 != 0 {
			return 0
		}
		k := (it / 5) % len(sh.sharedMD)
		if md := sh.sharedMD[k]; md != nil {
			raw, _ := md.ICCProfileData()
			h = mix(h, fnv64(raw))
			if p, err := md.ICCProfile(); err == nil && p != nil {
				d, _ := p.Description()
				h = mix(h, fnv64([]byte(d)))
				h = mix(h, uint64(p.Header.ProfileSize))
			}
		}
		if p := sh.sharedProf[k%len(sh.sharedProf)]; p != nil {
			d, _ := p.Description()
			h = mix(h, fnv64([]byte(d)))
		}
	case target == "hash-transform":
		if it%50 != 0 {
			return 0
		}
		rows := 5 + (g+it/50)%7
		dst := newWordImage(image.Rect(0, 0, 9, rows))
		linear.TransformImageColor(dst, sh.srcImg.SubImage(image.Rect(2, 1, 11, 1+rows)), 2+(g+it/50)%3, c10Hash)
		h = hashImage(dst)
	case target == "convert":
		if it%50 != 0 {
			return 0
		}
		par := 1 + (g+it/50)%5
		h = mix(h, hashImage(prism.ConvertImageToRGBA64(sh.srcImg, par)))
		h = mix(h, hashImage(prism.ConvertImageToNRGBA(sh.ycc, par)))
		h = mix(h, hashImage(prism.ConvertImageToRGBA64(sh.ycc, par)))
		h = mix(h, hashImage(prism.ConvertImageToRGBA(prism.ConvertImageToRGBA64(sh.srcImg, 1), par)))
		// every helper on every kind of source (translucent pixels included), with several workers
		for k, srcK := range sh.convSources {
			if (k+it/50+g)%2 == 0 {
				continue
			}
			h = mix(h, hashImage(prism.ConvertImageToNRGBA(srcK, par+1)))
			h = mix(h, hashImage(prism.ConvertImageToRGBA(srcK, par+1)))
			h = mix(h, hashImage(prism.ConvertImageToRGBA64(srcK, par+1)))
		}
	case target == "convert-own":
		// a shared, read-only, fully opaque image; every goroutine converts it and then writes to ITS
		// OWN result (transforms it in place): results are the callers' own, the source stays as it is
		if it%25 != 0 {
			return 0
		}
		par := 1 + (g+it/25)%4
		s := libSpaces[(g+it/25)%len(libSpaces)]
		for k, res := range []draw.Image{prism.ConvertImageToNRGBA(sh.opaqueRGBA, par), prism.ConvertImageToRGBA(sh.opaqueNRGBA, par), prism.ConvertImageToRGBA64(sh.opaqueRGBA, par)} {
			if (it/25+k)%2 == 0 {
				s.LineariseImage(res, res, par)
			} else {
				s.EncodeImage(res, res, par)
			}
			h = mix(h, hashImage(res))
		}
		h = mix(h, hashImage(sh.opaqueRGBA))
		h = mix(h, hashImage(sh.opaqueNRGBA))
	case target == "tiles":
		// the goroutines of a trial transform disjoint tiles (column strips, sub-images) of one parent
		// image in place, round after round; what a tile's neighbours hold is not this call's business
		if it%50 != 0 {
			return 0
		}
		round := it / 50
		parent := sh.tileParents[round%len(sh.tileParents)]
		tw := parent.Bounds().Dx() / sh.tileN
		tile := parent.(subImager).SubImage(image.Rect(g%sh.tileN*tw, 0, (g%sh.tileN+1)*tw, parent.Bounds().Dy())).(draw.Image)
		if g >= sh.tileN {
			return 0
		}
		s := libSpaces[round%len(libSpaces)]
		if round%2 == 0 {
			s.EncodeImage(tile, tile, 1+round%3)
		} else {
			s.LineariseImage(tile, tile, 1+round%3)
		}
		h = mix(h, hashImage(tile))
	case target == "convert-premul":
		// every alpha byte through the un-premultiplying helpers, from the first call on
		if it%20 != 0 {
			return 0
		}
		par := 1 + (g+it/20)%4
		rows := 1 + (g+it/20)%16
		sub := sh.premul.SubImage(image.Rect(0, (g+it/20)%(17-rows), 64, (g+it/20)%(17-rows)+rows))
		h = mix(h, hashImage(prism.ConvertImageToNRGBA(sub, par)))
		h = mix(h, hashImage(prism.ConvertImageToRGBA64(sub, par)))
	case target == "generate":
		// matrices for different primaries and whites requested at the same moment
		k := (g*7 + it) % len(c20Pub)
		pr := c20Pub[k]
		m := ciexyz.TransformToXYZForXYYPrimaries(pr[0], pr[1], pr[2], pr[3])
		mi := ciexyz.TransformFromXYZForXYYPrimaries(pr[0], pr[1], pr[2], pr[3])
		for c := 0; c < 3; c++ {
			for rw := 0; rw < 3; rw++ {
				h = mix(h, math.Float64bits(m[c][rw]))
				h = mix(h, math.Float64bits(mi[c][rw]))
			}
		}
	case target == "adapt":
		a := ciexyy.Color{X: 0.3 + float32((g+it)%40)/400, Y: 0.31 + float32(it%30)/500, YY: 1}
		ca := ciexyz.AdaptBetweenXYYWhitePoints(a, ciexyy.D50)
		o := ca.Apply(ciexyz.Color{X: x, Y: 0.5, Z: 1 - x})
		h = mix(h, uint64(float32bits(o.X))<<32|uint64(float32bits(o.Z)))
		if it%7 == 0 {
			o = ciexyz.AdaptBetweenXYYWhitePoints(ciexyy.D65, ciexyy.D50).Apply(o)
			o2 := ciexyz.AdaptBetweenXYYWhitePoints(ciexyy.D50, ciexyy.D65).Apply(o)
			h = mix(h, uint64(float32bits(o2.Y)))
			lab := o.ToLAB(ciexyz.D50)
			h = mix(h, uint64(float32bits(lab.L)))
		}
	case target == "loaders":
		if it%10 != 0 {
			return 0
		}
		k := (g + it/10) % len(sh.files)
		for _, l := range []string{loaderFor(sh.formats[k]), "autometa"} {
			res := loadWith(l, bytes.NewReader(sh.files[k]))
			s := summarise(res)
			h = mix(h, uint64(s.W)<<32|uint64(s.H))
			h = mix(h, s.ICCHash)
			if res.MD != nil {
				if p, err := res.MD.ICCProfile(); err == nil && p != nil {
					d, _ := p.Description()
					h = mix(h, fnv64([]byte(d)))
				}
			}
		}
	case target == "rejects":
		if it%4 != 0 {
			return 0
		}
		k := (g*3 + it/4) % len(sh.rejects)
		out := c11Outcome(sh.rejects[k])
		oh := fnv64([]byte(out))
		h = mix(h, oh)
		if k < len(c11AloneTable) && c11AloneTable[k] != oh {
			c11AloneMu.Lock()
			if _, dup := c11AloneMism[k]; !dup {
				c11AloneMism[k] = fmt.Sprintf("%s.Load of %q gave %s", sh.rejects[k].loader, sh.rejects[k].name, out)
			}
			c11AloneMu.Unlock()
		}
	case target == "xyz":
		// XYZ conversions in both directions, from the first call of the process on, space by goroutine
		s := libSpaces[(g+it/7)%len(libSpaces)]
		v := float32(code) / 65535
		x := s.ToXYZ(linear.RGB{R: v, G: 1 - v, B: v / 2})
		c := s.FromXYZ(ciexyz.Color{X: v, Y: 0.5, Z: 1 - v})
		h = mix(h, uint64(float32bits(x.X))<<32|uint64(float32bits(x.Z)))
		h = mix(h, uint64(float32bits(c.R))<<32|uint64(float32bits(c.B)))
	case target == "icc":
		if it%10 != 0 {
			return 0
		}
		p, err, _ := readProfile(bytes.NewReader(sh.profiles[0]))
		if err == nil && p != nil {
			d, _ := p.Description()
			h = mix(h, fnv64([]byte(d)))
			h = mix(h, uint64(p.Header.ProfileSize))
		}
		// headers with every registered colour-space / class / platform signature, read and printed
		// (the header's own String methods) by all goroutines from the first call on
		hp := sh.headerProfiles[(g+it/10)%len(sh.headerProfiles)]
		if p2, err2, _ := readProfile(bytes.NewReader(hp)); err2 == nil && p2 != nil {
			h = mix(h, fnv64([]byte(fmt.Sprintf("%v|%+v", p2.Header.Version, p2.Header))))
		}
	case target == "mixed":
		all := []string{"srgb.both", "adobergb.both", "prophotorgb.both", "displayp3", "colors", "adapt", "tables8", "loaders", "images"}
		return c11Step(all[g%len(all)], g, it, sh)
	}
	return h
}

// c20Pub: primaries + white of a few spaces for the "generate" target (xyY, YY = 1)
var c20Pub = func() [][4]ciexyy.Color {
	xy := func(x, y float32) ciexyy.Color { return ciexyy.Color{X: x, Y: y, YY: 1} }
	return [][4]ciexyy.Color{
		{xy(0.64, 0.33), xy(0.30, 0.60), xy(0.15, 0.06), xy(0.31271, 0.32902)},
		{xy(0.64, 0.33), xy(0.21, 0.71), xy(0.15, 0.06), xy(0.31271, 0.32902)},
		{xy(0.734699, 0.265301), xy(0.159597, 0.840403), xy(0.036598, 0.000105), xy(0.34567, 0.3585)},
		{xy(0.68, 0.32), xy(0.265, 0.69), xy(0.15, 0.06), xy(0.31271, 0.32902)},
		{xy(0.708, 0.292), xy(0.17, 0.797), xy(0.131, 0.046), xy(0.31271, 0.32902)},
		{xy(0.64, 0.33), xy(0.30, 0.60), xy(0.15, 0.06), xy(0.34567, 0.3585)},
		{xy(0.63, 0.34), xy(0.31, 0.595), xy(0.155, 0.07), xy(0.3101, 0.3162)},
	}
}()

func float32bits(f float32) uint32 {
	return math.Float32bits(f)
}

var c11Targets = []string{"srgb.from16", "srgb.to16", "srgb.both", "adobergb.from16", "adobergb.to16", "adobergb.both", "prophotorgb.from16", "prophotorgb.to16", "prophotorgb.both",
	"displayp3", "colors", "tables8", "images", "images-inplace", "images-rgba64", "images-wide", "images-shapes", "tiles", "convert-own", "shared-objects", "convert-premul", "generate", "hash-transform", "convert", "adapt", "xyz", "loaders", "rejects", "icc", "mixed"}

func c11Lazy(t string) bool {
	return strings.Contains(t, ".from16") || strings.Contains(t, ".to16") || strings.Contains(t, ".both") || t == "displayp3" || t == "colors" || t == "mixed"
	// ("xyz" has nothing lazy on the unchanged tree: overlap of its first calls is not required)
}

const c11Iters = 400

// childC11: args = target N park(0/1)
func childC11(args []string) int {
	if len(args) < 3 {
		return 2
	}
	target := args[0]
	var n, park int
	fmt.Sscanf(args[1], "%d", &n)
	fmt.Sscanf(args[2], "%d", &park)
	if target == "rejects-alone" {
		// the process makes this one call and nothing else: "the value it returns when executed alone"
		rj := c11Rejects()
		if n < 0 || n >= len(rj) {
			return 2
		}
		out := c11Outcome(rj[n])
		fmt.Printf("ALONE %d %016x %s\n", n, fnv64([]byte(out)), strings.ReplaceAll(out, "\n", " "))
		fmt.Printf("DONE 0\n")
		return 0
	}
	for _, f := range strings.Split(os.Getenv("VERIF_C11_ALONE"), ",") {
		var v uint64
		if _, err := fmt.Sscanf(f, "%x", &v); err == nil {
			c11AloneTable = append(c11AloneTable, v)
		}
	}
	sh := newC11Shared()
	sums := make([]uint64, n)
	panics := make([]string, n)
	t0 := make([]time.Time, n)
	t1 := make([]time.Time, n)
	start := make(chan struct{})
	release := make(chan struct{})
	var wg sync.WaitGroup
	var firstDone sync.WaitGroup
	// a trial whose goroutines all wait for one another never ends. That is decided on goroutine
	// states, not on time: when no step has completed for three samples in a row, every goroutine
	// other than this monitor is parked in a channel / lock / wait-group operation and none is
	// running, runnable or in a system call, nothing in this process can ever wake them (it does no
	// I/O): the child says so and ends.
	var progress atomic.Int64
	stopMon := make(chan struct{})
	go func() {
		last, same := int64(-1), 0
		for {
			select {
			case <-stopMon:
				return
			case <-time.After(2 * time.Second):
			}
			if p := progress.Load(); p != last {
				last, same = p, 0
				continue
			}
			same++
			if same < 3 {
				continue
			}
			buf := make([]byte, 4<<20)
			buf = buf[:runtime.Stack(buf, true)]
			live, parked := 0, 0
			for _, blk := range strings.Split(string(buf), "\n\n") {
				hd := strings.SplitN(blk, "\n", 2)[0]
				if !strings.HasPrefix(hd, "goroutine ") || strings.Contains(blk, "props.childC11.func") && strings.Contains(hd, "[running]") {
					continue
				}
				st := hd[strings.Index(hd, "[")+1:]
				switch {
				case strings.HasPrefix(st, "chan "), strings.HasPrefix(st, "select"), strings.HasPrefix(st, "semacquire"), strings.HasPrefix(st, "sync."), strings.HasPrefix(st, "GC "), strings.HasPrefix(st, "finalizer"), strings.HasPrefix(st, "force gc"), strings.HasPrefix(st, "sleep") && strings.Contains(blk, "core."):
					parked++
				default:
					live++
				}
			}
			if live == 0 && parked > 0 {
				fmt.Printf("DEADLOCK every goroutine of the trial is parked and none can run; goroutine dump:\n%s\nEND-DEADLOCK\n", truncate(string(buf), 6000))
				os.Exit(3)
			}
		}
	}()
	defer close(stopMon)
	for g := 0; g < n; g++ {
		wg.Add(1)
		firstDone.Add(1)
		go func(g int) {
			defer wg.Done()
			fd := false
			defer func() {
				if p := recover(); p != nil {
					panics[g] = fmt.Sprint(p)
				}
				if !fd {
					firstDone.Done()
				}
			}()
			<-start
			if park == 1 {
				// staggered arrivals: later goroutines reach their first call while the first
				// caller's lazy initialisation is still under way (not all at the same instant)
				for spin := 0; spin < g*4000; spin++ {
					runtime.Gosched()
					if spin%64 == 0 {
						_ = time.Now()
					}
				}
			}
			t0[g] = time.Now()
			h := c11Step(target, g, 0, sh)
			t1[g] = time.Now()
			progress.Add(1)
			fd = true
			firstDone.Done()
			if park == 1 && g%2 == 1 {
				// this goroutine's only access stays the "previous access" other goroutines can race with
				<-release
				sums[g] = h
				return
			}
			for it := 1; it < c11Iters; it++ {
				h = mix(h, c11Step(target, g, it, sh))
				progress.Add(1)
			}
			sums[g] = h
		}(g)
	}
	close(start)
	firstDone.Wait()
	go func() {
		time.Sleep(20 * time.Millisecond)
		close(release)
	}()
	wg.Wait()
	for k, m := range c11AloneMism {
		if k < 0 {
			fmt.Printf("WORKERS-MISMATCH %s\n", strings.ReplaceAll(m, "\n", " "))
			continue
		}
		fmt.Printf("ALONE-MISMATCH item=%d %s\n", k, strings.ReplaceAll(m, "\n", " "))
	}
	// sequential recomputation (for the tiles target on fresh parents: the tiles were transformed in place)
	shConc := sh
	if target == "tiles" {
		sh = newC11Shared()
	}
	mism := 0
	for g := 0; g < n; g++ {
		if panics[g] != "" {
			fmt.Printf("PANIC g=%d %s\n", g, panics[g])
			continue
		}
		h := c11Step(target, g, 0, sh)
		if !(park == 1 && g%2 == 1) {
			for it := 1; it < c11Iters; it++ {
				h = mix(h, c11Step(target, g, it, sh))
			}
		}
		if h != sums[g] {
			mism++
			fmt.Printf("MISMATCH g=%d concurrent=%016x sequential=%016x\n", g, sums[g], h)
		}
	}
	if target == "tiles" {
		for k := range sh.tileParents {
			if hc, hs := hashImage(shConc.tileParents[k]), hashImage(sh.tileParents[k]); hc != hs {
				fmt.Printf("WORKERS-MISMATCH parent image %d (%T), whose tiles were transformed in place by different goroutines at the same time, differs from the same tiles transformed one after the other\n", k, sh.tileParents[k])
			}
		}
	}
	// overlap of first calls (evidence only)
	overlap := 0
	for a := 0; a < n; a++ {
		for b := 0; b < n; b++ {
			if a != b && t0[a].Before(t1[b]) && t0[b].Before(t1[a]) {
				overlap++
				break
			}
		}
	}
	var firstMax time.Duration
	for g := 0; g < n; g++ {
		if d := t1[g].Sub(t0[g]); d > firstMax {
			firstMax = d
		}
	}
	fmt.Printf("OVERLAP %d %d %d\n", overlap, n, firstMax.Microseconds())
	fmt.Printf("DONE %d\n", mism)
	return 0
}

func c11Trials(thorough bool) []c11Trial {
	combos := [][2]int{{2, 2}, {4, 4}, {8, 16}, {16, 16}, {64, 16}, {8, 1}}
	reps := 1
	if thorough {
		combos = nil
		for _, n := range []int{2, 3, 4, 8, 16, 64} {
			for _, p := range []int{1, 2, 4, 16} {
				combos = append(combos, [2]int{n, p})
			}
		}
		reps = 3
	}
	var out []c11Trial
	for _, t := range c11Targets {
		for ci, c := range combos {
			for rep := 0; rep < reps; rep++ {
				out = append(out, c11Trial{t, c[0], c[1], (ci+rep)%2 == 1, rep})
			}
		}
	}
	return out
}

// c11AloneEnv carries the outcomes of the "rejects" inputs, each obtained in a process of its own,
// to the trial processes.
var c11AloneEnv string

type c11Result struct {
	trial    c11Trial
	out      string
	reports  []core.RaceReport
	err      error
	timedOut bool
}

func c11Run(work string, t c11Trial, idx int) c11Result {
	park := "0"
	if t.Park {
		park = "1"
	}
	env := []string{fmt.Sprintf("GOMAXPROCS=%d", t.GOMAXPROCS), "VERIF_SEED=1", "VERIF_C11_ALONE=" + c11AloneEnv}
	out, reports, _, timedOut, err := core.RunRaceChildOpts(work, fmt.Sprintf("t%d", idx), env, 5*time.Minute, "history_size=7", "C11", t.Target, fmt.Sprint(t.N), park)
	return c11Result{t, string(out), reports, err, timedOut}
}

func runC11(r *core.Run) {
	r.Rule = "each trial is a fresh process built with -race in which N goroutines (2..64, GOMAXPROCS 1..16) are released together and make their first calls into one target set (per-space 16-bit decode / encode / both in mixed order, Display P3, colour functions, 8-bit tables, image transforms incl. in-place and word-per-pixel destinations, image conversion helpers, chromatic adaptation, the loaders and the ICC reader on shared bytes, and a mix of all), half of the trials parking every second goroutine after its first call, then 400 further calls each; values are recomputed sequentially after the join. non-trivial = trials in which at least two goroutines' first calls overlapped in time"
	r.Assumptions = []string{"the Go race detector's happens-before analysis (GORACE history_size=7); schedules with a synchronisation shape never produced by these trials are not covered", "race reports are attributed by the innermost frame of the library in either access stack"}
	work := core.WorkDir("C11")
	defer os.RemoveAll(work)
	// "the value it returns when executed alone": one process per input of the rejects target
	{
		rj := c11Rejects()
		alone := make([]string, len(rj))
		texts := make([]string, len(rj))
		core.ParallelFor(len(rj), 8, func(k int) {
			res := c11Run(work, c11Trial{"rejects-alone", k, 2, false, 0}, 200000+k)
			for _, line := range strings.Split(res.out, "\n") {
				var kk int
				var h uint64
				if n, _ := fmt.Sscanf(line, "ALONE %d %x", &kk, &h); n == 2 && kk == k {
					alone[k] = fmt.Sprintf("%x", h)
					texts[k] = line
				}
			}
		})
		ok := 0
		for k := range alone {
			if alone[k] == "" {
				alone[k] = "0"
				r.Inconclusive(fmt.Sprintf("no outcome from the process that loads %q alone", rj[k].name))
			} else {
				ok++
			}
		}
		c11AloneEnv = strings.Join(alone, ",")
		r.AddEvals(int64(ok))
		r.Obs("inputs_loaded_alone_in_their_own_process", ok)
		if len(texts) > 0 {
			r.Sample(map[string]any{"alone": texts[0]})
		}
	}
	trials := c11Trials(r.Thorough())
	results := make([]c11Result, len(trials))
	core.ParallelFor(len(trials), 6, func(i int) {
		results[i] = c11Run(work, trials[i], i)
	})
	// re-run (up to 3 extra rounds) the trials of lazily initialised targets that showed no overlap
	for round := 0; round < 3; round++ {
		has := map[string]bool{}
		for _, res := range results {
			var k, n, us int
			for _, line := range strings.Split(res.out, "\n") {
				if strings.HasPrefix(line, "OVERLAP ") {
					fmt.Sscanf(line, "OVERLAP %d %d %d", &k, &n, &us)
					if k >= 2 {
						has[res.trial.Target] = true
					}
				}
			}
		}
		var again []c11Trial
		for _, t := range trials {
			if c11Lazy(t.Target) && !has[t.Target] && t.GOMAXPROCS >= 2 {
				again = append(again, t)
			}
		}
		if len(again) == 0 {
			break
		}
		extra := make([]c11Result, len(again))
		core.ParallelFor(len(again), 6, func(i int) { extra[i] = c11Run(work, again[i], 100000+round*1000+i) })
		results = append(results, extra...)
	}
	sigCount := map[string]int{}
	overlapping := 0
	perTarget := map[string][2]int{}
	for _, res := range results {
		t := res.trial
		r.AddEvals(1)
		if res.timedOut {
			r.Inconclusive(fmt.Sprintf("trial %+v: watchdog fired", t))
			continue
		}
		done := false
		for _, line := range strings.Split(res.out, "\n") {
			switch {
			case strings.HasPrefix(line, "MISMATCH "):
				r.Violate("value", "value/"+t.Target, fmt.Sprintf("trial %+v: a call returned a different value under concurrency than alone: %s", t, line), t)
			case strings.HasPrefix(line, "DEADLOCK "):
				dump := res.out
				if i := strings.Index(dump, "DEADLOCK "); i >= 0 {
					dump = dump[i:]
				}
				r.Violate("value", "deadlock/"+t.Target, fmt.Sprintf("trial %+v: calls that return when executed alone never returned: %s", t, truncate(dump, 5000)), t)
				done = true
			case strings.HasPrefix(line, "WORKERS-MISMATCH "):
				r.Violate("value", "value-vs-one-worker/"+t.Target, fmt.Sprintf("trial %+v: %s", t, line), t)
			case strings.HasPrefix(line, "ALONE-MISMATCH "):
				r.Violate("value", "value-vs-alone/"+t.Target, fmt.Sprintf("trial %+v: a load returned something else than it does when it is the only call of its process: %s", t, line), t)
			case strings.HasPrefix(line, "PANIC "):
				r.Violate("value", "panic/"+t.Target, fmt.Sprintf("trial %+v: a goroutine panicked: %s", t, line), t)
			case strings.HasPrefix(line, "OVERLAP "):
				var k, n, us int
				fmt.Sscanf(line, "OVERLAP %d %d %d", &k, &n, &us)
				pt := perTarget[t.Target]
				pt[1]++
				if k >= 2 {
					overlapping++
					pt[0]++
					r.NT(fmt.Sprintf("%s|%d|%d|%v|%d", t.Target, t.N, t.GOMAXPROCS, t.Park, t.Rep))
				}
				perTarget[t.Target] = pt
			case strings.HasPrefix(line, "DONE "):
				done = true
			}
		}
		if !done {
			if res.err != nil && len(res.reports) == 0 {
				r.Violate("value", "crash/"+t.Target, fmt.Sprintf("trial %+v: the process did not finish: %v", t, res.err), t)
			} else if len(res.reports) == 0 {
				r.Inconclusive(fmt.Sprintf("trial %+v produced no result", t))
			}
		}
		for _, rep := range res.reports {
			sigCount[rep.Sig]++
			if rep.PrismIn {
				r.Violate("race", "race: "+rep.Sig, fmt.Sprintf("trial %+v: data race reported by the Go race detector:\n%s", t, truncate(rep.Text, 3500)), t)
			} else {
				r.Inconclusive("race report without a prism frame (harness race?): " + rep.Sig)
			}
		}
	}
	r.Obs("trials", len(trials))
	r.Obs("trials_with_overlapping_first_calls", overlapping)
	r.Obs("overlapping_trials_per_target", perTarget)
	r.Obs("race_report_signatures", sigCount)
	// a lazily initialised target whose first calls never overlapped has not been put under
	// first-use contention; for targets without lazy state overlap of the first call means nothing
	var never []string
	for _, t := range c11Targets {
		if c11Lazy(t) && perTarget[t][0] == 0 {
			never = append(never, t)
		}
	}
	sort.Strings(never)
	if len(never) > 0 {
		r.Inconclusive("no trial with overlapping first calls for lazily initialised targets " + strings.Join(never, ","))
	}
	r.Sample(trials[0])
	r.Sample(trials[len(trials)/2])
	_ = runtime.NumCPU
	_ = imggen.PNGSig
}

func replayC11(stage string, raw json.RawMessage) (bool, string, error) {
	var t c11Trial
	if err := json.Unmarshal(raw, &t); err != nil {
		return false, "", err
	}
	work := core.WorkDir("C11replay")
	defer os.RemoveAll(work)
	// race reports are schedule dependent: repeat the trial up to 10 times
	for i := 0; i < 10; i++ {
		res := c11Run(work, t, i)
		if strings.Contains(res.out, "MISMATCH ") || strings.Contains(res.out, "PANIC ") {
			return true, "value mismatch or panic under concurrency: " + truncate(res.out, 500), nil
		}
		for _, rep := range res.reports {
			if rep.PrismIn {
				return true, "data race: " + rep.Sig, nil
			}
		}
	}
	return false, "10 repetitions of the trial were silent", nil
}

func init() {
	core.Register(&core.Property{ID: "C11", Level: "exploration", Run: runC11, Replay: replayC11, Child: childC11})
}
