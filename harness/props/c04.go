//go:build all || c04

package props

import (
	"encoding/json"
	"fmt"
	"image/color"
	"math"
	"sync/atomic"
	"time"

	"github.com/mandykoh/prism/ciexyz"
	"github.com/mandykoh/prism/linear"

	"verifharness/internal/core"
	"verifharness/internal/refcolor"
)

// C04 — cross-space pixel conversion equals an independent colorimetric pipeline.

type c04Case struct {
	Src string   `json:"src"`
	Dst string   `json:"dst"`
	Px  [4]uint8 `json:"nrgba"`
}

type c04Pair struct {
	src, dst *libSpace
	adapt    bool
	ca       ciexyz.ChromaticAdaptation
	T        refcolor.Mat // float64 reference: linear src RGB -> linear dst RGB
	eotf     [256]float64
	e8       c02Enc
}

func newC04Pair(src, dst *libSpace) (*c04Pair, error) {
	p := &c04Pair{src: src, dst: dst}
	sw, dw := src.White(), dst.White()
	p.adapt = sw != dw
	if p.adapt {
		p.ca = ciexyz.AdaptBetweenXYYWhitePoints(sw, dw)
	}
	sr, sg, sb, sW := c04DeclXY(src)
	dr, dg, db, dW := c04DeclXY(dst)
	ms, ok1 := refcolor.RGBToXYZ(sr, sg, sb, sW)
	md, ok2 := refcolor.RGBToXYZ(dr, dg, db, dW)
	if !ok1 || !ok2 {
		return nil, fmt.Errorf("degenerate declared primaries")
	}
	mdi, _ := md.Inv()
	t := ms
	if p.adapt {
		t = refcolor.Bradford(sW.XYZ(), dW.XYZ()).Mul(ms)
	}
	p.T = mdi.Mul(t)
	for i := range p.eotf {
		p.eotf[i] = src.Ref.Curve.EOTF(float64(i) / 255)
	}
	p.e8 = c02Enc{dst.Name + ".To8Bit", 255, 511, dst.Ref.Curve.OETF, nil}
	return p, nil
}

// convert runs the documented pipeline through the public API.
func (p *c04Pair) convert(px color.NRGBA) (out color.NRGBA, panicked any) {
	defer func() {
		if e := recover(); e != nil {
			panicked = e
		}
	}()
	col, alpha := p.src.FromNRGBA(px)
	xyz := p.src.ToXYZ(col)
	if p.adapt {
		xyz = p.ca.Apply(xyz)
	}
	return p.dst.ToNRGBA(p.dst.FromXYZ(xyz), alpha), nil
}

const c04Delta = 1e-5

func (p *c04Pair) check(px color.NRGBA) (bad bool, msg string, out color.NRGBA, clipLo, clipHi int) {
	out, pan := p.convert(px)
	if pan != nil {
		return true, fmt.Sprintf("%s->%s pipeline panicked on %v: %v", p.src.Name, p.dst.Name, px, pan), out, 0, 0
	}
	if out.A != px.A {
		return true, fmt.Sprintf("%s->%s %v: alpha changed to %d", p.src.Name, p.dst.Name, px, out.A), out, 0, 0
	}
	lin := refcolor.Vec{p.eotf[px.R], p.eotf[px.G], p.eotf[px.B]}
	ref := p.T.MulV(lin)
	got := [3]uint8{out.R, out.G, out.B}
	for i := 0; i < 3; i++ {
		x := ref[i]
		var lo, hi float64
		switch {
		case x+c04Delta <= 0:
			lo, hi = 0, 0
		case x-c04Delta >= 1:
			lo, hi = 255, 255
		default:
			lo, hi = c02BoundsOpen(&p.e8, x, c04Delta)
		}
		if x < 0 {
			clipLo++
		} else if x > 1 {
			clipHi++
		}
		if float64(got[i]) < lo || float64(got[i]) > hi {
			return true, fmt.Sprintf("%s->%s %v -> %v: channel %d is %d, float64 reference linear value %.7f allows codes [%.3f, %.3f]", p.src.Name, p.dst.Name, px, out, i, got[i], x, lo, hi), out, clipLo, clipHi
		}
	}
	return false, "ok", out, clipLo, clipHi
}

// c02BoundsOpen is c02Bounds without the hard clip cases (the reference value
// itself carries an uncertainty delta, so the clip decision is made by the
// caller with that uncertainty).
func c02BoundsOpen(e *c02Enc, x, extra float64) (lo, hi float64) {
	h := 1.02*(0.5/e.Nodes) + extra
	eps := e.Max / (1 << 21)
	lo = e.Max*e.OETF(clamp01(x-h)) - 0.5 - eps
	hi = e.Max*e.OETF(clamp01(x+h)) + 0.5 + eps
	return math.Max(0, lo), math.Min(e.Max, hi)
}

func runC04(r *core.Run) {
	r.Rule = "16 ordered space pairs x pixels (quick: 64^3 lattice, 256 greys, gamut-surface sample, 2^16 seeded pixels at alpha 255 + 256 alphas x 4096 pixels; thorough: all 2^24 RGB per pair); non-trivial = distinct (pair, output pixel) with a channel strictly inside (0,255)"
	r.Assumptions = []string{"reference pipeline: refcolor EOTF -> matrix from declared primaries -> Bradford iff whites differ -> inverse matrix, float64", "allowed codes: C02 interval law around the reference with delta=1e-5 for accumulated float32 error"}
	var pairs []*c04Pair
	for _, s := range libSpaces {
		for _, d := range libSpaces {
			p, err := newC04Pair(s, d)
			if err != nil {
				r.Violate("setup", s.Name+"->"+d.Name+"/setup", err.Error(), c04Case{Src: s.Name, Dst: d.Name})
				continue
			}
			pairs = append(pairs, p)
		}
	}
	rng := core.NewRNG(r.Seed, "C04")
	clipStats := map[string][2]int64{}
	ntPerPair := map[string]int64{}
	for _, p := range pairs {
		p := p
		name := p.src.Name + "->" + p.dst.Name
		seen := make([]uint32, 1<<19) // 2^24 bits
		var clo, chi, evals atomic.Int64
		one := func(px color.NRGBA) {
			bad, msg, out, l, h := p.check(px)
			if bad {
				r.Violate("pixel", name, msg, c04Case{p.src.Name, p.dst.Name, [4]uint8{px.R, px.G, px.B, px.A}})
			}
			if l+h > 0 {
				clo.Add(int64(l))
				chi.Add(int64(h))
			}
			if (out.R > 0 && out.R < 255) || (out.G > 0 && out.G < 255) || (out.B > 0 && out.B < 255) {
				idx := uint32(out.R)<<16 | uint32(out.G)<<8 | uint32(out.B)
				atomic.OrUint32(&seen[idx>>5], 1<<(idx&31))
			}
		}
		if r.Thorough() {
			core.ParallelFor(256, 16, func(ri int) {
				for g := 0; g < 256; g++ {
					for b := 0; b < 256; b++ {
						one(color.NRGBA{R: uint8(ri), G: uint8(g), B: uint8(b), A: 255})
					}
				}
				evals.Add(65536)
			})
		} else {
			off := uint8(rng.Intn(4))
			core.ParallelFor(64, 16, func(i int) {
				for j := 0; j < 64; j++ {
					for k := 0; k < 64; k++ {
						one(color.NRGBA{R: uint8(i*255/63) ^ off&1, G: uint8(j * 255 / 63), B: uint8(k*255/63) ^ off>>1, A: 255})
					}
				}
				evals.Add(64 * 64)
			})
		}
		var list []color.NRGBA
		for v := 0; v < 256; v++ {
			list = append(list, color.NRGBA{R: uint8(v), G: uint8(v), B: uint8(v), A: 255})
		}
		// gamut surface: one channel pinned at 0 or 255
		for _, pin := range []uint8{0, 255} {
			for a := 0; a < 256; a += 4 {
				for b := 0; b < 256; b += 4 {
					list = append(list, color.NRGBA{R: pin, G: uint8(a), B: uint8(b), A: 255},
						color.NRGBA{R: uint8(a), G: pin, B: uint8(b), A: 255},
						color.NRGBA{R: uint8(a), G: uint8(b), B: pin, A: 255})
				}
			}
		}
		rg := core.NewRNG(r.Seed, "C04", name)
		for i := 0; i < 1<<16; i++ {
			v := rg.U32()
			list = append(list, color.NRGBA{R: uint8(v), G: uint8(v >> 8), B: uint8(v >> 16), A: 255})
		}
		// alpha sweep
		for i := 0; i < 4096; i++ {
			v := rg.U32()
			for a := 0; a < 256; a += 1 + int(v>>28)%3 {
				list = append(list, color.NRGBA{R: uint8(v), G: uint8(v >> 8), B: uint8(v >> 16), A: uint8(a)})
			}
			list = append(list, color.NRGBA{R: uint8(v), G: uint8(v >> 8), B: uint8(v >> 16), A: uint8(i)})
		}
		const chunkN = 8192
		core.ParallelFor((len(list)+chunkN-1)/chunkN, 16, func(ci int) {
			end := (ci + 1) * chunkN
			if end > len(list) {
				end = len(list)
			}
			for _, px := range list[ci*chunkN : end] {
				one(px)
			}
		})
		evals.Add(int64(len(list)))
		var nt int64
		for _, w := range seen {
			for ; w != 0; w &= w - 1 {
				nt++
			}
		}
		r.NTCount(nt)
		r.AddEvals(evals.Load())
		clipStats[name] = [2]int64{clo.Load(), chi.Load()}
		ntPerPair[name] = nt
	}
	// all pairs at once: sixteen workers, each converting through a different pair at any moment
	// (above, one pair at a time is spread over the workers, so concurrent calls always share the
	// adaptation; state keyed on "the adaptation used last" shows only when pairs interleave)
	{
		rg := core.NewRNG(r.Seed, "C04", "mixed-pairs")
		px := make([]color.NRGBA, 6000)
		for i := range px {
			v := rg.U32()
			px[i] = color.NRGBA{R: uint8(v), G: uint8(v >> 8), B: uint8(v >> 16), A: 255}
		}
		core.ParallelFor(16, 16, func(w int) {
			for i, c := range px {
				p := pairs[(i+w*5)%len(pairs)]
				if bad, msg, _, _, _ := p.check(c); bad {
					r.Violate("pixel", p.src.Name+"->"+p.dst.Name+"/pairs-interleaved", msg+" (sixteen goroutines converting through different pairs at once)", c04Case{p.src.Name, p.dst.Name, [4]uint8{c.R, c.G, c.B, c.A}})
					return
				}
			}
			r.AddEvals(int64(len(px)))
		})
	}
	if r.Variant == "" {
		// the whole workload once more in the GOARCH=386 build of this monitor (see ./check)
		r.RunVariantChild("arch386@16", 30*time.Minute, false)
		r.Obs("arch386_child", "run")
		for _, v := range []string{"rev@3", "encfirst+rev@1", "warm@4", "genfirst+rot1@2"} {
			r.RunVariantChild(v, 10*time.Minute, false)
		}
		r.Obs("fresh_process_variants", []string{"rev@3", "encfirst+rev@1", "warm@4", "genfirst+rot1@2"})
	}
	r.Exhaustive = r.Thorough()
	r.Obs("reference_channels_below0_above1_per_pair", clipStats)
	r.Obs("distinct_nontrivial_output_pixels_per_pair", ntPerPair)
	for _, p := range pairs {
		if p.src.Name == "prophotorgb" && p.dst.Name == "srgb" || p.src.Name == "adobergb" && p.dst.Name == "displayp3" {
			px := color.NRGBA{R: 200, G: 40, B: 120, A: 255}
			out, _ := p.convert(px)
			r.Sample(map[string]any{"pair": p.src.Name + "->" + p.dst.Name, "in": px, "out": out, "adapted": p.adapt})
		}
	}
}

func replayC04(stage string, raw json.RawMessage) (bool, string, error) {
	var cs c04Case
	if err := json.Unmarshal(raw, &cs); err != nil {
		return false, "", err
	}
	s, d := spaceByName(cs.Src), spaceByName(cs.Dst)
	if s == nil || d == nil {
		return false, "", fmt.Errorf("unknown space")
	}
	p, err := newC04Pair(s, d)
	if err != nil {
		return true, err.Error(), nil
	}
	bad, msg, _, _, _ := p.check(color.NRGBA{R: cs.Px[0], G: cs.Px[1], B: cs.Px[2], A: cs.Px[3]})
	return bad, msg, nil
}

var _ = linear.RGB{}

func init() {
	core.Register(&core.Property{ID: "C04", Level: "exploration", Run: runC04, Replay: replayC04, Child: variantChild("C04", "exploration", runC04)})
}
