package props

import (
	"bytes"
	"fmt"
	"image"
	"image/jpeg"
	"image/png"
	"io"

	"github.com/mandykoh/prism/meta"
	"github.com/mandykoh/prism/meta/autometa"
	"github.com/mandykoh/prism/meta/icc"
	"github.com/mandykoh/prism/meta/jpegmeta"
	"github.com/mandykoh/prism/meta/pngmeta"
	"github.com/mandykoh/prism/meta/webpmeta"
	"golang.org/x/image/webp"

	"verifharness/internal/imggen"
)

var loaderNames = []string{"pngmeta", "jpegmeta", "webpmeta", "autometa"}

func loaderFor(format string) string {
	switch format {
	case "PNG":
		return "pngmeta"
	case "JPEG":
		return "jpegmeta"
	case "WebP":
		return "webpmeta"
	}
	return "autometa"
}

type loadResult struct {
	MD     *meta.Data
	Stream io.Reader
	Err    error
	Panic  any
}

// loadWith calls one of the four public loaders, containing panics so that
// the monitor can report them.
func loadWith(loader string, r io.Reader) (res loadResult) {
	defer func() {
		if p := recover(); p != nil {
			res.Panic = p
		}
	}()
	switch loader {
	case "pngmeta":
		res.MD, res.Stream, res.Err = pngmeta.Load(r)
	case "jpegmeta":
		res.MD, res.Stream, res.Err = jpegmeta.Load(r)
	case "webpmeta":
		res.MD, res.Stream, res.Err = webpmeta.Load(r)
	case "autometa":
		res.MD, res.Stream, res.Err = autometa.Load(r)
	default:
		panic("unknown loader " + loader)
	}
	return
}

// mdSummary is the comparable projection of extracted metadata.
type mdSummary struct {
	OK      bool   `json:"ok"`
	Format  string `json:"format,omitempty"`
	W       uint32 `json:"w,omitempty"`
	H       uint32 `json:"h,omitempty"`
	Depth   uint32 `json:"depth,omitempty"`
	HasICC  bool   `json:"has_icc,omitempty"`
	ICCLen  int    `json:"icc_len,omitempty"`
	ICCHash uint64 `json:"icc_hash,omitempty"`
	ICCErr  bool   `json:"icc_err,omitempty"`
	Panic   string `json:"panic,omitempty"`
	ErrText string `json:"err,omitempty"`
	icc     []byte
	// sourceDependent is set by C19 when a specific loader's outcome depends on the reader's type
	sourceDependent string
}

func fnv64(b []byte) uint64 {
	h := uint64(14695981039346656037)
	for _, c := range b {
		h ^= uint64(c)
		h *= 1099511628211
	}
	return h
}

func summarise(res loadResult) mdSummary {
	var s mdSummary
	if res.Panic != nil {
		s.Panic = fmt.Sprint(res.Panic)
		return s
	}
	if res.Err != nil {
		s.ErrText = res.Err.Error()
	}
	if res.Err != nil || res.MD == nil {
		return s
	}
	s.OK = true
	s.Format, s.W, s.H, s.Depth = string(res.MD.Format), res.MD.PixelWidth, res.MD.PixelHeight, res.MD.BitsPerComponent
	data, err := iccDataOf(res.MD)
	s.ICCErr = err != nil
	if data != nil {
		s.HasICC, s.ICCLen, s.ICCHash, s.icc = true, len(data), fnv64(data), data
	}
	return s
}

func (a mdSummary) same(b mdSummary) bool {
	return a.OK == b.OK && a.Format == b.Format && a.W == b.W && a.H == b.H && a.Depth == b.Depth &&
		a.HasICC == b.HasICC && a.ICCLen == b.ICCLen && a.ICCHash == b.ICCHash && a.ICCErr == b.ICCErr && (a.Panic != "") == (b.Panic != "")
}

func iccDataOf(md *meta.Data) (data []byte, err error) {
	defer func() {
		if p := recover(); p != nil {
			err = fmt.Errorf("panic in ICCProfileData: %v", p)
		}
	}()
	return md.ICCProfileData()
}

// stdConfig asks the independent decoder of the format for the dimensions.
func stdConfig(format string, b []byte) (w, h int, ok bool) {
	defer func() {
		if p := recover(); p != nil {
			ok = false
		}
	}()
	var cfg image.Config
	var err error
	switch format {
	case "PNG":
		cfg, err = png.DecodeConfig(bytes.NewReader(b))
	case "JPEG":
		cfg, err = jpeg.DecodeConfig(bytes.NewReader(b))
	case "WebP":
		cfg, err = webp.DecodeConfig(bytes.NewReader(b))
	}
	if err != nil {
		return 0, 0, false
	}
	return cfg.Width, cfg.Height, true
}

// readProfile parses an ICC profile through the public reader, containing panics.
func readProfile(r interface {
	io.Reader
	io.ByteReader
}) (p *icc.Profile, err error, pan any) {
	defer func() {
		if x := recover(); x != nil {
			pan = x
		}
	}()
	p, err = icc.NewProfileReader(r).ReadProfile()
	return
}

func description(p *icc.Profile) (d string, err error, pan any) {
	defer func() {
		if x := recover(); x != nil {
			pan = x
		}
	}()
	d, err = p.Description()
	return
}

var _ = imggen.PNGSig
