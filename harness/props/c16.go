//go:build all || c16

package props

import (
	"bufio"
	"bytes"
	"encoding/binary"
	"encoding/hex"
	"encoding/json"
	"fmt"
	"io"
	"strings"
	"time"

	"github.com/mandykoh/prism/meta"
	"github.com/mandykoh/prism/meta/icc"

	"verifharness/internal/core"
	"verifharness/internal/imggen"
	"verifharness/internal/src"
)

// C16 — ICC header fields decoded as ICC.1 lays them out.

type c16Case struct {
	Header string `json:"header_hex"`
	Via    string `json:"via"` // "ReadProfile" | "png" | "version"
	Major  int    `json:"major,omitempty"`
	Minor  int    `json:"minor,omitempty"`
}

// c16Expected is the oracle: ICC.1:2010 section 7.2, transcribed as a table of
// (offset, width) -> field.
type c16Expected struct {
	Size, CMM           uint32
	Major, MinorRev     byte
	Class, Space, PCS   uint32
	Created             time.Time
	Platform            uint32
	Embedded, Dependent bool
	Manufacturer, Model uint32
	Attributes          uint64
	Intent              uint32
	Illuminant          [3]uint32
	Creator             uint32
	ID                  [16]byte
	SignatureOK         bool
}

func c16Oracle(h []byte) c16Expected {
	u32 := func(o int) uint32 { return binary.BigEndian.Uint32(h[o:]) }
	u16 := func(o int) int { return int(binary.BigEndian.Uint16(h[o:])) }
	var e c16Expected
	e.Size, e.CMM = u32(0), u32(4)
	e.Major, e.MinorRev = h[8], h[9]
	e.Class, e.Space, e.PCS = u32(12), u32(16), u32(20)
	e.Created = time.Date(u16(24), time.Month(u16(26)), u16(28), u16(30), u16(32), u16(34), 0, time.UTC)
	e.SignatureOK = string(h[36:40]) == "acsp"
	e.Platform = u32(40)
	fl := u32(44)
	e.Embedded, e.Dependent = fl&1 != 0, fl&2 != 0
	e.Manufacturer, e.Model = u32(48), u32(52)
	e.Attributes = uint64(u32(56))<<32 | uint64(u32(60))
	e.Intent = u32(64)
	e.Illuminant = [3]uint32{u32(68), u32(72), u32(76)}
	e.Creator = u32(80)
	copy(e.ID[:], h[84:100])
	return e
}

func c16Compare(e c16Expected, p *icc.Profile) (field, detail string) {
	h := p.Header
	chk := func(name string, got, want any) bool {
		if fmt.Sprint(got) != fmt.Sprint(want) {
			field, detail = name, fmt.Sprintf("%s = %v, header bytes say %v", name, got, want)
			return false
		}
		return true
	}
	_ = chk("ProfileSize", h.ProfileSize, e.Size) &&
		chk("PreferredCMM", uint32(h.PreferredCMM), e.CMM) &&
		chk("Version.Major", h.Version.Major, e.Major) &&
		chk("Version.MinorAndRev", h.Version.MinorAndRev, e.MinorRev) &&
		chk("DeviceClass", uint32(h.DeviceClass), e.Class) &&
		chk("DataColorSpace", uint32(h.DataColorSpace), e.Space) &&
		chk("ProfileConnectionSpace", uint32(h.ProfileConnectionSpace), e.PCS) &&
		chk("CreatedAt", h.CreatedAt.UTC().Format(time.RFC3339Nano), e.Created.Format(time.RFC3339Nano)) &&
		chk("PrimaryPlatform", uint32(h.PrimaryPlatform), e.Platform) &&
		chk("Embedded", h.Embedded, e.Embedded) &&
		chk("DependsOnEmbeddedData", h.DependsOnEmbeddedData, e.Dependent) &&
		chk("DeviceManufacturer", uint32(h.DeviceManufacturer), e.Manufacturer) &&
		chk("DeviceModel", uint32(h.DeviceModel), e.Model) &&
		chk("DeviceAttributes", h.DeviceAttributes, e.Attributes) &&
		chk("RenderingIntent", uint32(h.RenderingIntent), e.Intent) &&
		chk("PCSIlluminant", h.PCSIlluminant, e.Illuminant) &&
		chk("ProfileCreator", uint32(h.ProfileCreator), e.Creator) &&
		chk("ProfileID", h.ProfileID, e.ID) &&
		chk("Version.String", h.Version.String(), fmt.Sprintf("%d.%d.%d", e.Major, e.MinorRev>>4, e.MinorRev&15))
	return
}

func c16Profile(h []byte) []byte {
	var hdr [128]byte
	copy(hdr[:], h)
	// the body carries tags that say things a header field also says (media white point, adaptation
	// matrix, a colorant): the header fields are what bytes 0 ... 127 hold, whatever the tags say
	xyz := func(x, y, z uint32) []byte {
		b := append([]byte("XYZ \x00\x00\x00\x00"), be32c(x)...)
		return append(append(b, be32c(y)...), be32c(z)...)
	}
	b, _ := imggen.ICCSpec{Header: hdr, KeepSig: true, KeepSize: true, Tags: []imggen.ICCTag{
		{Sig: "cprt", Data: []byte{1, 2, 3, 4}},
		{Sig: "wtpt", Data: xyz(0x0000F351, 0x00010000, 0x000116CC)},
		{Sig: "bkpt", Data: xyz(0x00000123, 0x00000456, 0x00000789)},
		{Sig: "rXYZ", Data: xyz(0x00006FA2, 0x000038F5, 0x00000390)},
	}}.Build()
	return b
}

// c16Check reads a header through the chosen entry point and compares.
func c16Check(h []byte, via string) (kind, msg string) {
	e := c16Oracle(h)
	prof := c16Profile(h)
	var p *icc.Profile
	var err error
	var pan any
	switch via {
	case "png":
		s := imggen.PNGSpec{W: 2, H: 2, Depth: 8, ColorType: 2, ICC: &imggen.PNGICC{Name: "x", Profile: prof, Level: 1}, IDAT: []byte{0}}
		file, _ := s.Build()
		res := loadWith("pngmeta", bytes.NewReader(file))
		if res.Panic != nil || res.Err != nil || res.MD == nil {
			return "embed", fmt.Sprintf("pngmeta.Load failed on the embedding PNG: %v %v", res.Err, res.Panic)
		}
		func() {
			defer func() {
				if x := recover(); x != nil {
					pan = x
				}
			}()
			p, err = res.MD.ICCProfile()
		}()
	case "bufio@4000": // the header starts at stream offsets 3990..4015 behind a default bufio.Reader
		for off := 3990; off <= 4015 && pan == nil && err == nil; off += 5 {
			stream := append(make([]byte, off), prof...)
			br := bufio.NewReader(bytes.NewReader(stream))
			_, _ = br.Discard(off)
			p, err, pan = readProfile(br)
			if err == nil && pan == nil && p != nil && e.SignatureOK {
				if f, d := c16Compare(e, p); f != "" {
					return "field/" + f, d + fmt.Sprintf(" (header %x at stream offset %d behind bufio)", h, off)
				}
			}
		}
	case "bufio-prefix": // a *bufio.Reader from which the caller has already taken a prefix: the whole header sits in its buffer
		for _, off := range []int{1, 7, 100, 1000} {
			br := bufio.NewReaderSize(bytes.NewReader(append(bytes.Repeat([]byte{0x5A}, off), prof...)), 4096)
			_, _ = br.Discard(off)
			if br.Buffered() < 128 {
				_, _ = br.Peek(128)
			}
			p, err, pan = readProfile(br)
			if pan != nil {
				break
			}
			if e.SignatureOK {
				if err != nil || p == nil {
					break
				}
				if f, d := c16Compare(e, p); f != "" {
					return "field/" + f, d + fmt.Sprintf(" (header %x behind a bufio.Reader from which %d bytes had been taken)", h, off)
				}
			} else if err == nil {
				break // accepted without the signature: reported below
			}
		}
	case "bufio+seeker": // a caller's type that embeds a *bufio.Reader and also offers Seek (on the file underneath the buffer)
		under := bytes.NewReader(prof)
		p, err, pan = readProfile(struct {
			*bufio.Reader
			io.Seeker
		}{bufio.NewReaderSize(under, 64), under})
	case "short-reads":
		p, err, pan = readProfile(shortByteReader{src.New(prof).Sizes(1, 2, 3, 5)})
	case "bytes.Reader@offset": // a reader that has already been consumed up to where the profile starts
		for _, off := range []int{1, 128, 4097} {
			br := bytes.NewReader(append(bytes.Repeat([]byte{0xA5}, off), prof...))
			_, _ = br.Seek(int64(off), io.SeekStart)
			p, err, pan = readProfile(br)
			if err != nil || pan != nil || p == nil || !e.SignatureOK {
				break
			}
			if f, d := c16Compare(e, p); f != "" {
				return "field/" + f, d + fmt.Sprintf(" (header %x read from a *bytes.Reader positioned at offset %d)", h, off)
			}
		}
	case "strings.Reader@offset":
		sr := strings.NewReader("prefix!" + string(prof))
		_, _ = sr.Seek(7, io.SeekStart)
		p, err, pan = readProfile(sr)
	case "bytes.Buffer":
		bb := bytes.NewBuffer(append([]byte("xyz"), prof...))
		bb.Next(3)
		p, err, pan = readProfile(bb)
	case "section":
		p, err, pan = readProfile(bufio.NewReaderSize(io.NewSectionReader(bytes.NewReader(append(make([]byte, 300), prof...)), 300, int64(len(prof))), 16))
	case "second-in-reader": // two profiles back to back in one reader: the second one's header is at offset len(first)
		other := append([]byte{}, h...)
		for i := range other {
			if i < 36 || i >= 40 {
				other[i] ^= 0xFF
			}
		}
		binary.BigEndian.PutUint32(other[0:], 0) // size field is rewritten by c16Profile? keep the declared size consistent below
		first := c16Profile(other)
		br := bytes.NewReader(append(append([]byte{}, first...), prof...))
		if _, e1, p1 := readProfile(br); e1 != nil || p1 != nil {
			return "", "first profile not readable: n/a"
		}
		if int(br.Size())-br.Len() != len(first) {
			return "", "reader position after the first profile is not its end: n/a"
		}
		p, err, pan = readProfile(br)
	case "second-in-custom-reader": // two profiles back to back in a caller-defined reader, a fresh ProfileReader for each
		other := append([]byte{}, h...)
		for i := range other {
			if i < 36 || i >= 40 {
				other[i] ^= 0xFF
			}
		}
		first := c16Profile(other)
		cr := shortByteReader{src.New(append(append([]byte{}, first...), prof...))}
		if _, e1, p1 := readProfile(cr); e1 != nil || p1 != nil {
			return "", "first profile not readable: n/a"
		}
		p, err, pan = readProfile(cr)
	case "second-after-odd-length": // the first profile's tag data ends at an offset that is no multiple of four
		other := append([]byte{}, h...)
		for i := range other {
			if i < 36 || i >= 40 {
				other[i] ^= 0xFF
			}
		}
		var ohdr [128]byte
		copy(ohdr[:], other)
		odd := 1 + int(h[0]^h[127])%3
		first, _ := imggen.ICCSpec{Header: ohdr, KeepSig: true, KeepSize: true, Tags: []imggen.ICCTag{{Sig: "cprt", Data: make([]byte, 4+odd)}}}.Build()
		if len(first)%4 == 0 {
			return "", "first profile came out aligned: n/a"
		}
		br := bytes.NewReader(append(append([]byte{}, first...), prof...))
		if _, e1, p1 := readProfile(br); e1 != nil || p1 != nil {
			return "", "first profile not readable: n/a"
		}
		// (the first profile's size field says len(first); bytes beyond it are not its own)
		p, err, pan = readProfile(br)
	case "same-reader-after-rejected": // one ProfileReader: a header without the file signature is turned down, the caller moves on to the next record
		bad := append([]byte{}, h...)
		copy(bad[36:40], "ACSP")
		br := bytes.NewReader(append(append([]byte{}, bad[:128]...), prof...))
		pr := icc.NewProfileReader(br)
		func() {
			defer func() {
				if x := recover(); x != nil {
					pan = x
				}
			}()
			if _, e1 := pr.ReadProfile(); e1 == nil {
				err = fmt.Errorf("header without the file signature accepted")
				return
			}
			_, _ = br.Seek(128, io.SeekStart)
			p, err = pr.ReadProfile()
		}()
	case "data-asked-thrice": // ICCProfile() is an accessor: the third call gives what the first gave
		md := &meta.Data{}
		md.SetICCProfileData(prof)
		for k := 0; k < 3 && pan == nil; k++ {
			func() {
				defer func() {
					if x := recover(); x != nil {
						pan = x
					}
				}()
				p, err = md.ICCProfile()
			}()
			if k < 2 && e.SignatureOK && (err != nil || p == nil) {
				break
			}
		}
	case "reader-reused": // one ProfileReader used for two profiles back to back; the FIRST result is inspected afterwards
		other := append([]byte{}, h...)
		for i := range other {
			if i < 36 || i >= 40 {
				other[i] ^= 0xFF
			}
		}
		second := c16Profile(other)
		pr := icc.NewProfileReader(bytes.NewReader(append(append([]byte{}, prof...), second...)))
		func() {
			defer func() {
				if x := recover(); x != nil {
					pan = x
				}
			}()
			p, err = pr.ReadProfile()
			if err == nil {
				_, _ = pr.ReadProfile() // whatever this gives, the profile returned first must stay what it was
			}
		}()
	case "data-reused": // one meta.Data object that held another profile before (and was asked for it)
		other := append([]byte{}, h...)
		for i := range other {
			if i < 36 || i >= 40 {
				other[i] ^= 0xFF
			}
		}
		md := &meta.Data{}
		md.SetICCProfileData(c16Profile(other))
		_, _ = md.ICCProfile()
		md.SetICCProfileData(prof)
		func() {
			defer func() {
				if x := recover(); x != nil {
					pan = x
				}
			}()
			p, err = md.ICCProfile()
		}()
	case "after-rejected": // history: a profile with the complementary header bits is rejected part-way first
		other := append([]byte{}, h...)
		for i := range other {
			if i < 36 || i >= 40 {
				other[i] ^= 0xFF
			}
		}
		full := c16Profile(other)
		for _, cut := range []int{48, 100, 127, 128, 130, 135} {
			if cut <= len(full) {
				_, _, _ = readProfile(bytes.NewReader(full[:cut]))
			}
		}
		p, err, pan = readProfile(bytes.NewReader(prof))
	default:
		p, err, pan = readProfile(bytes.NewReader(prof))
	}
	if pan != nil {
		return "panic", fmt.Sprintf("reading header %x panicked: %v", h, pan)
	}
	if !e.SignatureOK {
		if err == nil {
			return "bad-signature-accepted", fmt.Sprintf("header with signature %q at offset 36 was accepted", h[36:40])
		}
		return "", "rejected as it must be"
	}
	if err != nil || p == nil {
		return "rejected", fmt.Sprintf("header carrying 'acsp' was rejected: %v (header %x)", err, h)
	}
	if f, d := c16Compare(e, p); f != "" {
		return "field/" + f, d + fmt.Sprintf(" (header %x)", h)
	}
	return "", "ok"
}

func runC16(r *core.Run) {
	r.Rule = "128-byte headers: all-zeros, all-ones, walking one over all 1024 bit positions on three backgrounds, every value of every byte on one background, every valid date-time component, selected years, seeded random headers (1e5 quick / 6e7 thorough), read through ReadProfile with a minimal one-tag table and (a subset) through meta.Data.ICCProfile() after embedding in a PNG; all 65536 version byte pairs through Version.String(); non-trivial = distinct headers differing from the zero header in a field other than size and ID"
	r.Assumptions = []string{"ICC.1:2010 section 7.2 header layout as transcribed in props/c16.go; flags bit 0 / bit 1 counted from the least significant bit of the u32 at offset 44", "time.Date normalisation of out-of-range date components is the standard library's and is applied on both sides"}
	rng := core.NewRNG(r.Seed, "C16")
	base := func(kind int) []byte {
		h := make([]byte, 128)
		switch kind {
		case 1:
			for i := range h {
				h[i] = 0xff
			}
		case 2:
			rng.Fill(h)
		}
		copy(h[36:], "acsp")
		return h
	}
	var headers [][]byte
	for k := 0; k < 3; k++ {
		b := base(k)
		headers = append(headers, b)
		for bit := 0; bit < 1024; bit++ {
			h := append([]byte{}, b...)
			h[bit/8] ^= 0x80 >> uint(bit%8)
			headers = append(headers, h)
		}
	}
	bg := base(2)
	for off := 0; off < 128; off++ {
		for v := 0; v < 256; v++ {
			h := append([]byte{}, bg...)
			if v%2 == 0 {
				h = append([]byte{}, base(0)...)
			}
			h[off] = byte(v)
			headers = append(headers, h)
		}
	}
	// date-time components
	put16 := func(h []byte, off, v int) { binary.BigEndian.PutUint16(h[off:], uint16(v)) }
	for _, year := range []int{0, 1, 64, 69, 70, 99, 100, 1970, 1999, 2000, 2024, 2038, 9999, 10000, 65535} {
		for month := 1; month <= 12; month++ {
			h := base(0)
			put16(h, 24, year)
			put16(h, 26, month)
			put16(h, 28, 1+(year+month)%28)
			put16(h, 30, (year+month)%24)
			put16(h, 32, (year*7+month)%60)
			put16(h, 34, (year*13+month)%60)
			headers = append(headers, h)
		}
	}
	for d := 1; d <= 31; d++ {
		for _, m := range []int{1, 2, 4, 12} {
			h := base(0)
			put16(h, 24, 2023)
			put16(h, 26, m)
			put16(h, 28, d)
			headers = append(headers, h)
		}
	}
	for v := 0; v < 60; v++ {
		h := base(0)
		put16(h, 24, 2001)
		put16(h, 26, 1+v%12)
		put16(h, 28, 1+v%28)
		put16(h, 30, v%24)
		put16(h, 32, v)
		put16(h, 34, 59-v)
		headers = append(headers, h)
	}
	// flags: every combination of the low 4 and high 4 bits
	for lo := 0; lo < 16; lo++ {
		for hi := 0; hi < 16; hi++ {
			h := base(0)
			binary.BigEndian.PutUint32(h[44:], uint32(lo)|uint32(hi)<<28)
			headers = append(headers, h)
		}
	}
	// signatures that are almost 'acsp'
	for _, sig := range []string{"ACSP", "Acsp", "acsP", "aCSP", "acsp ", " acs", "pcsa", "acs\x00", "\x00csp", "scsp", "acsq"} {
		h := base(2)
		copy(h[36:40], (sig + "    ")[:4])
		headers = append(headers, h)
	}
	// every calendar day of some leap and non-leap years
	for _, year := range []int{1600, 1900, 2000, 2023, 2024, 2100, 2400} {
		for month := 1; month <= 12; month++ {
			for day := 1; day <= 31; day++ {
				h := base(0)
				put16(h, 24, year)
				put16(h, 26, month)
				put16(h, 28, day)
				put16(h, 30, 12)
				headers = append(headers, h)
			}
		}
	}
	// values a hair away from the constants real profiles carry (D50 illuminant, common versions,
	// class / space / platform signatures): a reader that "normalises" near-standard values shows here
	{
		std := imggen.MinimalHeader(true)
		words := []int{0, 4, 8, 12, 16, 20, 40, 44, 48, 52, 56, 60, 64, 68, 72, 76, 80}
		for _, off := range words {
			for d := -4; d <= 4; d++ {
				if d == 0 {
					continue
				}
				h := append([]byte{}, std[:]...)
				binary.BigEndian.PutUint32(h[off:], binary.BigEndian.Uint32(h[off:])+uint32(d))
				headers = append(headers, h)
			}
		}
		// every signature the ICC specification and its registries define (colour spaces incl. the
		// legacy multi-channel ones, classes, platforms, common CMMs and manufacturers), and case
		// variants, in every four-byte field of the header: a reader that "canonicalises" one of them shows
		sigs := []string{"XYZ ", "Lab ", "Luv ", "YCbr", "Yxy ", "RGB ", "GRAY", "HSV ", "HLS ", "CMYK", "CMY ",
			"2CLR", "3CLR", "4CLR", "5CLR", "6CLR", "7CLR", "8CLR", "9CLR", "ACLR", "BCLR", "CCLR", "DCLR", "ECLR", "FCLR",
			"MCH1", "MCH2", "MCH3", "MCH4", "MCH5", "MCH6", "MCH7", "MCH8", "MCH9", "MCHA", "MCHB", "MCHC", "MCHD", "MCHE", "MCHF",
			"nc01", "ncFF", "scnr", "mntr", "prtr", "link", "spac", "abst", "nmcl", "cenc", "mid ", "mlnk", "mvis",
			"APPL", "MSFT", "SGI ", "SUNW", "TGNT", "ADBE", "lcms", "appl", "argl", "KCMS", "UCCM", "HDM ", "Lino", "none", "acsp", "desc", "mluc",
			"rgb ", "cmyk", "gray", "lab ", "xyz ", "Mntr", "MNTR", "aPPL", "Msft"}
		for si, sg := range sigs {
			for _, off := range []int{4, 12, 16, 20, 40, 48, 52, 80} {
				h := append([]byte{}, std[:]...)
				if (si+off)%3 == 0 {
					h = base(2)
				}
				copy(h[off:off+4], sg)
				headers = append(headers, h)
			}
		}
		// words that mean something in the containers a profile travels in (the JPEG APP2 identifier,
		// chunk and box names), alone and in pairs, in the first fields of the header
		cont := []string{"ICC_", "PROF", "ILE\x00", "\x01\x01\x00\x00", "iCCP", "ICCP", "RIFF", "WEBP", "\x89PNG", "Exif", "JFIF", "\xff\xd8\xff\xe2", "acsp"}
		for i, a := range cont {
			for _, b := range []string{cont[(i+1)%len(cont)], "lcms", "\x00\x00\x00\x00"} {
				for _, off := range []int{0, 4, 8} {
					h := append([]byte{}, std[:]...)
					copy(h[off:off+4], a)
					if off+8 <= 36 {
						copy(h[off+4:off+8], b)
					}
					headers = append(headers, h)
				}
			}
		}
		// the PCS illuminant: D50 as ICC writes it, each word off by up to 4 in every combination of signs
		d50 := [3]uint32{0x0000F6D6, 0x00010000, 0x0000D32D}
		for _, dx := range []int{-4, -3, -1, 0, 1, 2, 3} {
			for _, dy := range []int{-2, -1, 0, 1, 3} {
				for _, dz := range []int{-3, -1, 0, 1, 2, 4} {
					for k := 0; k < 2; k++ {
						h := base(k * 2)
						if k == 0 {
							h = append([]byte{}, std[:]...)
						}
						binary.BigEndian.PutUint32(h[68:], d50[0]+uint32(dx))
						binary.BigEndian.PutUint32(h[72:], d50[1]+uint32(dy))
						binary.BigEndian.PutUint32(h[76:], d50[2]+uint32(dz))
						headers = append(headers, h)
					}
				}
			}
		}
	}
	// size fields around 128 and around the length of the data that is handed over; file signatures
	// that are not 'acsp' in otherwise plausible headers (class, colour space and PCS in place)
	var allVias [][]byte
	{
		std := imggen.MinimalHeader(true)
		l := len(c16Profile(std[:]))
		for _, sz := range []int{0, 1, 127, 128, 129, 130, 131, 132, 133, 144, l - 5, l - 4, l - 1, l, l + 1, l + 4, 1 << 20} {
			for k := 0; k < 2; k++ {
				h := append([]byte{}, std[:]...)
				if k == 1 {
					h = base(2)
				}
				binary.BigEndian.PutUint32(h[0:], uint32(sz))
				allVias = append(allVias, h)
			}
		}
		for _, sig := range []string{"\x00\x00\x00\x00", "    ", "ACSP", "acs\x00", "\x00csp", "acsq", "psca"} {
			for _, class := range []string{"mntr", "scnr", "prtr", "spac", "abst", "nmcl", "link"} {
				h := append([]byte{}, std[:]...)
				copy(h[36:40], sig)
				copy(h[12:16], class)
				copy(h[20:24], []string{"XYZ ", "Lab "}[len(class+sig)%2])
				allVias = append(allVias, h)
			}
		}
		// the illuminant bytes all zero (and the other fields ordinary)
		h := append([]byte{}, std[:]...)
		for i := 68; i < 80; i++ {
			h[i] = 0
		}
		allVias = append(allVias, h)
	}
	for _, h := range allVias {
		for _, via := range []string{"ReadProfile", "png", "bufio@4000", "bufio-prefix", "short-reads", "bytes.Buffer", "second-in-reader", "data-reused", "data-asked-thrice", "same-reader-after-rejected"} {
			if kind, msg := c16Check(h, via); kind != "" {
				r.Violate("header", kind+"/"+via, msg, c16Case{Header: hex.EncodeToString(h), Via: via})
			}
			r.AddEvals(1)
		}
	}
	nrand := 100000
	if r.Thorough() {
		nrand = 60000000
	}
	zero := c16Oracle(base(0))
	nontrivial := func(h []byte) bool {
		e := c16Oracle(h)
		e.Size, e.ID = zero.Size, zero.ID
		return fmt.Sprint(e) != fmt.Sprint(zero)
	}
	core.ParallelFor(len(headers), 16, func(i int) {
		h := headers[i]
		via := "ReadProfile"
		if kind, msg := c16Check(h, via); kind != "" {
			r.Violate("header", kind, msg, c16Case{Header: hex.EncodeToString(h), Via: via})
		}
		r.AddEvals(1)
		if i%17 == 0 {
			for _, via := range []string{"png", "bufio@4000", "short-reads", "bytes.Reader@offset", "strings.Reader@offset", "bytes.Buffer", "section", "second-in-reader", "after-rejected", "data-reused", "reader-reused", "second-in-custom-reader", "data-asked-thrice", "second-after-odd-length", "same-reader-after-rejected", "bufio-prefix", "bufio+seeker"} {
				if kind, msg := c16Check(h, via); kind != "" {
					r.Violate("header", kind+"/"+via, msg, c16Case{Header: hex.EncodeToString(h), Via: via})
				}
				r.AddEvals(1)
			}
		}
		if nontrivial(h) {
			r.NTHash(fnv64(h))
		}
	})
	shards := 64
	core.ParallelFor(shards, 16, func(sh int) {
		rg := core.NewRNG(r.Seed, "C16", "random", fmt.Sprint(sh))
		for i := 0; i < nrand/shards; i++ {
			h := rg.Bytes(128)
			if i%50 != 0 {
				copy(h[36:], "acsp")
			}
			if i%3 == 0 { // mostly plausible dates
				put16(h, 26, 1+rg.Intn(12))
				put16(h, 28, 1+rg.Intn(28))
				put16(h, 30, rg.Intn(24))
				put16(h, 32, rg.Intn(60))
				put16(h, 34, rg.Intn(60))
			}
			if kind, msg := c16Check(h, "ReadProfile"); kind != "" {
				r.Violate("header", kind, msg, c16Case{Header: hex.EncodeToString(h), Via: "ReadProfile"})
			}
			if i < 2000 {
				r.NTHash(fnv64(h))
			}
		}
		r.AddEvals(int64(nrand / shards))
		if nrand/shards > 2000 {
			r.NTCount(int64(nrand/shards - 2000)) // random 128-byte headers: distinct with overwhelming probability
		}
	})
	// Version.String over all byte pairs
	for major := 0; major < 256; major++ {
		for minor := 0; minor < 256; minor++ {
			got := icc.Version{Major: byte(major), MinorAndRev: byte(minor)}.String()
			want := fmt.Sprintf("%d.%d.%d", major, minor>>4, minor&15)
			if got != want {
				r.Violate("version", "version-string", fmt.Sprintf("Version{%#02x,%#02x}.String() = %q, want %q", major, minor, got, want), c16Case{Via: "version", Major: major, Minor: minor})
			}
		}
	}
	r.AddEvals(65536)
	if r.Variant == "" {
		// the same workload in processes with another time zone and locale (the creation time is a UTC
		// field of the header; nothing about the host may enter it)
		vs := []string{"env:TZ=Asia/Tokyo@4", "env:TZ=America/Los_Angeles+env:LANG=de_DE.UTF-8@2", "env:TZ=Pacific/Chatham+env:LC_ALL=ja_JP.UTF-8@8"}
		for _, v := range vs {
			r.RunVariantChild(v, 10*time.Minute, false)
		}
		r.Obs("fresh_process_environments", vs)
	}
	r.Obs("structured_headers", len(headers))
	r.Obs("random_headers", nrand)
	r.Sample(map[string]any{"header_hex": hex.EncodeToString(headers[1500]), "expected": fmt.Sprintf("%+v", c16Oracle(headers[1500]))})
}

func replayC16(stage string, raw json.RawMessage) (bool, string, error) {
	var cs c16Case
	if err := json.Unmarshal(raw, &cs); err != nil {
		return false, "", err
	}
	if cs.Via == "version" {
		got := icc.Version{Major: byte(cs.Major), MinorAndRev: byte(cs.Minor)}.String()
		want := fmt.Sprintf("%d.%d.%d", cs.Major, cs.Minor>>4, cs.Minor&15)
		return got != want, got + " vs " + want, nil
	}
	h, err := hex.DecodeString(cs.Header)
	if err != nil || len(h) != 128 {
		return false, "", fmt.Errorf("bad header")
	}
	kind, msg := c16Check(h, cs.Via)
	return kind != "", msg, nil
}

func init() {
	core.Register(&core.Property{ID: "C16", Level: "exploration", Run: runC16, Replay: replayC16, Child: variantChild("C16", "exploration", runC16)})
}
