//go:build all || c20

package props

import (
	"encoding/json"
	"fmt"
	"math"
	"time"

	"github.com/mandykoh/prism/ciexyy"
	"github.com/mandykoh/prism/ciexyz"
	"github.com/mandykoh/prism/matrix"

	"verifharness/internal/core"
	"verifharness/internal/refcolor"
)

// C20 — generated primaries matrices and the 3x3 algebra beneath them.

type c20Case struct {
	Kind string          `json:"kind"`
	XY   [4][2]float32   `json:"primaries_and_white_xy,omitempty"`
	YY   *[4]float32     `json:"primaries_and_white_luminance,omitempty"`
	M    *matrix.Matrix3 `json:"matrix_columns,omitempty"`
	O    *matrix.Matrix3 `json:"other_columns,omitempty"`
	V    *matrix.Vector3 `json:"vector,omitempty"`
}

type c20Space struct {
	Name string
	XY   [4][2]float32
}

var c20Published = []c20Space{
	{"sRGB", [4][2]float32{{0.64, 0.33}, {0.30, 0.60}, {0.15, 0.06}, {0.31271, 0.32902}}},
	{"Adobe RGB (1998)", [4][2]float32{{0.64, 0.33}, {0.21, 0.71}, {0.15, 0.06}, {0.31271, 0.32902}}},
	{"ProPhoto/ROMM", [4][2]float32{{0.734699, 0.265301}, {0.159597, 0.840403}, {0.036598, 0.000105}, {0.34567, 0.35850}}},
	{"Display P3", [4][2]float32{{0.68, 0.32}, {0.265, 0.69}, {0.15, 0.06}, {0.31271, 0.32902}}},
	{"DCI-P3", [4][2]float32{{0.68, 0.32}, {0.265, 0.69}, {0.15, 0.06}, {0.314, 0.351}}},
	{"Rec.2020", [4][2]float32{{0.708, 0.292}, {0.170, 0.797}, {0.131, 0.046}, {0.31271, 0.32902}}},
	{"NTSC 1953", [4][2]float32{{0.67, 0.33}, {0.21, 0.71}, {0.14, 0.08}, {0.31006, 0.31616}}},
	{"PAL/SECAM", [4][2]float32{{0.64, 0.33}, {0.29, 0.60}, {0.15, 0.06}, {0.31271, 0.32902}}},
	{"SMPTE-C", [4][2]float32{{0.63, 0.34}, {0.31, 0.595}, {0.155, 0.07}, {0.31271, 0.32902}}},
	{"Apple RGB", [4][2]float32{{0.625, 0.34}, {0.28, 0.595}, {0.155, 0.07}, {0.31271, 0.32902}}},
	{"ColorMatch", [4][2]float32{{0.63, 0.34}, {0.295, 0.605}, {0.15, 0.075}, {0.34567, 0.35850}}},
	{"ECI RGB v2", [4][2]float32{{0.67, 0.33}, {0.21, 0.71}, {0.14, 0.08}, {0.34567, 0.35850}}},
	{"Wide Gamut", [4][2]float32{{0.735, 0.265}, {0.115, 0.826}, {0.157, 0.018}, {0.34567, 0.35850}}},
	{"Best RGB", [4][2]float32{{0.7347, 0.2653}, {0.215, 0.775}, {0.13, 0.035}, {0.34567, 0.35850}}},
	{"Beta RGB", [4][2]float32{{0.6888, 0.3112}, {0.1986, 0.7551}, {0.1265, 0.0352}, {0.34567, 0.35850}}},
	{"Bruce RGB", [4][2]float32{{0.64, 0.33}, {0.28, 0.65}, {0.15, 0.06}, {0.31271, 0.32902}}},
	{"CIE RGB", [4][2]float32{{0.735, 0.265}, {0.274, 0.717}, {0.167, 0.009}, {1.0 / 3, 1.0 / 3}}},
	{"Don RGB 4", [4][2]float32{{0.696, 0.30}, {0.215, 0.765}, {0.13, 0.035}, {0.34567, 0.35850}}},
	{"Ekta Space PS5", [4][2]float32{{0.695, 0.305}, {0.26, 0.70}, {0.11, 0.005}, {0.34567, 0.35850}}},
	{"ACES AP1", [4][2]float32{{0.713, 0.293}, {0.165, 0.830}, {0.128, 0.044}, {0.32168, 0.33767}}},
}

func c20xyy(p [2]float32) ciexyy.Color { return ciexyy.Color{X: p[0], Y: p[1], YY: 1} }
func c20ref(p [2]float32) refcolor.XY  { return refcolor.XY{X: float64(p[0]), Y: float64(p[1])} }

func c20Triangle(xy [4][2]float32) (kind, msg string, worst float64) {
	return c20TriangleYY(xy, [4]float32{1, 1, 1, 1})
}

// c20TriangleYY: the primaries may be handed over with any luminance (only their chromaticity
// matters); the white's luminance scales the whole map.
func c20TriangleYY(xy [4][2]float32, yy [4]float32) (kind, msg string, worst float64) {
	type res struct{ to, from matrix.Matrix3 }
	col := func(i int) ciexyy.Color { return ciexyy.Color{X: xy[i][0], Y: xy[i][1], YY: yy[i]} }
	rs, pan := c12Call(func() res {
		return res{
			ciexyz.TransformToXYZForXYYPrimaries(col(0), col(1), col(2), col(3)),
			ciexyz.TransformFromXYZForXYYPrimaries(col(0), col(1), col(2), col(3)),
		}
	})
	if pan != nil {
		return "panic", fmt.Sprintf("transform generation panicked for non-degenerate %v: %v", xy, pan), 0
	}
	to, from := libMat(rs.to), libMat(rs.from)
	// (1,1,1) -> white
	w := refcolor.XYYToXYZ(float64(xy[3][0]), float64(xy[3][1]), float64(yy[3]))
	got := to.MulV(refcolor.Vec{1, 1, 1})
	for i := 0; i < 3; i++ {
		d := math.Abs(got[i]-w[i]) / math.Max(1, math.Abs(w[i]))
		if d > worst {
			worst = d
		}
		if !(d <= 1e-6) {
			return "white", fmt.Sprintf("generated RGB->XYZ for %v (luminances %v) maps (1,1,1) to %v, white is %v", xy, yy, got, w), worst
		}
	}
	// unit primaries keep their chromaticity
	for j := 0; j < 3; j++ {
		X, Y, Z := to[0][j], to[1][j], to[2][j]
		s := X + Y + Z
		dx, dy := math.Abs(X/s-float64(xy[j][0])), math.Abs(Y/s-float64(xy[j][1]))
		if math.Max(dx, dy) > worst {
			worst = math.Max(dx, dy)
		}
		if !(dx <= 1e-6 && dy <= 1e-6) {
			return "primary", fmt.Sprintf("generated RGB->XYZ for %v: unit primary %d has chromaticity (%.8f, %.8f)", xy, j, X/s, Y/s), worst
		}
	}
	cond := to.Cond()
	if d := from.Mul(to).MaxAbsDiff(refcolor.Identity()); !(d <= 1e-9*cond) {
		return "inverse-product", fmt.Sprintf("XYZ->RGB times RGB->XYZ for %v differs from I by %.3g (cond %.3g)", xy, d, cond), worst
	}
	if d := to.Mul(from).MaxAbsDiff(refcolor.Identity()); !(d <= 1e-9*cond) {
		return "inverse-product", fmt.Sprintf("RGB->XYZ times XYZ->RGB for %v differs from I by %.3g (cond %.3g)", xy, d, cond), worst
	}
	// against the independent derivation
	ref, ok := refcolor.RGBToXYZ(c20ref(xy[0]), c20ref(xy[1]), c20ref(xy[2]), c20ref(xy[3]))
	if ok && yy[3] != 1 {
		for i := 0; i < 3; i++ {
			for j := 0; j < 3; j++ {
				ref[i][j] *= float64(yy[3])
			}
		}
	}
	if ok {
		pr, pg, pb := c20ref(xy[0]).XYZ(), c20ref(xy[1]).XYZ(), c20ref(xy[2]).XYZ()
		pc := refcolor.Mat{{pr[0], pg[0], pb[0]}, {pr[1], pg[1], pb[1]}, {pr[2], pg[2], pb[2]}}.Cond()
		if d := to.MaxAbsDiff(ref); !(d <= 2e-6*pc*math.Max(1, ref.NormInf())) {
			return "matrix", fmt.Sprintf("generated RGB->XYZ for %v differs from the float64 derivation by %.3g\n got %v\n ref %v", xy, d, to, ref), worst
		}
	}
	return "", "ok", worst
}

func matNormProd(a, b refcolor.Mat) float64 {
	return math.Max(1, a.NormInf()) * math.Max(1, b.NormInf())
}

// c20Algebra compares Inverse/MulM/MulV/Transpose/Dot/MulS with naive float64.
func c20Algebra(m, o matrix.Matrix3, v matrix.Vector3) (kind, msg string) {
	rm, ro := libMat(m), libMat(o)
	rv := refcolor.Vec{v[0], v[1], v[2]}
	// Transpose
	if d := libMat(m.Transpose()).MaxAbsDiff(rm.T()); d != 0 {
		return "transpose", fmt.Sprintf("Transpose of %v differs from the transpose by %.3g", m, d)
	}
	// MulM
	if d := libMat(m.MulM(o)).MaxAbsDiff(rm.Mul(ro)); !(d <= 1e-12*matNormProd(rm, ro)) {
		return "mulm", fmt.Sprintf("%v.MulM(%v) differs from the matrix product by %.3g", m, o, d)
	}
	// MulV
	gv, wv := m.MulV(v), rm.MulV(rv)
	for i := 0; i < 3; i++ {
		if !(math.Abs(gv[i]-wv[i]) <= 1e-12*math.Max(1, rm.NormInf())*math.Max(1, math.Abs(v[0])+math.Abs(v[1])+math.Abs(v[2]))) {
			return "mulv", fmt.Sprintf("%v.MulV(%v) = %v, want %v", m, v, gv, wv)
		}
	}
	// Dot, MulS
	d0 := matrix.Dot(m[0], v)
	w0 := m[0][0]*v[0] + m[0][1]*v[1] + m[0][2]*v[2]
	if !(math.Abs(d0-w0) <= 1e-12*math.Max(1, math.Abs(w0))*16) {
		return "dot", fmt.Sprintf("Dot(%v,%v) = %v, want %v", m[0], v, d0, w0)
	}
	sv := m[1].MulS(v[2])
	for i := 0; i < 3; i++ {
		if sv[i] != m[1][i]*v[2] {
			return "muls", fmt.Sprintf("%v.MulS(%v) = %v", m[1], v[2], sv)
		}
	}
	// Inverse
	inv, pan := c12Call(func() matrix.Matrix3 { return m.Inverse() })
	ri, ok := rm.Inv()
	if !ok {
		return "", "reference singular"
	}
	if pan != nil {
		return "inverse-panic", fmt.Sprintf("Inverse of invertible %v (det %.3g) panicked: %v", m, rm.Det(), pan)
	}
	cond := rm.NormInf() * ri.NormInf()
	if d := libMat(inv).MaxAbsDiff(ri); !(d <= 1e-12*cond*math.Max(1, ri.NormInf())) {
		return "inverse", fmt.Sprintf("Inverse of %v differs from Gauss-Jordan inverse by %.3g (cond %.3g)", m, d, cond)
	}
	return "", "ok"
}

func c20SingularPanics(m matrix.Matrix3) (kind, msg string) {
	for attempt := 1; attempt <= 2; attempt++ { // twice in a row: the outcome must not depend on call history
		_, pan := c12Call(func() matrix.Matrix3 { return m.Inverse() })
		if pan == nil {
			return "singular-no-panic", fmt.Sprintf("Inverse of exactly singular %v returned instead of panicking (call %d in a row)", m, attempt)
		}
	}
	return "", "ok"
}

func c20RandTriangle(rg *core.RNG) (xy [4][2]float32, ok bool) {
	var p [3][2]float64
	for i := range p {
		// inside the chromaticity diagram's bounding triangle, y >= 1e-4
		for {
			x, y := rg.Uniform(0.0, 0.8), rg.Uniform(1e-4, 0.9)
			if rg.Intn(8) == 0 {
				y = rg.Uniform(1e-4, 0.01)
			}
			if x+y <= 1 {
				p[i] = [2]float64{x, y}
				break
			}
		}
	}
	area := 0.5 * math.Abs((p[1][0]-p[0][0])*(p[2][1]-p[0][1])-(p[2][0]-p[0][0])*(p[1][1]-p[0][1]))
	if area < 0.01 {
		return xy, false
	}
	// white strictly inside: barycentric weights >= 0.05
	a, b := rg.Uniform(0.05, 0.9), rg.Uniform(0.05, 0.9)
	if a+b > 0.95 {
		a, b = 0.95-b*0.5-0.05, b*0.5
	}
	c := 1 - a - b
	if a < 0.05 || b < 0.05 || c < 0.05 {
		return xy, false
	}
	wx, wy := a*p[0][0]+b*p[1][0]+c*p[2][0], a*p[0][1]+b*p[1][1]+c*p[2][1]
	for i := 0; i < 3; i++ {
		xy[i] = [2]float32{float32(p[i][0]), float32(p[i][1])}
	}
	xy[3] = [2]float32{float32(wx), float32(wy)}
	return xy, true
}

func c20RandMatrix(rg *core.RNG) (m matrix.Matrix3, ok bool) {
	for c := 0; c < 3; c++ {
		for rw := 0; rw < 3; rw++ {
			m[c][rw] = rg.Uniform(-4, 4)
		}
	}
	return m, math.Abs(libMat(m).Det()) >= 1e-3
}

func c20Singular(rg *core.RNG) matrix.Matrix3 {
	m, _ := c20RandMatrix(rg)
	a, b := rg.Intn(3), rg.Intn(3)
	for b == a {
		b = rg.Intn(3)
	}
	switch rg.Intn(8) {
	case 5: // diagonal with a zero on the diagonal
		m = matrix.Matrix3{{rg.Uniform(-4, 4), 0, 0}, {0, rg.Uniform(-4, 4), 0}, {0, 0, rg.Uniform(-4, 4)}}
		m[a][a] = 0
		if rg.Bool() {
			m[b][b] = 0
		}
	case 6: // identity / scaled identity with one column zeroed, or the zero matrix
		m = matrix.Matrix3{{1, 0, 0}, {0, 1, 0}, {0, 0, 1}}
		m[a] = matrix.Vector3{}
		if rg.Intn(4) == 0 {
			m = matrix.Matrix3{}
		}
	case 7: // zero row
		for c := 0; c < 3; c++ {
			m[c][a] = 0
		}
	case 0: // zero column
		m[a] = matrix.Vector3{}
	case 1: // identical columns
		m[b] = m[a]
	case 2: // exact power-of-two multiple
		s := math.Ldexp(1, rg.Range(-8, 8))
		if rg.Bool() {
			s = -s
		}
		m[b] = matrix.Vector3{m[a][0] * s, m[a][1] * s, m[a][2] * s}
	case 3: // zero matrix / two zero columns
		m[a], m[b] = matrix.Vector3{}, matrix.Vector3{}
	case 4: // identical columns with integer entries
		for i := 0; i < 3; i++ {
			m[a][i] = float64(rg.Range(-4, 4))
		}
		m[b] = m[a]
	}
	return m
}

func runC20(r *core.Run) {
	r.Rule = "20 published RGB spaces + seeded primary triangles (area >= 0.01, white strictly inside, y >= 1e-4) + seeded matrices with entries in [-4,4], |det| >= 1e-3 + exactly singular matrices (zero / repeated / power-of-two-multiple columns); non-trivial = distinct triangles other than the four built-in spaces, distinct matrices with no zero entry, singular matrices"
	r.Assumptions = []string{"refcolor Gauss-Jordan inverse and naive products as reference", "exact singularity relies on amd64 not fusing multiply-add (Go does not on amd64)"}
	ntri, nmat, nsing := 20000, 50000, 3000
	if r.Thorough() {
		ntri, nmat, nsing = 400_000_000, 800_000_000, 40_000_000
	}
	worstPub := 0.0
	for i, s := range c20Published {
		kind, msg, w := c20Triangle(s.XY)
		r.AddEvals(1)
		if i >= 4 {
			r.NT("pub/" + s.Name)
		}
		worstPub = math.Max(worstPub, w)
		if kind != "" {
			r.Violate("triangle", kind, s.Name+": "+msg, c20Case{Kind: kind, XY: s.XY})
		}
	}
	// the same spaces with the primaries listed in every order (clockwise and counter-clockwise)
	// and with primaries carrying their own luminance
	rgp := core.NewRNG(r.Seed, "C20", "pubvar")
	for _, sp := range c20Published {
		for _, perm := range [][3]int{{0, 2, 1}, {1, 0, 2}, {1, 2, 0}, {2, 0, 1}, {2, 1, 0}} {
			xy := [4][2]float32{sp.XY[perm[0]], sp.XY[perm[1]], sp.XY[perm[2]], sp.XY[3]}
			kind, msg, _ := c20Triangle(xy)
			r.AddEvals(1)
			r.NT(fmt.Sprintf("pubperm/%s/%v", sp.Name, perm))
			if kind != "" {
				r.Violate("triangle", kind+"/permuted", sp.Name+fmt.Sprintf(" with primaries in order %v: ", perm)+msg, c20Case{Kind: kind, XY: xy})
			}
		}
		// whites and primaries a hair away from the published values (a generator that snaps
		// near-standard chromaticities onto the standard ones shows only here)
		for _, d := range []float32{1e-6, 3e-6, 1e-5, 1.4e-5, 5e-5, 2e-4} {
			for k := 0; k < 4; k++ {
				for _, sgn := range []float32{1, -1} {
					xy := sp.XY
					xy[k][0] += sgn * d
					xy[k][1] -= sgn * d / 2
					kind, msg, _ := c20Triangle(xy)
					r.AddEvals(1)
					r.NT(fmt.Sprintf("pubnear/%s/%d/%g", sp.Name, k, sgn*d))
					if kind != "" {
						r.Violate("triangle", kind+"/near-published", sp.Name+fmt.Sprintf(" with chromaticity %d moved by %g: ", k, sgn*d)+msg, c20Case{Kind: kind, XY: xy})
					}
				}
			}
		}
		// whites strictly inside the triangle but close to a primary or to an edge (barycentric weight of
		// one primary 0.999 / 0.9995, of one primary 0.001)
		for k := 0; k < 3; k++ {
			for _, wts := range [][3]float64{{0.999, 0.0005, 0.0005}, {0.9995, 0.0003, 0.0002}, {0.99, 0.005, 0.005}, {0.001, 0.5, 0.499}, {0.0005, 0.9, 0.0995}} {
				xy := sp.XY
				var wx, wy float64
				for j := 0; j < 3; j++ {
					wx += wts[j] * float64(sp.XY[(k+j)%3][0])
					wy += wts[j] * float64(sp.XY[(k+j)%3][1])
				}
				xy[3] = [2]float32{float32(wx), float32(wy)}
				kind, msg, _ := c20Triangle(xy)
				r.AddEvals(1)
				r.NT(fmt.Sprintf("pubwhite-near-vertex/%s/%d/%v", sp.Name, k, wts))
				if kind != "" {
					r.Violate("triangle", kind+"/white-near-vertex-or-edge", sp.Name+fmt.Sprintf(" with the white at barycentric weights %v from primary %d on: ", wts, k)+msg, c20Case{Kind: kind, XY: xy})
				}
			}
		}
		// the standard whites as the library itself tabulates them (ciexyy.D50 / D65), exact and moved
		for _, w := range []ciexyy.Color{ciexyy.D50, ciexyy.D65} {
			for _, d := range []float32{0, 1e-6, -1e-5, 1.5e-5, -1e-4} {
				xy := sp.XY
				xy[3] = [2]float32{w.X + d, w.Y - d}
				kind, msg, _ := c20Triangle(xy)
				r.AddEvals(1)
				r.NT(fmt.Sprintf("pubwhite/%s/%v/%g", sp.Name, w, d))
				if kind != "" {
					r.Violate("triangle", kind+"/near-standard-white", sp.Name+fmt.Sprintf(" with white %v%+g: ", w, d)+msg, c20Case{Kind: kind, XY: xy})
				}
			}
		}
		// luminances far from 1, all four alike and the white alone (the generated matrix scales with
		// the white's luminance; nothing may be flushed, clamped or taken for singular on the way)
		// luminances that happen to add up (the primaries' to the white's), in several ways
		for _, yy4 := range [][4]float32{{0.25, 0.5, 0.25, 1}, {1, 1, 1, 3}, {0.2, 0.3, 0.5, 1}, {2, 3, 5, 10}, {0.5, 0.5, 0, 1}, {1, 1, 1, 1}, {0.3, 0.3, 0.3, 0.9}} {
			if yy4[2] == 0 {
				continue // a primary without luminance is degenerate
			}
			kind, msg, _ := c20TriangleYY(sp.XY, yy4)
			r.AddEvals(1)
			r.NT(fmt.Sprintf("pubyysum/%s/%v", sp.Name, yy4))
			if kind != "" {
				y := yy4
				r.Violate("triangle", kind+"/luminance-sum", sp.Name+": "+msg, c20Case{Kind: kind, XY: sp.XY, YY: &y})
			}
		}
		for _, ysc := range []float32{1e-9, 1e-6, 1e-4, 0.18, 0.5, 2, 10, 50, 80, 99.5, 100, 100.5, 255, 1000, 65535, 1e4, 1e9} {
			for _, yy4 := range [][4]float32{{ysc, ysc, ysc, ysc}, {1, 1, 1, ysc}, {ysc, ysc * 2, ysc / 2, 1}} {
				kind, msg, _ := c20TriangleYY(sp.XY, yy4)
				r.AddEvals(1)
				r.NT(fmt.Sprintf("pubyyscale/%s/%v", sp.Name, yy4))
				if kind != "" {
					y := yy4
					r.Violate("triangle", kind+"/luminance-scale", sp.Name+": "+msg, c20Case{Kind: kind, XY: sp.XY, YY: &y})
				}
			}
		}
		yy := [4]float32{float32(rgp.Uniform(0.05, 1)), float32(rgp.Uniform(0.05, 1)), float32(rgp.Uniform(0.05, 1)), 1}
		if rgp.Intn(3) == 0 {
			yy[3] = float32(rgp.Uniform(0.5, 1.5))
		}
		kind, msg, _ := c20TriangleYY(sp.XY, yy)
		r.AddEvals(1)
		r.NT("pubyy/" + sp.Name)
		if kind != "" {
			y := yy
			r.Violate("triangle", kind+"/luminance", sp.Name+": "+msg, c20Case{Kind: kind, XY: sp.XY, YY: &y})
		}
	}
	r.Obs("published_spaces", len(c20Published))
	r.Obs("max_white_or_chromaticity_error_published", worstPub)
	shards := 16
	worst := make([]float64, shards)
	core.ParallelFor(shards, 16, func(sh int) {
		rg := core.NewRNG(r.Seed, "C20", "tri", fmt.Sprint(sh))
		var n, rejected int64
		for n < int64(ntri/shards) {
			xy, ok := c20RandTriangle(rg)
			if !ok {
				rejected++
				continue
			}
			n++
			yy := [4]float32{1, 1, 1, 1}
			if n%3 == 0 {
				yy = [4]float32{float32(rg.Uniform(0.02, 2)), float32(rg.Uniform(0.02, 2)), float32(rg.Uniform(0.02, 2)), 1}
			}
			kind, msg, w := c20TriangleYY(xy, yy)
			worst[sh] = math.Max(worst[sh], w)
			if kind != "" {
				y := yy
				r.Violate("triangle", kind, msg, c20Case{Kind: kind, XY: xy, YY: &y})
			}
		}
		r.AddEvals(n)
		r.NTCount(n)
		r.ObsAdd("triangles_rejected_by_generator", rejected)
	})
	w := 0.0
	for _, x := range worst {
		w = math.Max(w, x)
	}
	r.Obs("max_white_or_chromaticity_error_random", w)
	core.ParallelFor(shards, 16, func(sh int) {
		rg := core.NewRNG(r.Seed, "C20", "mat", fmt.Sprint(sh))
		var n int64
		for n < int64(nmat/shards) {
			m, ok := c20RandMatrix(rg)
			if !ok {
				continue
			}
			o, _ := c20RandMatrix(rg)
			v := matrix.Vector3{rg.Uniform(-4, 4), rg.Uniform(-4, 4), rg.Uniform(-4, 4)}
			n++
			if kind, msg := c20Algebra(m, o, v); kind != "" {
				mm, oo, vv := m, o, v
				r.Violate("algebra", kind, msg, c20Case{Kind: kind, M: &mm, O: &oo, V: &vv})
			}
		}
		r.AddEvals(n * 6)
		r.NTCount(n)
		var k int64
		for i := 0; i < nsing/shards; i++ {
			m := c20Singular(rg)
			if kind, msg := c20SingularPanics(m); kind != "" {
				mm := m
				r.Violate("singular", kind, msg, c20Case{Kind: kind, M: &mm})
			}
			k++
		}
		r.AddEvals(k)
		r.NTCount(k)
	})
	var zeroProd []matrix.Matrix3
	// a few structured matrices: identity, permutations, diagonal, the library's own sRGB matrix
	structured := []matrix.Matrix3{
		{{1, 0, 0}, {0, 1, 0}, {0, 0, 1}}, {{0, 1, 0}, {0, 0, 1}, {1, 0, 0}}, {{2, 0, 0}, {0, -3, 0}, {0, 0, 0.5}},
		{{1, 2, 3}, {0, 1, 4}, {5, 6, 0}}, {{0, 0, 1}, {0, 1, 0}, {1, 0, 0}},
	}
	// rotations about each axis, 1+2 block matrices, symmetric and skew-symmetric-plus-identity
	// matrices, triangular matrices (structure a generic random matrix never has)
	rgs := core.NewRNG(r.Seed, "C20", "structured")
	for k := 0; k < 60; k++ {
		c, s := math.Cos(float64(k)*0.37+0.2), math.Sin(float64(k)*0.37+0.2)
		a, b, d, e := rgs.Uniform(-3, 3), rgs.Uniform(-3, 3), rgs.Uniform(-3, 3), rgs.Uniform(0.5, 3)
		structured = append(structured,
			matrix.Matrix3{{1, 0, 0}, {0, c, s}, {0, -s, c}}, matrix.Matrix3{{c, 0, -s}, {0, 1, 0}, {s, 0, c}}, matrix.Matrix3{{c, s, 0}, {-s, c, 0}, {0, 0, 1}},
			matrix.Matrix3{{e, 0, 0}, {0, a, b}, {0, d, e + 1}}, matrix.Matrix3{{a, b, 0}, {d, e + 4, 0}, {0, 0, e}},
			matrix.Matrix3{{e + 3, a, b}, {a, e + 4, d}, {b, d, e + 5}}, matrix.Matrix3{{1, a, b}, {-a, 1, d}, {-b, -d, 1}},
			matrix.Matrix3{{e, 0, 0}, {a, e + 1, 0}, {b, d, e + 2}}, matrix.Matrix3{{e, a, b}, {0, e + 1, d}, {0, 0, e + 2}})
	}
	// matrices a hair away from the identity, from a permutation and from -identity (a shortcut that
	// treats "almost the identity" as the identity drops exactly these), and uniformly tiny / huge ones
	for _, eps := range []float64{1e-15, 1e-12, 1e-9, 6e-8, 1e-7, 9.9e-8, 1.1e-7, 1e-6, 1e-4} {
		a, b := rgs.Uniform(-1, 1), rgs.Uniform(-1, 1)
		structured = append(structured,
			matrix.Matrix3{{1 + eps, 0, 0}, {0, 1, 0}, {0, 0, 1 - eps}},
			matrix.Matrix3{{1, eps, 0}, {0, 1, 0}, {-eps, 0, 1}},
			matrix.Matrix3{{1 + eps*a, eps * b, eps}, {eps * a, 1 - eps, eps * b}, {eps, eps * a, 1 + eps*b}},
			matrix.Matrix3{{eps, 1, 0}, {0, eps, 1}, {1, 0, -eps}},
			matrix.Matrix3{{-1 - eps, 0, 0}, {0, -1, eps}, {0, 0, -1 + eps}})
	}
	// zero rows and columns in every position (singular, but products are defined)
	for z := 0; z < 3; z++ {
		var zc, zr matrix.Matrix3
		for c := 0; c < 3; c++ {
			for rw := 0; rw < 3; rw++ {
				v := float64(1 + c*3 + rw)
				if c != z {
					zc[c][rw] = v
				}
				if rw != z {
					zr[c][rw] = v
				}
			}
		}
		zeroProd = append(zeroProd, zc, zr)
	}
	for _, sc := range []float64{1e-8, 1e-3, 1e3, 1e8} {
		structured = append(structured, matrix.Matrix3{{sc, 2 * sc, 3 * sc}, {0, sc, 4 * sc}, {5 * sc, 6 * sc, 0}}, matrix.Matrix3{{sc, 0, 0}, {0, sc, 0}, {0, 0, sc}})
	}
	for _, m := range append([]matrix.Matrix3{}, structured...) {
		var neg matrix.Matrix3
		for c := 0; c < 3; c++ {
			for rw := 0; rw < 3; rw++ {
				neg[c][rw] = -math.Abs(m[c][rw]) // all entries <= 0, exact zeros kept
			}
		}
		structured = append(structured, neg)
	}
	// operands with repeated columns or rows in every pattern (p,q,q / p,p,q / p,q,p / p,p,p): singular,
	// but their products are defined
	for _, pat := range [][3]int{{0, 1, 1}, {0, 0, 1}, {0, 1, 0}, {0, 0, 0}} {
		vecs := [2][3]float64{{1, -2, 3.5}, {0.25, 4, -1}}
		var byCol, byRow matrix.Matrix3
		for c := 0; c < 3; c++ {
			for rw := 0; rw < 3; rw++ {
				byCol[c][rw] = vecs[pat[c]][rw]
				byRow[c][rw] = vecs[pat[rw]][c]
			}
		}
		zeroProd = append(zeroProd, byCol, byRow)
	}
	for _, z := range zeroProd {
		for _, o := range []matrix.Matrix3{{{1, 2, 3}, {4, 5, 6}, {7, 8, 10}}, z} {
			for _, pr := range [][2]matrix.Matrix3{{z, o}, {o, z}} {
				got, want := libMat(pr[0].MulM(pr[1])), libMat(pr[0]).Mul(libMat(pr[1]))
				r.AddEvals(1)
				if d := got.MaxAbsDiff(want); !(d <= 1e-12*matNormProd(libMat(pr[0]), libMat(pr[1]))) {
					a, b := pr[0], pr[1]
					r.Violate("algebra", "mulm/zero-row-or-column", fmt.Sprintf("%v.MulM(%v) differs from the matrix product by %.3g", a, b, d), c20Case{Kind: "mulm", M: &a, O: &b})
				}
			}
		}
		v := matrix.Vector3{1, -2, 3}
		gv, wv := z.MulV(v), libMat(z).MulV(refcolor.Vec{1, -2, 3})
		for i := 0; i < 3; i++ {
			if !(math.Abs(gv[i]-wv[i]) <= 1e-12*50) {
				zz := z
				r.Violate("algebra", "mulv/zero-row-or-column", fmt.Sprintf("%v.MulV(%v) = %v, want %v", z, v, gv, wv), c20Case{Kind: "mulv", M: &zz})
				break
			}
		}
	}
	// vectors with exact zeros in every position through MulV
	for _, v := range []matrix.Vector3{{0, 1, 0}, {0.25, 0, 0.75}, {0, 0, 1}, {1, 0, 0}, {0, 0, 0}, {0, 2, 3}, {1, -1, 0}, {0.5, 0.25, -0.75}, {-2, 1, 1}, {1e-9, -1e-9, 0}, {3, -1, -2}} {
		m := matrix.Matrix3{{1, 2, 3}, {4, 5, 6}, {7, 8, 10}}
		gv, wv := m.MulV(v), libMat(m).MulV(refcolor.Vec{v[0], v[1], v[2]})
		r.AddEvals(1)
		for i := 0; i < 3; i++ {
			if !(math.Abs(gv[i]-wv[i]) <= 1e-12*50) {
				r.Violate("algebra", "mulv/zero-component", fmt.Sprintf("%v.MulV(%v) = %v, want %v", m, v, gv, wv), c20Case{Kind: "mulv", M: &m})
				break
			}
		}
	}
	// products of structured matrices with one another (two triangular ones of the same kind, two
	// rotations, a permutation and a diagonal one ...): pairs a random matrix never forms
	{
		var np int64
		for i, a := range structured {
			for j := i % 3; j < len(structured); j += 3 {
				b := structured[j]
				got, want := libMat(a.MulM(b)), libMat(a).Mul(libMat(b))
				np++
				if d := got.MaxAbsDiff(want); !(d <= 1e-12*math.Max(1e-300, matNormProd(libMat(a), libMat(b)))) {
					aa, bb := a, b
					r.Violate("algebra", "mulm/structured-pair", fmt.Sprintf("%v.MulM(%v) differs from the matrix product by %.3g", a, b, d), c20Case{Kind: "mulm", M: &aa, O: &bb})
					break
				}
			}
		}
		r.AddEvals(np)
		r.NTCount(np)
	}
	for _, m := range structured {
		if kind, msg := c20Algebra(m, matrix.Matrix3{{1, 2, 3}, {4, 5, 6}, {7, 8, 10}}, matrix.Vector3{1, -2, 3}); kind != "" {
			mm := m
			r.Violate("algebra", kind+"/structured", msg, c20Case{Kind: kind, M: &mm})
		}
		// and as the right-hand operand
		if kind, msg := c20Algebra(matrix.Matrix3{{1, 2, 3}, {4, 5, 6}, {7, 8, 10}}, m, matrix.Vector3{1, -2, 3}); kind != "" {
			mm, oo := matrix.Matrix3{{1, 2, 3}, {4, 5, 6}, {7, 8, 10}}, m
			r.Violate("algebra", kind+"/structured", msg, c20Case{Kind: kind, M: &mm, O: &oo})
		}
		r.AddEvals(12)
		r.NT(fmt.Sprintf("structured/%v", m))
	}
	if r.Variant == "" {
		// the whole workload once more in the GOARCH=386 build of this monitor (see ./check)
		r.RunVariantChild("arch386@16", 30*time.Minute, false)
		r.Obs("arch386_child", "run")
	}
	tm := ciexyz.TransformToXYZForXYYPrimaries(c20xyy(c20Published[5].XY[0]), c20xyy(c20Published[5].XY[1]), c20xyy(c20Published[5].XY[2]), c20xyy(c20Published[5].XY[3]))
	r.Sample(map[string]any{"space": "Rec.2020", "rgb_to_xyz_rows": libMat(tm)})
	rg := core.NewRNG(r.Seed, "C20", "sample")
	r.Sample(map[string]any{"singular_matrix_columns": c20Singular(rg)})
}

func replayC20(stage string, raw json.RawMessage) (bool, string, error) {
	var cs c20Case
	if err := json.Unmarshal(raw, &cs); err != nil {
		return false, "", err
	}
	switch stage {
	case "triangle":
		yy := [4]float32{1, 1, 1, 1}
		if cs.YY != nil {
			yy = *cs.YY
		}
		k, m, _ := c20TriangleYY(cs.XY, yy)
		return k != "", m, nil
	case "singular":
		if cs.M == nil {
			return false, "", fmt.Errorf("no matrix")
		}
		k, m := c20SingularPanics(*cs.M)
		return k != "", m, nil
	case "algebra":
		if cs.M == nil {
			return false, "", fmt.Errorf("no matrix")
		}
		o := matrix.Matrix3{{1, 2, 3}, {4, 5, 6}, {7, 8, 10}}
		if cs.O != nil {
			o = *cs.O
		}
		v := matrix.Vector3{1, -2, 3}
		if cs.V != nil {
			v = *cs.V
		}
		k, m := c20Algebra(*cs.M, o, v)
		return k != "", m, nil
	}
	return false, "", fmt.Errorf("unknown stage")
}

func init() {
	core.Register(&core.Property{ID: "C20", Level: "exploration", Run: runC20, Replay: replayC20, Child: variantChild("C20", "exploration", runC20)})
}
