//go:build all || c03

package props

import (
	"encoding/json"
	"fmt"
	"image/color"
	"math"
	"runtime"
	"strings"
	"sync"
	"sync/atomic"
	"time"
	"verifharness/internal/atinit"

	"github.com/mandykoh/prism/adobergb"
	"github.com/mandykoh/prism/ciexyz"
	"github.com/mandykoh/prism/displayp3"
	"github.com/mandykoh/prism/linear"
	"github.com/mandykoh/prism/prophotorgb"
	"github.com/mandykoh/prism/srgb"

	"verifharness/internal/core"
	"verifharness/internal/refcolor"
)

// C03 — each space's XYZ transform is the one its primaries and white fix.

type c03Case struct {
	Space string     `json:"space"`
	Kind  string     `json:"kind"`
	In    [3]float32 `json:"in"`
	// Built: for the edited-value cases, what the value was constructed from before its channels were set to In
	Built *[3]float32 `json:"built,omitempty"`
}

// published variants accepted for each declared chromaticity (6-digit and
// 4-digit forms found in the standards themselves).
var c03Published = map[string]map[string][]refcolor.XY{
	"srgb":        {"R": {{0.64, 0.33}}, "G": {{0.30, 0.60}}, "B": {{0.15, 0.06}}, "W": {{0.31271, 0.32902}, {0.3127, 0.3290}}},
	"adobergb":    {"R": {{0.64, 0.33}}, "G": {{0.21, 0.71}}, "B": {{0.15, 0.06}}, "W": {{0.31271, 0.32902}, {0.3127, 0.3290}}},
	"displayp3":   {"R": {{0.68, 0.32}}, "G": {{0.265, 0.69}}, "B": {{0.15, 0.06}}, "W": {{0.31271, 0.32902}, {0.3127, 0.3290}}},
	"prophotorgb": {"R": {{0.734699, 0.265301}, {0.7347, 0.2653}}, "G": {{0.159597, 0.840403}, {0.1596, 0.8404}}, "B": {{0.036598, 0.000105}, {0.0366, 0.0001}}, "W": {{0.34567, 0.35850}, {0.3457, 0.3585}}},
}

func normInf3(a, b, c float32) float64 {
	return math.Max(1, math.Max(math.Abs(float64(a)), math.Max(math.Abs(float64(b)), math.Abs(float64(c)))))
}

type c03Probed struct {
	fwd, inv refcolor.Mat // probed through the public API (row-major: fwd[row][col])
}

func c03Probe(s *libSpace) c03Probed {
	var p c03Probed
	for j := 0; j < 3; j++ {
		var e [3]float32
		e[j] = 1
		x := s.ToXYZ(linear.RGB{R: e[0], G: e[1], B: e[2]})
		p.fwd[0][j], p.fwd[1][j], p.fwd[2][j] = float64(x.X), float64(x.Y), float64(x.Z)
		c := s.FromXYZ(ciexyz.Color{X: e[0], Y: e[1], Z: e[2]})
		p.inv[0][j], p.inv[1][j], p.inv[2][j] = float64(c.R), float64(c.G), float64(c.B)
	}
	return p
}

// c03Static checks declared chromaticities, probed coefficients, white and
// primaries. Returns violations as (kind,msg) pairs.
func c03Static(s *libSpace) (out [][2]string, maxCoefErr float64) {
	decl := map[string]refcolor.XY{}
	for k, f := range map[string]func() (x, y, yy float32){
		"R": func() (float32, float32, float32) { c := s.PR(); return c.X, c.Y, c.YY },
		"G": func() (float32, float32, float32) { c := s.PG(); return c.X, c.Y, c.YY },
		"B": func() (float32, float32, float32) { c := s.PB(); return c.X, c.Y, c.YY },
		"W": func() (float32, float32, float32) { c := s.White(); return c.X, c.Y, c.YY },
	} {
		x, y, yy := f()
		decl[k] = refcolor.XY{X: float64(x), Y: float64(y)}
		okv := false
		for _, pv := range c03Published[s.Name][k] {
			if math.Abs(float64(x)-pv.X) <= 1e-6 && math.Abs(float64(y)-pv.Y) <= 1e-6 {
				okv = true
			}
		}
		if !okv {
			out = append(out, [2]string{"declared-" + k, fmt.Sprintf("%s declares %s chromaticity (%v, %v); published %v", s.Name, k, x, y, c03Published[s.Name][k])})
		}
		if yy != 1 {
			out = append(out, [2]string{"declared-" + k, fmt.Sprintf("%s declares %s with Y=%v, want 1", s.Name, k, yy)})
		}
	}
	ref, ok := refcolor.RGBToXYZ(decl["R"], decl["G"], decl["B"], decl["W"])
	if !ok {
		out = append(out, [2]string{"declared-singular", s.Name + ": declared primaries are degenerate"})
		return
	}
	refInv, _ := ref.Inv()
	p := c03Probe(s)
	for i := 0; i < 3; i++ {
		for j := 0; j < 3; j++ {
			d := math.Abs(p.fwd[i][j] - ref[i][j])
			if d > maxCoefErr {
				maxCoefErr = d
			}
			if !(d <= 1e-6) {
				out = append(out, [2]string{"coef-fwd", fmt.Sprintf("%s RGB->XYZ coefficient [%d][%d] probes as %.9g, primaries and white fix %.9g (diff %.3g)", s.Name, i, j, p.fwd[i][j], ref[i][j], d)})
			}
			d = math.Abs(p.inv[i][j] - refInv[i][j])
			if d > maxCoefErr {
				maxCoefErr = d
			}
			if !(d <= 1e-6) {
				out = append(out, [2]string{"coef-inv", fmt.Sprintf("%s XYZ->RGB coefficient [%d][%d] probes as %.9g, inverse of the fixed map is %.9g (diff %.3g)", s.Name, i, j, p.inv[i][j], refInv[i][j], d)})
			}
		}
	}
	// (1,1,1) -> white with Y=1
	w := s.ToXYZ(linear.RGB{R: 1, G: 1, B: 1})
	wx := decl["W"].XYZ()
	if math.Abs(float64(w.X)-wx[0]) > 1e-6 || math.Abs(float64(w.Y)-1) > 1e-6 || math.Abs(float64(w.Z)-wx[2]) > 1e-6 {
		out = append(out, [2]string{"white", fmt.Sprintf("%s linear (1,1,1) maps to %v, white point is %v", s.Name, w, wx)})
	}
	// unit primaries have the primaries' chromaticities
	for j, k := range []string{"R", "G", "B"} {
		X, Y, Z := p.fwd[0][j], p.fwd[1][j], p.fwd[2][j]
		sum := X + Y + Z
		if math.Abs(X/sum-decl[k].X) > 1e-6 || math.Abs(Y/sum-decl[k].Y) > 1e-6 {
			out = append(out, [2]string{"primary-" + k, fmt.Sprintf("%s unit %s maps to chromaticity (%.7f, %.7f), declared (%.7f, %.7f)", s.Name, k, X/sum, Y/sum, decl[k].X, decl[k].Y)})
		}
	}
	// probed inverse times probed forward is the identity
	if d := p.inv.Mul(p.fwd).MaxAbsDiff(refcolor.Identity()); !(d <= 2e-6) {
		out = append(out, [2]string{"inverse-product", fmt.Sprintf("%s probed XYZ->RGB times probed RGB->XYZ differs from I by %.3g", s.Name, d)})
	}
	return
}

const c03Tol = 2e-6

// c03Point checks linearity and both round trips at one triple.
func c03Point(s *libSpace, p *c03Probed, in [3]float32) (kind, msg string, worst float64) {
	scale := normInf3(in[0], in[1], in[2])
	v := refcolor.Vec{float64(in[0]), float64(in[1]), float64(in[2])}
	// forward
	x := s.ToXYZ(linear.RGB{R: in[0], G: in[1], B: in[2]})
	lin := p.fwd.MulV(v)
	xs := math.Max(1, math.Max(scale, normInf3(x.X, x.Y, x.Z)))
	d := math.Max(math.Abs(float64(x.X)-lin[0]), math.Max(math.Abs(float64(x.Y)-lin[1]), math.Abs(float64(x.Z)-lin[2])))
	if d/xs > worst {
		worst = d / xs
	}
	if !(d <= c03Tol*xs) {
		return "linear-fwd", fmt.Sprintf("%s ToXYZ(%v) = %v, linear extension of the unit responses gives %v", s.Name, in, x, lin), worst
	}
	back := s.FromXYZ(x)
	d = math.Max(math.Abs(float64(back.R-in[0])), math.Max(math.Abs(float64(back.G-in[1])), math.Abs(float64(back.B-in[2]))))
	if d/xs > worst {
		worst = d / xs
	}
	if !(d <= c03Tol*xs) {
		return "roundtrip-rgb", fmt.Sprintf("%s RGB %v -> XYZ %v -> RGB %v (error %.3g)", s.Name, in, x, back, d), worst
	}
	// inverse direction, the triple read as XYZ
	c := s.FromXYZ(ciexyz.Color{X: in[0], Y: in[1], Z: in[2]})
	lin = p.inv.MulV(v)
	cs := math.Max(scale, normInf3(c.R, c.G, c.B))
	d = math.Max(math.Abs(float64(c.R)-lin[0]), math.Max(math.Abs(float64(c.G)-lin[1]), math.Abs(float64(c.B)-lin[2])))
	if d/cs > worst {
		worst = d / cs
	}
	if !(d <= c03Tol*cs) {
		return "linear-inv", fmt.Sprintf("%s ColorFromXYZ(%v) = %v, linear extension of the unit responses gives %v", s.Name, in, c, lin), worst
	}
	x2 := s.ToXYZ(c)
	d = math.Max(math.Abs(float64(x2.X-in[0])), math.Max(math.Abs(float64(x2.Y-in[1])), math.Abs(float64(x2.Z-in[2]))))
	if d/cs > worst {
		worst = d / cs
	}
	if !(d <= c03Tol*cs) {
		return "roundtrip-xyz", fmt.Sprintf("%s XYZ %v -> RGB %v -> XYZ %v (error %.3g)", s.Name, in, c, x2, d), worst
	}
	return "", "ok", worst
}

func clampF(v float32) float32 {
	if v < 0 {
		return 0
	}
	if v > 1 {
		return 1
	}
	return v
}

// c03EditedToXYZ builds a colour value with the named constructor from `built`, overwrites its
// exported channels with `now`, and converts it.
func c03EditedToXYZ(space, how string, built, now [3]float32) (ciexyz.Color, bool) {
	xyz := ciexyz.Color{X: built[0], Y: built[1], Z: built[2]}
	switch space {
	case "srgb":
		c := srgb.ColorFromLinear(built[0], built[1], built[2])
		if how == "ColorFromXYZ" {
			c = srgb.ColorFromXYZ(xyz)
		}
		c.R, c.G, c.B = now[0], now[1], now[2]
		return c.ToXYZ(), true
	case "adobergb":
		c := adobergb.ColorFromLinear(built[0], built[1], built[2])
		if how == "ColorFromXYZ" {
			c = adobergb.ColorFromXYZ(xyz)
		}
		c.R, c.G, c.B = now[0], now[1], now[2]
		return c.ToXYZ(), true
	case "prophotorgb":
		c := prophotorgb.ColorFromLinear(built[0], built[1], built[2])
		if how == "ColorFromXYZ" {
			c = prophotorgb.ColorFromXYZ(xyz)
		}
		c.R, c.G, c.B = now[0], now[1], now[2]
		return c.ToXYZ(), true
	case "displayp3":
		c := displayp3.ColorFromLinear(built[0], built[1], built[2])
		if how == "ColorFromXYZ" {
			c = displayp3.ColorFromXYZ(xyz)
		}
		c.R, c.G, c.B = now[0], now[1], now[2]
		return c.ToXYZ(), true
	}
	return ciexyz.Color{}, false
}

func runC03(r *core.Run) {
	r.Rule = "declared chromaticities vs published; 9+9 probed coefficients vs float64 derivation; lattice over [0,1]^3 (64^3 quick, 256^3 thorough) and seeded triples in [-1,2]^3 through linearity and both round trips; non-trivial = distinct triples with at least two non-zero channels"
	r.Assumptions = []string{"published chromaticities as transcribed in props/c03.go (6- and 4-digit variants accepted)", "round-trip tolerance 2e-6 scales with max(1, |input|, |intermediate|) for out-of-range colours (proportional error, as stated)"}
	maxCoef := map[string]float64{}
	worst := map[string]float64{}
	// The very first XYZ calls of the process are made by eight goroutines at once, in a
	// variant-dependent direction (lazily derived matrices must not be observable), and judged
	// against the float64 derivation from the declared primaries.
	if atinit.Records != nil {
		// this child converted during package initialisation of the monitor binary (a package-level
		// variable of an importing program), before anything else in the process ran
		n := 0
		for _, rec := range atinit.Records {
			s := spaceByName(rec.Space)
			if s == nil || (rec.Call != "ToXYZ" && rec.Call != "FromXYZ") {
				continue
			}
			rr, gg, bb, ww := c04DeclXY(s)
			ref, ok := refcolor.RGBToXYZ(rr, gg, bb, ww)
			if !ok {
				continue
			}
			m := ref
			if rec.Call == "FromXYZ" {
				m, _ = ref.Inv()
			}
			want := m.MulV(refcolor.Vec{float64(rec.In[0]), float64(rec.In[1]), float64(rec.In[2])})
			n++
			for i := 0; i < 3; i++ {
				if !(math.Abs(float64(rec.Out[i])-want[i]) <= 1e-5) {
					r.Violate("first-use", rec.Space+"/at-init-"+rec.Call, fmt.Sprintf("%s: %s of %v called from package initialisation of the importing program (variant %q) gave %v, the declared primaries fix %v", rec.Space, rec.Call, rec.In, r.Variant, rec.Out, want), c03Case{rec.Space, "first-use", rec.In, nil})
					break
				}
			}
		}
		r.AddEvals(int64(n))
		if n == 0 {
			r.Inconclusive("atinit child recorded nothing")
		}
	}
	{
		fromFirst := strings.Contains(r.Variant, "xyzfirst")
		// "mixedD", "mixedT", "mixedE", "mixedR": which lazily generated table the odd goroutines ask for
		mixed := strings.Contains(r.Variant, "mixed")
		mixedKind := byte('D')
		if i := strings.Index(r.Variant, "mixed"); i >= 0 && i+5 < len(r.Variant) {
			mixedKind = r.Variant[i+5]
		}
		var wg sync.WaitGroup
		stagger := strings.Contains(r.Variant, "stagger")
		var arrive [8]atomic.Int32
		start := make(chan struct{})
		for g := 0; g < 8; g++ {
			wg.Add(1)
			go func(g int) {
				defer wg.Done()
				<-start
				if stagger {
					for spin := 0; spin < g*1500; spin++ {
						runtime.Gosched()
					}
				}
				cur := -1
				defer func() {
					if p := recover(); p != nil {
						r.Violate("first-use", "panic", fmt.Sprintf("first XYZ conversion panicked: %v", p), c03Case{Kind: "first-use"})
						// the others must not wait at the remaining barriers for a goroutine that is gone
						for k := cur + 1; k < len(arrive) && k < len(libSpaces); k++ {
							arrive[k].Add(1)
						}
					}
				}()
				for si := range libSpaces {
					s := libSpaces[si]
					if strings.Contains(r.Variant, "cross") {
						// goroutine g starts with space g mod 4: the first uses of different spaces overlap
						s = libSpaces[(si+g)%len(libSpaces)]
					}
					// a spin barrier in front of every space, so that the eight first calls into
					// that space's conversion arrive within a fraction of a microsecond of one another
					// the reference is computed before the barrier, so that the library call is the first
					// thing every goroutine does after it
					rr, gg, bb, ww := c04DeclXY(s)
					ref, ok := refcolor.RGBToXYZ(rr, gg, bb, ww)
					if !ok {
						continue
					}
					refInv, _ := ref.Inv()
					in := [3]float32{0.25 + float32(g)/16, 0.5, 0.75 - float32(g)/16}
					v := refcolor.Vec{float64(in[0]), float64(in[1]), float64(in[2])}
					arrive[si].Add(1)
					cur = si
					for arrive[si].Load() < 8 {
						if runtime.GOMAXPROCS(0) < 8 {
							runtime.Gosched()
						}
					}
					if mixed && g%2 == 1 {
						// the odd goroutines make the space's first use of one of its lazily generated
						// tables at this moment; the even ones arrive with their first XYZ conversions
						// while that generation is in progress
						switch mixedKind {
						case 'D':
							if s.From16 != nil {
								_ = s.From16(0x8000)
							} else {
								_, _ = s.FromEncoded(color.RGBA64{R: 0x8000, G: 1, B: 2, A: 0xffff})
							}
						case 'T':
							if s.To16 != nil {
								_ = s.To16(0.5)
							} else {
								_ = s.ToRGBA64(linear.RGB{R: 0.5, G: 0.25, B: 0.125}, 1)
							}
						case 'E':
							_, _ = s.FromEncoded(color.NRGBA64{R: 0x1234, G: 0x5678, B: 0x9abc, A: 0xffff})
						default:
							_ = s.ToRGBA64(linear.RGB{R: 0.5, G: 0.25, B: 0.125}, 1)
						}
					}
					if k := fineStep(r.Variant); k > 0 {
						x := 0
						for i := 0; i < g*k; i++ {
							x += i ^ g
						}
						fineSink.Add(int64(x & 1))
					}
					check := func(dir string, got [3]float32, want refcolor.Vec) {
						for i := 0; i < 3; i++ {
							if !(math.Abs(float64(got[i])-want[i]) <= 1e-5) {
								r.Violate("first-use", s.Name+"/first-use-"+dir, fmt.Sprintf("%s: the first %s conversions of the process (8 goroutines at once, variant %q) gave %v for %v, the declared primaries fix %v", s.Name, dir, r.Variant, got, in, want), c03Case{s.Name, "first-use", in, nil})
								return
							}
						}
					}
					if fromFirst {
						c := s.FromXYZ(ciexyz.Color{X: in[0], Y: in[1], Z: in[2]})
						check("XYZ->RGB", [3]float32{c.R, c.G, c.B}, refInv.MulV(v))
					}
					x := s.ToXYZ(linear.RGB{R: in[0], G: in[1], B: in[2]})
					check("RGB->XYZ", [3]float32{x.X, x.Y, x.Z}, ref.MulV(v))
					c := s.FromXYZ(ciexyz.Color{X: in[0], Y: in[1], Z: in[2]})
					check("XYZ->RGB", [3]float32{c.R, c.G, c.B}, refInv.MulV(v))
				}
			}(g)
		}
		close(start)
		wg.Wait()
		r.AddEvals(8 * 8)
		// once the burst is over the conversions are asked again, one after the other: whatever the
		// overlapping first uses left behind is what the rest of the process lives with
		for _, s := range libSpaces {
			rr, gg, bb, ww := c04DeclXY(s)
			ref, ok := refcolor.RGBToXYZ(rr, gg, bb, ww)
			if !ok {
				continue
			}
			refInv, _ := ref.Inv()
			for rep := 0; rep < 2; rep++ {
				for _, in := range atinit.Inputs {
					v := refcolor.Vec{float64(in[0]), float64(in[1]), float64(in[2])}
					x := s.ToXYZ(linear.RGB{R: in[0], G: in[1], B: in[2]})
					c := s.FromXYZ(ciexyz.Color{X: in[0], Y: in[1], Z: in[2]})
					w1, w2 := ref.MulV(v), refInv.MulV(v)
					g1, g2 := [3]float32{x.X, x.Y, x.Z}, [3]float32{c.R, c.G, c.B}
					for i := 0; i < 3; i++ {
						if !(math.Abs(float64(g1[i])-w1[i]) <= 1e-5) {
							r.Violate("first-use", s.Name+"/after-first-use-RGB->XYZ", fmt.Sprintf("%s: after the overlapping first uses of the process (variant %q) RGB->XYZ of %v gives %v, the declared primaries fix %v", s.Name, r.Variant, in, g1, w1), c03Case{s.Name, "first-use", in, nil})
							break
						}
						if !(math.Abs(float64(g2[i])-w2[i]) <= 1e-5) {
							r.Violate("first-use", s.Name+"/after-first-use-XYZ->RGB", fmt.Sprintf("%s: after the overlapping first uses of the process (variant %q) XYZ->RGB of %v gives %v, the declared primaries fix %v", s.Name, r.Variant, in, g2, w2), c03Case{s.Name, "first-use", in, nil})
							break
						}
					}
				}
			}
			r.AddEvals(20)
		}
		if isBurst(r.Variant) {
			return
		}
	}
	for _, s := range libSpaces {
		vs, mc := c03Static(s)
		maxCoef[s.Name] = mc
		r.AddEvals(30)
		for _, v := range vs {
			r.Violate("static", s.Name+"/"+v[0], v[1], c03Case{Space: s.Name, Kind: v[0]})
		}
	}
	n := 64
	nrand := 1 << 16
	if r.Thorough() {
		n = 256
		nrand = 1 << 22
	}
	rng := core.NewRNG(r.Seed, "C03", "jitter")
	jit := float32(0)
	if n == 64 {
		jit = float32(rng.Uniform(0, 1.0/128)) // seed-dependent lattice offset in quick
	}
	for _, s := range libSpaces {
		s := s
		p := c03Probe(s)
		results := make([]float64, n)
		core.ParallelFor(n, 16, func(i int) {
			var evals, nt int64
			w := 0.0
			for j := 0; j < n; j++ {
				for k := 0; k < n; k++ {
					in := [3]float32{float32(i)/float32(n-1) + jit, float32(j)/float32(n-1) + jit, float32(k) / float32(n-1)}
					if i == 0 {
						in[0] = 0
					}
					if j == 0 {
						in[1] = 0
					}
					kind, msg, wv := c03Point(s, &p, in)
					if wv > w {
						w = wv
					}
					evals += 4
					nz := 0
					for _, c := range in {
						if c != 0 {
							nz++
						}
					}
					if nz >= 2 {
						nt++
					}
					if kind != "" {
						r.Violate("point", s.Name+"/"+kind, msg, c03Case{s.Name, kind, in, nil})
					}
				}
			}
			results[i] = w
			r.AddEvals(evals)
			r.NTCount(nt)
		})
		for _, w := range results {
			if w > worst[s.Name] {
				worst[s.Name] = w
			}
		}
		// gamut-boundary lattice: components a hair below 0 / above 1 (a clamp or a "flush
		// rounding noise" shortcut acts exactly here), and exact greys
		{
			bv := []float32{-1e-2, -1e-3, -1e-4, -1e-5, -3e-6, -1e-6, -1e-7, 0, 1e-7, 1e-6, 1e-5, 1e-3, 0.25, 0.5, 1 - 1e-5, 1 - 1e-7, 1, 1 + 1e-7, 1 + 1e-5, 1 + 1e-3, 1.5}
			var nb int64
			for _, a := range bv {
				for _, b := range bv {
					for _, c := range bv {
						in := [3]float32{a, b, c}
						kind, msg, _ := c03Point(s, &p, in)
						nb++
						if kind != "" {
							r.Violate("point", s.Name+"/"+kind, msg, c03Case{s.Name, kind, in, nil})
						}
					}
				}
			}
			for g := 0; g <= 4096; g++ {
				v := float32(g) / 4096
				in := [3]float32{v, v, v}
				kind, msg, _ := c03Point(s, &p, in)
				nb++
				if kind != "" {
					r.Violate("point", s.Name+"/"+kind, msg, c03Case{s.Name, kind, in, nil})
				}
			}
			r.AddEvals(nb * 4)
			r.NTCount(nb - 1)
		}
		// exactly integral components, in and out of range (the corners of the unit cube and their
		// over-range neighbours: a "corner" fast path that packs integral components shows here)
		{
			var nb int64
			for a := -2; a <= 8; a++ {
				for b := -2; b <= 8; b++ {
					for c := -2; c <= 8; c++ {
						in := [3]float32{float32(a), float32(b), float32(c)}
						kind, msg, _ := c03Point(s, &p, in)
						nb++
						if kind != "" {
							r.Violate("point", s.Name+"/"+kind+"/integral", msg, c03Case{s.Name, kind, in, nil})
						}
					}
				}
			}
			r.AddEvals(nb * 4)
			r.NTCount(nb)
		}
		// successive calls with nearly equal arguments (a result memo keyed too coarsely shows only here)
		{
			rg := core.NewRNG(r.Seed, "C03", "neardup", s.Name)
			var nb int64
			for i := 0; i < 4000; i++ {
				a := [3]float32{float32(rg.Uniform(-0.2, 1.2)), float32(rg.Uniform(-0.2, 1.2)), float32(rg.Uniform(-0.2, 1.2))}
				_ = s.ToXYZ(linear.RGB{R: a[0], G: a[1], B: a[2]})
				_ = s.FromXYZ(ciexyz.Color{X: a[0], Y: a[1], Z: a[2]})
				b := a
				ch := rg.Intn(3)
				switch rg.Intn(4) {
				case 0:
					b[ch] = math.Nextafter32(b[ch], 2)
				case 1:
					b[ch] += 1e-6
				case 2:
					b[ch] += 1e-4
				case 3:
					b[ch] -= 3e-5
				}
				kind, msg, _ := c03Point(s, &p, b)
				nb++
				if kind != "" {
					r.Violate("point", s.Name+"/"+kind+"/after-near-duplicate", msg+fmt.Sprintf(" (called right after the same conversion of %v)", a), c03Case{s.Name, kind, b, nil})
				}
			}
			r.AddEvals(nb * 4)
			r.NTCount(nb)
		}
		// large magnitudes: "without clamping, within proportional error for out-of-range ones"
		{
			rg := core.NewRNG(r.Seed, "C03", "large", s.Name)
			var nb int64
			for _, scale := range []float32{10, 100, 1000, 2047, 2049, 5000, 65536, 1e6, 1e9, 1e12, 1e15, 1e18, 3e19, 1e21, 1e24, 1e27, 1e30, 3e33} {
				for i := 0; i < 60; i++ {
					in := [3]float32{scale * float32(rg.Uniform(-1, 1)), scale * float32(rg.Uniform(-1, 1)), scale * float32(rg.Uniform(-1, 1))}
					if i%4 == 0 {
						in = [3]float32{scale, scale / 2, scale / 4}
					}
					kind, msg, _ := c03Point(s, &p, in)
					nb++
					if kind != "" {
						r.Violate("point", s.Name+"/"+kind+"/large", msg, c03Case{s.Name, kind, in, nil})
					}
					// ... and an ordinary colour immediately afterwards (nothing of a huge operand may be
					// left in whatever the conversion keeps between calls)
					small := [3]float32{float32(rg.Uniform(0, 1)), float32(rg.Uniform(0, 1)), float32(rg.Uniform(0, 1))}
					if kind, msg, _ := c03Point(s, &p, small); kind != "" {
						r.Violate("point", s.Name+"/"+kind+"/after-large", msg+fmt.Sprintf(" (converted right after %v)", in), c03Case{s.Name, kind, small, nil})
					}
				}
			}
			r.AddEvals(nb * 4)
			r.NTCount(nb)
		}
		// the ends of the float32 range: magnitudes up to MaxFloat32 wherever every product and partial
		// sum of the reference stays below it (then the float32 computation cannot overflow either, and
		// the result must still be proportional), and subnormal magnitudes (nothing can be demanded
		// of their precision, but they convert to finite values near zero, not to NaN)
		{
			rg := core.NewRNG(r.Seed, "C03", "extremes", s.Name)
			var nb int64
			fits := func(m refcolor.Mat, v refcolor.Vec) bool {
				for i := 0; i < 3; i++ {
					sum := 0.0
					for j := 0; j < 3; j++ {
						sum += math.Abs(m[i][j] * v[j])
					}
					if sum > 1.5e38 {
						return false
					}
				}
				return true
			}
			for _, scale := range []float64{1e35, 1e36, 1e37, 5e37, 9e37, 1.2e38, 2e38, 3.3e38} {
				for i := 0; i < 40; i++ {
					v := refcolor.Vec{scale * rg.Uniform(-1, 1), scale * rg.Uniform(-1, 1), scale * rg.Uniform(-1, 1)}
					if i%4 == 0 {
						v = refcolor.Vec{scale, scale / 2, scale / 4}
					}
					in := [3]float32{float32(v[0]), float32(v[1]), float32(v[2])}
					// forward only / inverse only, each where the reference fits
					if fits(p.fwd, v) {
						x := s.ToXYZ(linear.RGB{R: in[0], G: in[1], B: in[2]})
						want := p.fwd.MulV(refcolor.Vec{float64(in[0]), float64(in[1]), float64(in[2])})
						nb++
						if d := math.Max(math.Abs(float64(x.X)-want[0]), math.Max(math.Abs(float64(x.Y)-want[1]), math.Abs(float64(x.Z)-want[2]))); !(d <= c03Tol*scale*4) {
							r.Violate("point", s.Name+"/linear-fwd/extreme", fmt.Sprintf("%s ToXYZ(%v) = %v, linear extension of the unit responses gives %v", s.Name, in, x, want), c03Case{s.Name, "linear-fwd", in, nil})
						}
					}
					if fits(p.inv, v) {
						c := s.FromXYZ(ciexyz.Color{X: in[0], Y: in[1], Z: in[2]})
						want := p.inv.MulV(refcolor.Vec{float64(in[0]), float64(in[1]), float64(in[2])})
						nb++
						if d := math.Max(math.Abs(float64(c.R)-want[0]), math.Max(math.Abs(float64(c.G)-want[1]), math.Abs(float64(c.B)-want[2]))); !(d <= c03Tol*scale*8) {
							r.Violate("point", s.Name+"/linear-inv/extreme", fmt.Sprintf("%s ColorFromXYZ(%v) = %v, linear extension of the unit responses gives %v", s.Name, in, c, want), c03Case{s.Name, "linear-inv", in, nil})
						}
					}
				}
			}
			for _, scale := range []float32{1e-30, 1e-36, 1.2e-38, 5e-39, 1e-39, 1e-42, 1e-44, 1.4e-45} {
				for i := 0; i < 12; i++ {
					in := [3]float32{scale * float32(rg.Uniform(-1, 1)), scale * float32(rg.Uniform(-1, 1)), scale * float32(rg.Uniform(-1, 1))}
					if i%3 == 0 {
						in = [3]float32{scale, 0, 0}
					}
					kind, msg, _ := c03Point(s, &p, in)
					nb++
					if kind != "" {
						r.Violate("point", s.Name+"/"+kind+"/tiny", msg, c03Case{s.Name, kind, in, nil})
					}
				}
			}
			r.AddEvals(nb)
			r.NTCount(nb)
		}
		// every 16-bit level k/65535 in each channel (what a decoded 16-bit pixel holds exactly), and
		// colours with one component many orders of magnitude below the others, in every position
		{
			var nb int64
			for k := 0; k <= 65535; k++ {
				v := float32(k) / 65535
				for ch := 0; ch < 3; ch++ {
					in := [3]float32{0.25, 0.5, 0.75}
					in[ch] = v
					if k%3 == 0 {
						in = [3]float32{v, v, v}
						in[(ch+1)%3] = 1 - v
					}
					if ch != k%3 && k%16 != 0 {
						continue
					}
					kind, msg, _ := c03Point(s, &p, in)
					nb++
					if kind != "" {
						r.Violate("point", s.Name+"/"+kind+"/16-bit-level", msg, c03Case{s.Name, kind, in, nil})
						break
					}
				}
			}
			for _, tiny := range []float32{1e-9, 1e-12, -1e-9, 1e-20, 1e-30, 6e-8, 1e-7} {
				for _, rest := range [][2]float32{{0.8, 0.3}, {1, 0.5}, {0.3, 0.8}, {-0.2, 1.1}, {1, 1}} {
					for ch := 0; ch < 3; ch++ {
						var in [3]float32
						in[ch], in[(ch+1)%3], in[(ch+2)%3] = tiny, rest[0], rest[1]
						kind, msg, _ := c03Point(s, &p, in)
						nb++
						if kind != "" {
							r.Violate("point", s.Name+"/"+kind+"/tiny-component", msg, c03Case{s.Name, kind, in, nil})
						}
					}
				}
			}
			r.AddEvals(nb * 4)
			r.NTCount(nb)
		}
		// call sequences on one function at a time (c03Point above interleaves four calls): two colours
		// in alternation (A, B, A, B), a colour right after a much larger one with which it shares two
		// of its three components, and colours whose components span the float32 exponent range with
		// the dominant one negative
		{
			rg := core.NewRNG(r.Seed, "C03", "sequences", s.Name)
			var nb int64
			one := func(dir int, in [3]float32, note string) {
				nb++
				v := refcolor.Vec{float64(in[0]), float64(in[1]), float64(in[2])}
				var got [3]float32
				var want refcolor.Vec
				if dir == 0 {
					x := s.ToXYZ(linear.RGB{R: in[0], G: in[1], B: in[2]})
					got, want = [3]float32{x.X, x.Y, x.Z}, p.fwd.MulV(v)
				} else {
					c := s.FromXYZ(ciexyz.Color{X: in[0], Y: in[1], Z: in[2]})
					got, want = [3]float32{c.R, c.G, c.B}, p.inv.MulV(v)
				}
				scale := math.Max(1, normInf3(in[0], in[1], in[2]))
				for i := 0; i < 3; i++ {
					if !(math.Abs(float64(got[i])-want[i]) <= c03Tol*scale*8) {
						kind := []string{"linear-fwd", "linear-inv"}[dir]
						r.Violate("point", s.Name+"/"+kind+"/sequence", fmt.Sprintf("%s %s(%v) = %v, the probed matrix gives %v (%s)", s.Name, []string{"ToXYZ", "ColorFromXYZ"}[dir], in, got, want, note), c03Case{s.Name, kind, in, nil})
						return
					}
				}
			}
			rnd := func() [3]float32 {
				return [3]float32{float32(rg.Uniform(-0.2, 1.2)), float32(rg.Uniform(-0.2, 1.2)), float32(rg.Uniform(-0.2, 1.2))}
			}
			for dir := 0; dir < 2; dir++ {
				for i := 0; i < 400; i++ {
					a, b := rnd(), rnd()
					if i%5 == 0 {
						b = [3]float32{a[0], a[1], b[2]}
					}
					for k := 0; k < 5; k++ {
						one(dir, a, "alternating with another colour")
						one(dir, b, "alternating with another colour")
					}
					c := rnd()
					one(dir, c, "third colour")
					one(dir, a, "after a third colour")
				}
				for _, big := range []float32{1e3, 1e6, 1e9, -1e6, 65536, 1e12} {
					for ax := 0; ax < 3; ax++ {
						for i := 0; i < 20; i++ {
							b := rnd()
							h := b
							h[ax] = big
							one(dir, rnd(), "some colour")
							one(dir, h, "a large colour")
							one(dir, b, fmt.Sprintf("right after %v, with which it shares two components", h))
							h2 := [3]float32{big, big / 3, -big / 7}
							one(dir, h2, "a large colour")
							b2 := h2
							b2[ax] = float32(rg.Uniform(0, 1))
							one(dir, b2, fmt.Sprintf("right after %v, with which it shares two components", h2))
						}
					}
				}
				for _, dom := range []float32{-1.2676506e30, -1e30, 1e30, -1e20, -3e37, 3e37, -65536} { // -2^100 ...
					for _, rest := range [][2]float32{{-9.313226e-10, -9.313226e-10}, {1e-20, 1e-20}, {0.5, 0.5}, {1e-20, -0.5}, {0, 1e-30}, {-1e-10, 0.25}} {
						for ax := 0; ax < 3; ax++ {
							var in [3]float32
							in[ax], in[(ax+1)%3], in[(ax+2)%3] = dom, rest[0], rest[1]
							one(dir, in, "components spanning the exponent range")
						}
					}
				}
			}
			r.AddEvals(nb)
			r.NTCount(nb)
		}
		// the exported channels of a colour value are the colour: a value built by one constructor and
		// then edited (gamut clip, scaling) converts as its channels say, not as it was built
		{
			rg := core.NewRNG(r.Seed, "C03", "edited", s.Name)
			var nb int64
			for i := 0; i < 3000; i++ {
				built := [3]float32{float32(rg.Uniform(-0.2, 1.2)), float32(rg.Uniform(-0.2, 1.2)), float32(rg.Uniform(-0.2, 1.2))}
				now := [3]float32{float32(rg.Uniform(-0.2, 1.2)), float32(rg.Uniform(-0.2, 1.2)), float32(rg.Uniform(-0.2, 1.2))}
				if i%3 == 0 { // a gamut clip of what was built
					c := s.FromXYZ(ciexyz.Color{X: built[0], Y: built[1], Z: built[2]})
					now = [3]float32{clampF(c.R), clampF(c.G), clampF(c.B)}
				}
				for _, how := range []string{"ColorFromXYZ", "ColorFromLinear"} {
					got, ok := c03EditedToXYZ(s.Name, how, built, now)
					if !ok {
						continue
					}
					want := p.fwd.MulV(refcolor.Vec{float64(now[0]), float64(now[1]), float64(now[2])})
					d := math.Max(math.Abs(float64(got.X)-want[0]), math.Max(math.Abs(float64(got.Y)-want[1]), math.Abs(float64(got.Z)-want[2])))
					nb++
					if !(d <= c03Tol*math.Max(1, normInf3(now[0], now[1], now[2]))) {
						r.Violate("point", s.Name+"/edited-after-"+how, fmt.Sprintf("%s: a Color built by %s(%v) whose R,G,B were then set to %v converts ToXYZ() = %v; its channels give %v", s.Name, how, built, now, got, want), c03Case{s.Name, "edited-after-" + how, now, &built})
						break
					}
				}
			}
			r.AddEvals(nb)
			r.NTCount(nb)
		}
		// random out-of-range triples
		shards := 16
		res2 := make([]float64, shards)
		core.ParallelFor(shards, 16, func(sh int) {
			rg := core.NewRNG(r.Seed, "C03", s.Name, fmt.Sprint(sh))
			w := 0.0
			for i := 0; i < nrand/shards; i++ {
				in := [3]float32{float32(rg.Uniform(-1, 2)), float32(rg.Uniform(-1, 2)), float32(rg.Uniform(-1, 2))}
				kind, msg, wv := c03Point(s, &p, in)
				if wv > w {
					w = wv
				}
				if kind != "" {
					r.Violate("point", s.Name+"/"+kind, msg, c03Case{s.Name, kind, in, nil})
				}
			}
			res2[sh] = w
			r.AddEvals(int64(nrand / shards * 4))
			r.NTCount(int64(nrand / shards))
		})
		for _, w := range res2 {
			if w > worst[s.Name] {
				worst[s.Name] = w
			}
		}
	}
	// very many conversions of distinct colours in one process, per space and direction (a counter of
	// calls or of cache misses kept in 32 bits wraps after 2^31): 2^24 in the quick tier, 2^31 + 2^16
	// in the thorough one, every 4096th result judged
	if r.Variant == "" {
		total := int64(1) << 24
		if r.Thorough() {
			total = int64(1)<<31 + 1<<16
		}
		type job struct {
			s   *libSpace
			dir int
		}
		var jobs []job
		for _, s := range libSpaces {
			jobs = append(jobs, job{s, 0}, job{s, 1})
		}
		var bad atomic.Int32
		core.ParallelFor(len(jobs), 8, func(ji int) {
			j := jobs[ji]
			rr, gg, bb, ww := c04DeclXY(j.s)
			ref, ok := refcolor.RGBToXYZ(rr, gg, bb, ww)
			if !ok {
				return
			}
			m := ref
			if j.dir == 1 {
				m, _ = ref.Inv()
			}
			defer func() {
				if p := recover(); p != nil && bad.Add(1) == 1 {
					r.Violate("point", j.s.Name+"/panic/call-count", fmt.Sprintf("%s %s panicked among %d conversions of distinct colours in one process: %v", j.s.Name, []string{"ToXYZ", "ColorFromXYZ"}[j.dir], total, p), c03Case{Space: j.s.Name, Kind: "call-count"})
				}
			}()
			for i := int64(0); i < total; i++ {
				// distinct inputs: the counter spread over the three components
				in := [3]float32{float32(i&0x7FF) / 2048, float32((i>>11)&0x7FF) / 2048, float32((i>>22)&0x7FF)/2048 + float32(ji)/64}
				var got [3]float32
				if j.dir == 0 {
					x := j.s.ToXYZ(linear.RGB{R: in[0], G: in[1], B: in[2]})
					got = [3]float32{x.X, x.Y, x.Z}
				} else {
					c := j.s.FromXYZ(ciexyz.Color{X: in[0], Y: in[1], Z: in[2]})
					got = [3]float32{c.R, c.G, c.B}
				}
				if i&4095 == 0 || i > total-64 {
					want := m.MulV(refcolor.Vec{float64(in[0]), float64(in[1]), float64(in[2])})
					for k := 0; k < 3; k++ {
						if !(math.Abs(float64(got[k])-want[k]) <= 2e-5) {
							if bad.Add(1) == 1 {
								r.Violate("point", j.s.Name+"/linear/call-count", fmt.Sprintf("%s %s(%v) = %v as conversion #%d of the process, the declared primaries fix %v", j.s.Name, []string{"ToXYZ", "ColorFromXYZ"}[j.dir], in, got, i+1, want), c03Case{j.s.Name, "call-count", in, nil})
							}
							return
						}
					}
				}
			}
		})
		r.AddEvals(total * int64(len(jobs)))
		r.Obs("conversions_per_space_and_direction_in_one_process", total)
	}
	if r.Variant == "" {
		// the whole workload once more in the GOARCH=386 build of this monitor (see ./check)
		r.RunVariantChild("arch386@16", 30*time.Minute, false)
		r.Obs("arch386_child", "run")
		for _, v := range append([]string{"xyzfirst", "xyzfirst+rev@2", "rev@1", "warm@2", "decfirst+encfirst@1", "genfirst@2", "genfirst+xyzfirst+rev@1", "rot1+genfirst@1", "rot2+genfirst+xyzfirst@3", "burst+cross@8", "burst+cross+xyzfirst@16", "burst+cross+stagger@4", "burst+cross+rev@16", "burst+cross+xyzfirst+rev@8", "burst+cross@2", "burst+cross+fine10@16", "burst+cross+fine60@8", "burst+cross+fine250+xyzfirst@16", "burst+cross+fine30+rev@8", "burst+xyzfirst@4", "burst+xyzfirst+stagger@8", "xyzfirst@3", "rev@5", "xyzfirst+rev@6", "rot1@7", "xyzfirst@12", "rot2@11", "rev@13",
			"atinit+burst@1", "atinit+burst@16", "atinit+burst+rev@2", "atinit+burst@4",
			"burst+mixedD@16", "burst+mixedD+fine1000@16", "burst+mixedT+fine10000@16", "burst+mixedD+fine100000@16", "burst+mixedT+fine400000@8", "burst+mixedE+cross+fine30000@16", "burst+mixedR+rev+fine100000@4", "burst+mixedD+fine200000@2", "burst+mixedT+xyzfirst+fine50000@16", "burst+mixedE+fine3000@16", "burst+mixedR+fine20000@16", "burst+mixedT+fine100@16"}, burstVariants...) {
			r.RunVariantChild(v, 10*time.Minute, false)
		}
		r.Obs("fresh_process_variants", []string{"xyzfirst", "xyzfirst+rev@2", "rev@1", "warm@2", "decfirst+encfirst@1", "genfirst@2", "genfirst+xyzfirst+rev@1", "rot1+genfirst@1", "rot2+genfirst+xyzfirst@3", "burst+cross@8", "burst+cross+xyzfirst@16", "burst+cross+stagger@4", "burst+cross+rev@16", "burst+cross+xyzfirst+rev@8", "burst+cross@2", "burst+cross+fine10@16", "burst+cross+fine60@8", "burst+cross+fine250+xyzfirst@16", "burst+cross+fine30+rev@8", "atinit+burst@1", "atinit+burst@16", "atinit+burst+rev@2", "atinit+burst@4", "burst+mixedD@16", "burst+mixedD+fine1000@16", "burst+mixedT+fine10000@16", "burst+mixedD+fine100000@16", "burst+mixedT+fine400000@8", "burst+mixedE+cross+fine30000@16", "burst+mixedR+rev+fine100000@4", "burst+mixedD+fine200000@2", "burst+mixedT+xyzfirst+fine50000@16", "burst+mixedE+fine3000@16", "burst+mixedR+fine20000@16", "burst+mixedT+fine100@16"})
	}
	r.Obs("max_coefficient_error_per_space", maxCoef)
	r.Obs("max_scaled_linearity_or_roundtrip_error_per_space", worst)
	r.Obs("lattice_side", n)
	r.Exhaustive = false
	p := c03Probe(spaceByName("srgb"))
	r.Sample(map[string]any{"space": "srgb", "probed_rgb_to_xyz": p.fwd})
	r.Sample(map[string]any{"space": "prophotorgb", "in": []float32{-0.5, 1.5, 0.25}, "xyz": spaceByName("prophotorgb").ToXYZ(linear.RGB{R: -0.5, G: 1.5, B: 0.25})})
}

func replayC03(stage string, raw json.RawMessage) (bool, string, error) {
	var cs c03Case
	if err := json.Unmarshal(raw, &cs); err != nil {
		return false, "", err
	}
	s := spaceByName(cs.Space)
	if s == nil {
		return false, "", fmt.Errorf("unknown space")
	}
	if stage == "static" {
		vs, _ := c03Static(s)
		for _, v := range vs {
			if v[0] == cs.Kind {
				return true, v[1], nil
			}
		}
		return false, "static checks hold", nil
	}
	p := c03Probe(s)
	if cs.Built != nil && strings.HasPrefix(cs.Kind, "edited-after-") {
		how := strings.TrimPrefix(cs.Kind, "edited-after-")
		got, _ := c03EditedToXYZ(s.Name, how, *cs.Built, cs.In)
		want := p.fwd.MulV(refcolor.Vec{float64(cs.In[0]), float64(cs.In[1]), float64(cs.In[2])})
		d := math.Max(math.Abs(float64(got.X)-want[0]), math.Max(math.Abs(float64(got.Y)-want[1]), math.Abs(float64(got.Z)-want[2])))
		return !(d <= c03Tol*math.Max(1, normInf3(cs.In[0], cs.In[1], cs.In[2]))), fmt.Sprintf("built by %s(%v), channels set to %v: ToXYZ() = %v, the channels give %v", how, *cs.Built, cs.In, got, want), nil
	}
	kind, msg, _ := c03Point(s, &p, cs.In)
	return kind != "", msg, nil
}

func init() {
	core.Register(&core.Property{ID: "C03", Level: "exploration", Run: runC03, Replay: replayC03, Child: variantChild("C03", "exploration", runC03)})
}
