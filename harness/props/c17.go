//go:build all || c17 || c08

package props

import (
	"bufio"
	"bytes"
	"encoding/base64"
	"encoding/json"
	"fmt"
	"hash/adler32"
	"hash/crc32"
	"hash/fnv"
	"io"
	"strings"
	"time"

	"github.com/mandykoh/prism/meta/icc"

	"verifharness/internal/core"
	"verifharness/internal/imggen"
	"verifharness/internal/src"
)

// C17 — description found via the tag table and decoded as the right string.

type c17Case struct {
	Name    string   `json:"name"`
	Profile string   `json:"profile_base64"`
	Accept  []string `json:"acceptable_descriptions"`
	HasDesc bool     `json:"has_desc"`
	Via     string   `json:"via"`
}

type c17Profile struct {
	name    string
	bytes   []byte
	accept  []string
	hasDesc bool
	class   string
	nt      bool
}

// utf16ToString is the harness's own UTF-16 decoder.
func utf16ToString(u []uint16) string {
	var sb strings.Builder
	for i := 0; i < len(u); i++ {
		c := rune(u[i])
		switch {
		case c >= 0xD800 && c < 0xDC00 && i+1 < len(u) && u[i+1] >= 0xDC00 && u[i+1] < 0xE000:
			sb.WriteRune(0x10000 + (c-0xD800)<<10 + (rune(u[i+1]) - 0xDC00))
			i++
		case c >= 0xD800 && c < 0xE000:
			sb.WriteRune(0xFFFD)
		default:
			sb.WriteRune(c)
		}
	}
	return sb.String()
}

var c17Langs = []string{"de", "fr", "ja", "zh", "es", "it", "ko", "pt", "nl", "sv", "da", "fi", "nb", "pl", "ru", "tr", "cs", "hu", "el", "he", "ar", "th", "uk", "ro", "ca", "hr", "sk", "vi", "id", "ms"}
var c17Countries = []string{"DE", "FR", "JP", "CN", "ES", "IT", "KR", "BR", "NL", "SE", "US", "GB", "AU", "CA", "\x00\x00", "TW", "PT", "MX"}

func c17Gen(rng *core.RNG, idx int) c17Profile {
	var p c17Profile
	ntags := rng.Intn(65)
	if idx%11 == 0 {
		ntags = []int{0, 1, 2, 64}[rng.Intn(4)]
	}
	hasDesc := ntags > 0 && idx%13 != 5
	p.hasDesc = hasDesc
	descPos := 0
	if ntags > 0 {
		descPos = rng.Intn(ntags)
	}
	kind := []string{"v2", "mluc"}[rng.Intn(2)]
	var descData []byte
	placement, enpos, content := "-", "-", "-"
	nrec := 0
	if hasDesc {
		if kind == "v2" {
			n := rng.Intn(60)
			switch rng.Intn(6) {
			case 0:
				n = 0
			case 1:
				n = 2000
			case 2:
				n = 200 + rng.Intn(1800)
			}
			txt := latin1(rng, n)
			descData = imggen.TextDescription(txt)
			if rng.Intn(3) == 0 { // the optional Unicode and ScriptCode parts filled in: the ASCII part stays the description
				descData = imggen.TextDescriptionFull(txt, c17Text(rng, "bmp", 1+rng.Intn(20)), latin1(rng, rng.Intn(60)))
			}
			p.accept = []string{txt}
		} else {
			nrec = 1 + rng.Intn(6)
			switch rng.Intn(5) {
			case 0:
				nrec = 1
			case 1:
				nrec = 2
			case 2:
				nrec = 7 + rng.Intn(34)
			}
			content = []string{"ascii", "bmp", "astral", "empty-en", "latin1", "bom", "long-astral", "hi00"}[rng.Intn(8)]
			enpos = []string{"first", "middle", "last", "absent", "twice"}[rng.Intn(5)]
			if nrec == 1 && (enpos == "middle" || enpos == "twice") {
				enpos = "first"
			}
			recs := make([]imggen.MlucRecord, nrec)
			langs := rng.Perm(len(c17Langs))
			for i := range recs {
				ck := content
				if ck == "empty-en" {
					ck = "ascii"
				}
				tl := 1 + rng.Intn(40)
				if ck == "long-astral" { // longer than any plausible decode block, pairs at every alignment
					ck, tl = "astral", []int{1020, 1023, 1024, 1025, 2047, 2049, 3000, 4100}[rng.Intn(8)]+rng.Intn(3)
					if nrec > 3 {
						nrec = 3
						recs = recs[:3]
					}
				}
				if i >= len(recs) {
					break
				}
				recs[i] = imggen.MlucRecord{Lang: c17Langs[langs[i%len(langs)]], Country: core.Pick(rng, c17Countries), Text: c17Text(rng, ck, tl)}
			}
			enIdx := []int{}
			switch enpos {
			case "first":
				enIdx = []int{0}
			case "middle":
				enIdx = []int{nrec / 2}
			case "last":
				enIdx = []int{nrec - 1}
			case "twice":
				enIdx = []int{0, nrec - 1}
			}
			for k, i := range enIdx {
				recs[i].Lang = "en"
				recs[i].Country = []string{"US", "GB", "AU", "\x00\x00", "CA"}[(rng.Intn(5)+k)%5]
				if k == 1 && recs[i].Country == recs[enIdx[0]].Country {
					recs[i].Country = "NZ"
				}
				if content == "empty-en" {
					recs[i].Text = nil
				}
			}
			placement = []string{"record-order", "reverse", "shared", "suffix", "gap", "permuted"}[rng.Intn(6)]
			var order []int
			gap := 0
			switch placement {
			case "reverse":
				order = make([]int, nrec)
				for i := range order {
					order[i] = nrec - 1 - i
				}
			case "permuted":
				order = rng.Perm(nrec)
			case "shared":
				for i := range recs {
					if content != "empty-en" || recs[i].Lang != "en" {
						recs[i].Share = "all"
						recs[i].Text = recs[firstNonEmpty(recs)].Text
					}
				}
				order = nil
			case "suffix":
				// record 0 hosts; others are suffixes of it
				host := 0
				if len(recs[0].Text) < 8 {
					recs[0].Text = c17Text(rng, "ascii", 20)
				}
				for i := 1; i < nrec; i++ {
					if recs[i].Text == nil {
						continue
					}
					k := 1 + rng.Intn(len(recs[host].Text))
					recs[i].Text = recs[host].Text[len(recs[host].Text)-k:]
					recs[i].SuffixOf = host + 1
				}
			case "gap":
				gap = 1 + rng.Intn(40)
			}
			if placement == "reverse" || placement == "permuted" {
				// order must index the distinct strings; all records are distinct here
			}
			descData, _ = imggen.Mluc(recs, order, gap, 12)
			var enStr, all []string
			for _, rc := range recs {
				s := utf16ToString(rc.Text)
				all = append(all, s)
				if rc.Lang == "en" {
					enStr = append(enStr, s)
				}
			}
			if len(enStr) > 0 {
				p.accept = enStr
			} else {
				p.accept = all
			}
		}
	}
	// tag list
	var tags []imggen.ICCTag
	layout := []string{"table-order", "reverse", "permuted", "one-shared-block", "desc-shares-dmdd"}[rng.Intn(5)]
	sigs := []string{"cprt", "wtpt", "rXYZ", "gXYZ", "bXYZ", "rTRC", "gTRC", "bTRC", "chad", "lumi", "bkpt", "A2B0", "B2A0", "gamt", "tech", "vued", "view", "meas", "targ", "ncl2"}
	for i := 0; i < ntags; i++ {
		if hasDesc && i == descPos {
			tags = append(tags, imggen.ICCTag{Sig: "desc", Data: descData})
			continue
		}
		sig := sigs[i%len(sigs)]
		if i >= len(sigs) {
			sig = fmt.Sprintf("t%03d", i)
		}
		tags = append(tags, imggen.ICCTag{Sig: sig, Data: rng.Bytes(rng.Intn(120))})
	}
	// private tags: in a quarter of the profiles the other tags carry arbitrary 32-bit signatures
	// (bytes above 0x7F included; registered private tags look like that), so that a table that orders
	// or hashes signatures sees more than lower-case ASCII
	if idx%4 == 2 {
		used := map[string]bool{"desc": true}
		for i := range tags {
			if tags[i].Sig == "desc" {
				continue
			}
			for {
				sg := string([]byte{byte(rng.Intn(256)), byte(rng.Intn(256)), byte(rng.Intn(256)), byte(rng.Intn(256))})
				if i%2 == 0 {
					sg = string([]byte{byte(0x80 + rng.Intn(128)), byte(rng.Intn(256)), byte(rng.Intn(256)), byte(rng.Intn(256))})
				}
				if !used[sg] {
					used[sg] = true
					tags[i].Sig = sg
					break
				}
			}
		}
	}
	// decoys: in a third of the profiles other tags (Apple's 'dscm', the device manufacturer / model
	// descriptions, copyright, viewing-conditions description ...) carry well-formed description
	// elements of their own, with other text; the description is still the 'desc' tag's
	if idx%3 == 1 {
		decoySigs := []string{"dscm", "dmnd", "dmdd", "cprt", "vued", "DESC", "desC", "csed"}
		rot := rng.Intn(len(decoySigs))
		k := 0
		for i := range tags {
			if tags[i].Sig == "desc" || rng.Intn(3) == 0 {
				continue
			}
			if k < len(decoySigs) {
				tags[i].Sig = decoySigs[(rot+k)%len(decoySigs)]
			}
			k++
			txt := fmt.Sprintf("decoy %s #%d", tags[i].Sig, idx)
			if rng.Bool() {
				tags[i].Data = imggen.TextDescription(txt)
			} else {
				u := make([]uint16, len(txt))
				for j, c := range []byte(txt) {
					u[j] = uint16(c)
				}
				tags[i].Data, _ = imggen.Mluc([]imggen.MlucRecord{{Lang: "en", Country: "US", Text: u}}, nil, 0, 12)
			}
			if k >= 10 {
				break
			}
		}
	}
	switch layout {
	case "one-shared-block":
		// every non-desc tag shares one data block
		for i := range tags {
			if tags[i].Sig != "desc" {
				tags[i].Share = "blk"
			}
		}
	case "desc-shares-dmdd":
		if hasDesc && ntags >= 2 {
			j := (descPos + 1) % ntags
			tags[j].Sig, tags[j].Share, tags[descPos].Share = "dmdd", "d", "d"
			tags[j].Data = descData
		}
	}
	spec := imggen.ICCSpec{Header: imggen.MinimalHeader(kind == "mluc"), Tags: tags, Pad: rng.Intn(4), Lead: []int{0, 0, 0, 4, 13}[rng.Intn(5)]}
	// count distinct blocks to build a permutation
	nblocks := 0
	seen := map[string]bool{}
	for _, tg := range tags {
		if tg.Share != "" {
			if seen[tg.Share] {
				continue
			}
			seen[tg.Share] = true
		}
		nblocks++
	}
	switch layout {
	case "reverse":
		spec.DataOrder = make([]int, nblocks)
		for i := range spec.DataOrder {
			spec.DataOrder[i] = nblocks - 1 - i
		}
	case "permuted", "one-shared-block", "desc-shares-dmdd":
		spec.DataOrder = rng.Perm(nblocks)
	}
	p.bytes, _ = spec.Build()
	tc := "0"
	switch {
	case ntags == 1:
		tc = "1"
	case ntags > 1 && ntags <= 8:
		tc = "2-8"
	case ntags > 8:
		tc = ">8"
	}
	p.class = fmt.Sprintf("tags=%s/%s/pad/%s/rec=%d/%s/en=%s/%s", tc, layout, kind, nrec, placement, enpos, content)
	p.nt = hasDesc && (layout != "table-order" || nrec >= 2)
	p.name = fmt.Sprintf("profile#%d %d tags, desc at %d, %s", idx, ntags, descPos, p.class)
	return p
}

type c17Kept struct {
	prof *icc.Profile
	p    c17Profile
}

func firstNonEmpty(recs []imggen.MlucRecord) int {
	for i, r := range recs {
		if len(r.Text) > 0 {
			return i
		}
	}
	return 0
}

func c17Check(profile []byte, accept []string, hasDesc bool, via string) (kind, msg string) {
	var data = profile
	if via == "jpeg" {
		n := (len(profile) + 65518) / 65519
		if n == 0 {
			n = 1
		}
		var segs []imggen.JPEGSeg
		for i, part := range imggen.SplitICC(profile, n) {
			segs = append(segs, imggen.ICCChunkSeg(i+1, n, part))
		}
		file, _ := imggen.JPEGSpec{Precision: 8, W: 8, H: 8, Comps: imggen.StdComps(3, 1, 1), Before: segs, ICC: profile, ICCState: "ok"}.Build()
		res := loadWith("jpegmeta", bytes.NewReader(file))
		if res.Panic != nil || res.Err != nil || res.MD == nil {
			return "embed", fmt.Sprintf("jpegmeta.Load failed on the embedding JPEG: %v %v", res.Err, res.Panic)
		}
		got, err := iccDataOf(res.MD)
		if err != nil || !bytes.Equal(got, profile) {
			return "embed", fmt.Sprintf("embedded profile did not come back (err %v)", err)
		}
		data = got
	}
	if via == "bufio@4000" {
		// the profile starts at stream offsets 3990..4015 behind a default bufio.Reader, so that
		// the reader's 4096-byte refill falls inside the header
		for off := 3990; off <= 4015; off += 5 {
			br := bufio.NewReader(bytes.NewReader(append(make([]byte, off), data...)))
			_, _ = br.Discard(off)
			p, err, pan := readProfile(br)
			if pan != nil || err != nil || p == nil {
				return "read-failed", fmt.Sprintf("ReadProfile failed on a well-formed profile behind a bufio.Reader at stream offset %d: %v %v", off, err, pan)
			}
			if hasDesc {
				d, derr, dpan := description(p)
				okd := false
				for _, a := range accept {
					okd = okd || a == d
				}
				if dpan != nil || derr != nil || !okd {
					return "wrong-description", fmt.Sprintf("behind a bufio.Reader at stream offset %d: Description() = %q (err %v), acceptable: %q", off, d, derr, accept)
				}
			}
		}
		return "", "ok"
	}
	if via == "reader-reused" || via == "data+eof" || via == "len-reader" || strings.HasPrefix(via, "bufio:") {
		var p *icc.Profile
		var err error
		var pan any
		if via == "len-reader" {
			// a caller's buffered stream whose Len() reports what it holds right now (at most 1000 bytes)
			p, err, pan = readProfile(&lenNowReader{data: data})
		} else if strings.HasPrefix(via, "bufio:") {
			// a buffered reader whose buffer is smaller than the tag table, than one tag, than the header
			var n int
			fmt.Sscanf(via, "bufio:%d", &n)
			p, err, pan = readProfile(bufio.NewReaderSize(bytes.NewReader(data), n))
		} else if via == "reader-reused" {
			// one ProfileReader for two profiles back to back in one stream: the second is this one
			first := structuredProfile(core.NewRNG(int64(len(data)), "c17first"), len(data)%3)
			pr := icc.NewProfileReader(bytes.NewReader(append(append([]byte{}, first...), data...)))
			func() {
				defer func() {
					if x := recover(); x != nil {
						pan = x
					}
				}()
				if _, e1 := pr.ReadProfile(); e1 != nil {
					err = fmt.Errorf("first profile: %v", e1)
					return
				}
				p, err = pr.ReadProfile()
			}()
		} else {
			// a reader that hands over the last bytes together with io.EOF, in segments of up to 7000 bytes
			p, err, pan = readProfile(shortByteReader{src.New(data).Sizes(7000).DataWithEnd()})
		}
		if pan != nil || err != nil || p == nil {
			return "read-failed", fmt.Sprintf("ReadProfile (%s) failed on a well-formed profile: %v %v", via, err, pan)
		}
		if !hasDesc {
			return "", "ok"
		}
		d, derr, dpan := description(p)
		for _, a := range accept {
			if a == d && derr == nil && dpan == nil {
				return "", "ok"
			}
		}
		return "wrong-description", fmt.Sprintf("(%s) Description() = %q (err %v, panic %v), acceptable: %q", via, d, derr, dpan, accept)
	}
	if via == "after-rejected" {
		// history: cut copies of this very profile (inside the header, the tag table, the tag data)
		// are read - and rejected - immediately before
		for _, cut := range []int{100, 130, 132 + 7, len(data) / 2, len(data) - 1} {
			if cut > 0 && cut < len(data) {
				_, _, _ = readProfile(bytes.NewReader(data[:cut]))
			}
		}
	}
	if via == "source-reused" || via == "concurrent-description" {
		// source-reused: the profile is read from a bytes.Buffer / a byte slice which the caller then
		// reuses for something else before asking for the description
		for k := 0; k < 2; k++ {
			cp := append([]byte{}, data...)
			var p *icc.Profile
			var err error
			var pan any
			bb := bytes.NewBuffer(cp)
			if k == 0 {
				p, err, pan = readProfile(bb)
			} else {
				p, err, pan = readProfile(bytes.NewReader(cp))
			}
			if pan != nil || err != nil || p == nil {
				return "read-failed", fmt.Sprintf("ReadProfile failed on a well-formed profile: %v %v", err, pan)
			}
			if !hasDesc {
				continue
			}
			if via == "source-reused" {
				bb.Reset()
				bb.Write(bytes.Repeat([]byte("Z"), len(data)))
				for i := range cp {
					cp[i] = 'Z'
				}
				d, derr, dpan := description(p)
				okd := false
				for _, a := range accept {
					okd = okd || a == d
				}
				if dpan != nil || derr != nil || !okd {
					return "wrong-description", fmt.Sprintf("after the caller reused the %s the profile had been read from: Description() = %q (err %v, panic %v), acceptable: %q", []string{"bytes.Buffer", "byte slice"}[k], d, derr, dpan, accept)
				}
				continue
			}
			// concurrent-description: eight goroutines ask the same freshly read profile at once
			type res struct {
				d   string
				err error
				pan any
			}
			out := make([]res, 8)
			firstUsePhases(8, 1, func(g, ph int) {
				d, e, pn := description(p)
				out[g] = res{d, e, pn}
			})
			for g, o := range out {
				okd := false
				for _, a := range accept {
					okd = okd || a == o.d
				}
				if o.pan != nil || o.err != nil || !okd {
					return "wrong-description", fmt.Sprintf("eight goroutines asked one freshly read profile for its description at once; goroutine %d got %q (err %v, panic %v), acceptable: %q", g, o.d, o.err, o.pan, accept)
				}
			}
		}
		return "", "ok"
	}
	rd := bytes.NewReader(data)
	if via == "offset" {
		// the profile sits after other bytes in the same reader (e.g. after a chunk header)
		rd = bytes.NewReader(append([]byte("ICC_PROFILE\x00\x01\x01"), data...))
		_, _ = rd.Seek(14, 0)
	}
	p, err, pan := readProfile(rd)
	if pan != nil {
		return "panic", fmt.Sprintf("ReadProfile panicked: %v", pan)
	}
	if err != nil || p == nil {
		return "read-failed", fmt.Sprintf("ReadProfile failed on a well-formed profile: %v", err)
	}
	if !hasDesc {
		return "", "ok (no description tag)"
	}
	d, derr, dpan := description(p)
	if dpan != nil {
		return "panic", fmt.Sprintf("Description panicked: %v", dpan)
	}
	if derr != nil {
		return "description-error", fmt.Sprintf("Description() failed on a well-formed profile: %v", derr)
	}
	for _, a := range accept {
		if a == d {
			return "", "ok"
		}
	}
	return "wrong-description", fmt.Sprintf("Description() = %q, acceptable: %q", d, accept)
}

func runC17(r *core.Run) {
	r.Rule = "generated well-formed profiles: 0-64 tags with desc at any table position, tag data in table order / reversed / permuted / shared blocks / desc shared with dmdd, 0-3 pad bytes, v2 textDescription of 0-2000 chars or mluc with 1-40 records x string placement {record order, reverse, permuted, shared, overlapping suffixes, gap} x en position {first, middle, last, absent, twice} x content {ASCII, BMP, surrogate pairs, empty en}; read directly and through a JPEG embedding; real profiles from the repository; non-trivial = distinct generator classes with tag data not in table order or >= 2 mluc records"
	r.Assumptions = []string{"with several 'en' records, or no 'en' record and several records, any one of them is accepted (the statement says 'an English-language record ... otherwise some record')", "a profile without a description tag only has to be readable"}
	n := 20000
	if r.Thorough() {
		n = 1000000
	}
	shards := 64
	core.ParallelFor(shards, 16, func(sh int) {
		rg := core.NewRNG(r.Seed, "C17", fmt.Sprint(sh))
		var ring []c17Kept
		for i := 0; i < n/shards; i++ {
			p := c17Gen(rg, sh*(n/shards)+i)
			for _, via := range []string{"direct", "jpeg", "offset", "bufio@4000", "source-reused", "concurrent-description", "after-rejected", "reader-reused", "data+eof", "len-reader", fmt.Sprintf("bufio:%d", []int{16, 64, 100, 300, 1000}[(i/8)%5])} {
				if via != "direct" && i%8 != 0 {
					continue
				}
				if via == "bufio@4000" && i%32 != 0 {
					continue
				}
				if via == "concurrent-description" && i%16 != 0 {
					continue
				}
				kind, msg := c17Check(p.bytes, p.accept, p.hasDesc, via)
				r.AddEvals(1)
				if kind != "" {
					r.Violate("profile", kind+"/"+via, p.name+": "+msg, c17Case{p.name, base64.StdEncoding.EncodeToString(p.bytes), p.accept, p.hasDesc, via})
				}
			}
			// deferred: keep the parsed profile and ask for its description only after
			// several other profiles have been read (retained tag data must stay intact)
			if p.hasDesc {
				if prof, err, pan := readProfile(bytes.NewReader(p.bytes)); err == nil && pan == nil && prof != nil {
					ring = append(ring, c17Kept{prof, p})
				}
				if len(ring) >= 6 {
					for _, k := range ring {
						d, derr, dpan := description(k.prof)
						okd := false
						for _, a := range k.p.accept {
							if a == d {
								okd = true
							}
						}
						r.AddEvals(1)
						if dpan != nil || derr != nil || !okd {
							r.Violate("profile", "deferred-description", fmt.Sprintf("%s: Description() asked after other profiles had been read = %q (err %v, panic %v), acceptable: %q", k.p.name, d, derr, dpan, k.p.accept),
								c17Case{k.p.name, base64.StdEncoding.EncodeToString(k.p.bytes), k.p.accept, true, "deferred"})
						}
					}
					ring = ring[:0]
				}
			}
			if p.nt {
				r.NT(p.class)
			}
			if sh == 0 && i < 2 {
				r.Sample(map[string]any{"name": p.name, "bytes": len(p.bytes), "acceptable": p.accept})
			}
		}
	})
	if r.Variant == "" {
		// the same workload under other locales (the description is the English record whatever the host speaks)
		vs := []string{"env:LANG=de_DE.UTF-8+env:LC_ALL=de_DE.UTF-8@4", "env:LANG=ja_JP.UTF-8+env:LC_MESSAGES=fr_FR.UTF-8+env:TZ=Asia/Tokyo@3"}
		for _, v := range vs {
			r.RunVariantChild(v, 10*time.Minute, false)
		}
		r.Obs("fresh_process_environments", vs)
	}
	c17Twins(r)
	// real profiles embedded in the repository's test images
	real := 0
	for _, rf := range realFiles() {
		res := loadWith("autometa", bytes.NewReader(rf.Bytes))
		if res.MD == nil {
			continue
		}
		data, err := iccDataOf(res.MD)
		if err != nil || data == nil {
			continue
		}
		real++
		p, perr, pan := readProfile(bytes.NewReader(data))
		r.AddEvals(1)
		if pan != nil || perr != nil {
			r.Violate("real", "real-profile", fmt.Sprintf("%s: embedded real profile fails to read: %v %v", rf.Name, perr, pan), c17Case{Name: rf.Name, Profile: base64.StdEncoding.EncodeToString(data), HasDesc: false, Via: "direct"})
			continue
		}
		d, derr, dpan := description(p)
		if dpan != nil || derr != nil || d == "" {
			r.Violate("real", "real-profile", fmt.Sprintf("%s: description of embedded real profile: %q %v %v", rf.Name, d, derr, dpan), c17Case{Name: rf.Name, Profile: base64.StdEncoding.EncodeToString(data), HasDesc: false, Via: "direct"})
		}
	}
	r.Obs("real_profiles_read", real)
}

// c17Twins: pairs of descriptions that a cache keyed on less than the whole string cannot tell
// apart - same length and the same 32-bit hash (FNV-1, FNV-1a, CRC-32 IEEE and Castagnoli, Adler-32,
// found by a birthday search over seeded strings, on the UTF-16BE bytes and on the text), same
// length with equal first and last eight characters, one a prefix of the other - read one after
// the other in one process (A, B, A); and profiles whose tag data is several MiB (5, 17, 33 MiB:
// a size cap on "plausible" tag data must not reject a well-formed profile).
func c17Twins(r *core.Run) {
	rg := core.NewRNG(r.Seed, "C17", "twins")
	type pair struct{ why, a, b string }
	var pairs []pair
	const L = 10
	mk := func() string {
		b := make([]byte, L)
		for i := range b {
			b[i] = byte('a' + rg.Intn(26))
		}
		return string(b)
	}
	strs := make([]string, 1<<18)
	for i := range strs {
		strs[i] = mk()
	}
	utf16be := func(s string) []byte {
		out := make([]byte, 0, 2*len(s))
		for _, c := range []byte(s) {
			out = append(out, 0, c)
		}
		return out
	}
	hashes := map[string]func([]byte) uint32{
		"FNV-1a":   func(b []byte) uint32 { h := fnv.New32a(); h.Write(b); return h.Sum32() },
		"FNV-1":    func(b []byte) uint32 { h := fnv.New32(); h.Write(b); return h.Sum32() },
		"CRC-32":   crc32.ChecksumIEEE,
		"CRC-32C":  func(b []byte) uint32 { return crc32.Checksum(b, crc32.MakeTable(crc32.Castagnoli)) },
		"Adler-32": adler32.Checksum,
	}
	names := []string{"FNV-1a", "FNV-1", "CRC-32", "CRC-32C", "Adler-32"}
	for _, hn := range names {
		for _, form := range []string{"UTF-16BE bytes", "text"} {
			seen := make(map[uint32]int32, len(strs))
			found := 0
			for i, s := range strs {
				b := []byte(s)
				if form == "UTF-16BE bytes" {
					b = utf16be(s)
				}
				h := hashes[hn](b)
				if j, ok := seen[h]; ok && strs[j] != s {
					pairs = append(pairs, pair{fmt.Sprintf("equal length and equal %s of the %s", hn, form), strs[j], s})
					found++
					if found >= 2 {
						break
					}
				} else {
					seen[h] = int32(i)
				}
			}
		}
	}
	for k := 0; k < 6; k++ {
		a := mk() + mk() + mk()
		b := a[:8] + mk()[:6] + a[14:]
		pairs = append(pairs, pair{"equal length, equal first and last eight characters", a, b}, pair{"one is a prefix of the other", a, a[:12+k]})
	}
	r.Obs("twin_description_pairs", len(pairs))
	build := func(txt string, mluc bool) ([]byte, []string) {
		var data []byte
		if mluc {
			u := make([]uint16, len(txt))
			for i, c := range []byte(txt) {
				u[i] = uint16(c)
			}
			data, _ = imggen.Mluc([]imggen.MlucRecord{{Lang: "en", Country: "US", Text: u}}, nil, 0, 12)
		} else {
			data = imggen.TextDescription(txt)
		}
		b, _ := imggen.ICCSpec{Header: imggen.MinimalHeader(mluc), Tags: []imggen.ICCTag{{Sig: "desc", Data: data}, {Sig: "cprt", Data: []byte{1, 2, 3, 4}}}}.Build()
		return b, []string{txt}
	}
	for pi, pr := range pairs {
		for _, mluc := range []bool{true, false} {
			pa, aa := build(pr.a, mluc)
			pb, ab := build(pr.b, mluc)
			if pi%2 == 0 && len(pa) >= 128 && len(pb) >= 128 {
				// the same non-zero profile ID (and creation date) in both headers: a description edited
				// without recomputing the ID, a writer that stamps a constant
				id := []byte{0xde, 0xad, 0xbe, 0xef, 1, 2, 3, 4, 5, 6, 7, 8, 9, 10, 11, byte(pi)}
				copy(pa[84:100], id)
				copy(pb[84:100], id)
			}
			for step, x := range []struct {
				p []byte
				a []string
			}{{pa, aa}, {pb, ab}, {pa, aa}} {
				kind, msg := c17Check(x.p, x.a, true, "direct")
				r.AddEvals(1)
				if kind != "" {
					r.Violate("profile", kind+"/twins", fmt.Sprintf("two profiles whose descriptions have %s (%q, %q), read one after the other; read #%d: %s", pr.why, pr.a, pr.b, step+1, msg),
						map[string]any{"a": base64.StdEncoding.EncodeToString(pa), "b": base64.StdEncoding.EncodeToString(pb), "why": pr.why})
					break
				}
			}
		}
	}
	// several MiB of tag data
	for _, n := range []int{5 << 20, 17 << 20, 33<<20 + 5} {
		for _, first := range []bool{true, false} {
			tags := []imggen.ICCTag{{Sig: "desc", Data: imggen.TextDescription("large profile")}, {Sig: "A2B0", Data: rg.Bytes(n)}}
			if !first {
				tags[0], tags[1] = tags[1], tags[0]
			}
			b, _ := imggen.ICCSpec{Header: imggen.MinimalHeader(false), Tags: tags}.Build()
			kind, msg := c17Check(b, []string{"large profile"}, true, "direct")
			r.AddEvals(1)
			if kind != "" {
				r.Violate("profile", kind+"/large", fmt.Sprintf("well-formed profile with a %d-byte tag (desc %s it): %s", n, map[bool]string{true: "before", false: "after"}[first], msg), map[string]any{"tag_bytes": n, "desc_first": first, "seed": r.Seed})
			}
		}
	}
}

// lenNowReader: Read / ReadByte deliver the data through a window of at most 1000 bytes that is
// refilled when empty; Len() is the number of bytes in the window at this moment.
type lenNowReader struct {
	data []byte
	pos  int
	win  int
}

func (l *lenNowReader) fill() {
	if l.win == 0 {
		l.win = len(l.data) - l.pos
		if l.win > 1000 {
			l.win = 1000
		}
	}
}
func (l *lenNowReader) Len() int { return l.win }
func (l *lenNowReader) Read(p []byte) (int, error) {
	if l.pos >= len(l.data) {
		return 0, io.EOF
	}
	l.fill()
	n := len(p)
	if n > l.win {
		n = l.win
	}
	copy(p, l.data[l.pos:l.pos+n])
	l.pos += n
	l.win -= n
	return n, nil
}
func (l *lenNowReader) ReadByte() (byte, error) {
	var b [1]byte
	if n, err := l.Read(b[:]); n == 0 {
		return 0, err
	}
	return b[0], nil
}

func replayC17(stage string, raw json.RawMessage) (bool, string, error) {
	var cs c17Case
	if err := json.Unmarshal(raw, &cs); err != nil {
		return false, "", err
	}
	b, err := base64.StdEncoding.DecodeString(cs.Profile)
	if err != nil {
		return false, "", err
	}
	kind, msg := c17Check(b, cs.Accept, cs.HasDesc, cs.Via)
	return kind != "", msg, nil
}

func init() {
	core.Register(&core.Property{ID: "C17", Level: "exploration", Run: runC17, Replay: replayC17, Child: variantChild("C17", "exploration", runC17)})
}
