//go:build all || c05 || c06 || c08 || c19

package props

import (
	"bytes"
	"encoding/base64"
	"encoding/json"
	"fmt"
	"github.com/mandykoh/prism/meta"
	"io"
	"os"
	"path/filepath"
	"sync/atomic"

	"verifharness/internal/core"
	"verifharness/internal/imggen"
)

// C05 — width/height/depth/format equal the header's.

type c05Case struct {
	Name   string       `json:"name"`
	Truth  imggen.Truth `json:"truth"`
	Loader string       `json:"loader"`
	File   string       `json:"file_base64,omitempty"`
	Path   string       `json:"file_path,omitempty"` // inputs above 1 MiB are written beside the replay file
}

type c05Stats struct {
	confirmed, generatorOnly int64
}

// c05Check loads one generated file through the specific and the auto loader.
// It returns the first violation; harness disagreements (generator vs standard
// decoder) are returned as harnessErr.
func c05Check(f genFile) (kind, msg, loader string, confirmed bool, harnessErr string) {
	w, h, ok := stdConfig(f.Truth.Format, f.Bytes)
	if ok {
		confirmed = true
		if uint32(w) != f.Truth.W || uint32(h) != f.Truth.H {
			return "", "", "", true, fmt.Sprintf("generator says %dx%d but the standard decoder reads %dx%d for %s", f.Truth.W, f.Truth.H, w, h, f.Name)
		}
	}
	// the kind of reader the bytes are handed over in is a function of the bytes (so that a replay
	// uses the same one): plain, positioned at an offset inside a larger reader, buffered, ...
	rk := int(fnv64(f.Bytes) % uint64(len(readerKindNames)))
	for li, loader := range []string{loaderFor(f.Truth.Format), "autometa"} {
		res := loadWith(loader, readerOfKind(f.Bytes, rk+li))
		via := readerKindNames[(rk+li)%len(readerKindNames)]
		if res.Panic != nil {
			return "panic", fmt.Sprintf("%s.Load panicked on well-formed %s (read from a %s): %v", loader, f.Name, via, res.Panic), loader, confirmed, ""
		}
		if res.Err != nil || res.MD == nil {
			return "rejected", fmt.Sprintf("%s.Load failed on well-formed %s (%dx%d depth %d, read from a %s): %v", loader, f.Name, f.Truth.W, f.Truth.H, f.Truth.Depth, via, res.Err), loader, confirmed, ""
		}
		md := res.MD
		if string(md.Format) != f.Truth.Format || md.PixelWidth != f.Truth.W || md.PixelHeight != f.Truth.H || md.BitsPerComponent != f.Truth.Depth {
			return "mismatch", fmt.Sprintf("%s.Load of %s reports %s %dx%d depth %d; the header says %s %dx%d depth %d", loader, f.Name,
				md.Format, md.PixelWidth, md.PixelHeight, md.BitsPerComponent, f.Truth.Format, f.Truth.W, f.Truth.H, f.Truth.Depth), loader, confirmed, ""
		}
	}
	return "", "ok", "", confirmed, ""
}

// hookReader delivers data[:cut], then calls hook once, then delivers the rest.
type hookReader struct {
	data []byte
	cut  int
	pos  int
	hook func()
}

func (h *hookReader) Read(p []byte) (int, error) {
	if h.pos >= len(h.data) {
		return 0, io.EOF
	}
	end := len(h.data)
	if h.pos < h.cut {
		end = h.cut
	} else if h.hook != nil {
		f := h.hook
		h.hook = nil
		f()
	}
	n := copy(p, h.data[h.pos:end])
	h.pos += n
	return n, nil
}

func c05PNG(name string, w, h uint32, ct, depth, il uint8, rng *core.RNG, anc int) genFile {
	s := pngSpecFor(w, h, ct, depth, il, rng)
	s.Pre = randAncillary(rng, anc, false)
	if rng.Intn(3) == 0 {
		s.Pre = append(s.Pre, colourChunks(rng, ct)...)
	}
	if rng.Intn(4) == 0 {
		s.ICC = &imggen.PNGICC{Name: latin1(rng, 1+rng.Intn(79)), Profile: profileBytes(rng, 1+rng.Intn(600), rng.Intn(3)), Level: rng.Range(-2, 9)}
		if rng.Intn(3) == 0 { // the zlib header declares a smaller window than Go's writer does
			s.ICC.RawStream = zlibWindow(imggen.Deflate(s.ICC.Profile, s.ICC.Level), len(s.ICC.Profile), rng.Intn(8))
		}
	}
	if rng.Intn(3) == 0 {
		s.Post = append(s.Post, randAncillary(rng, 2, false)...)
	}
	b, t := s.Build()
	return genFile{fmt.Sprintf("%s png %dx%d ct%d d%d il%d", name, w, h, ct, depth, il), b, t}
}

func c05JPEG(name string, w, h int, prog bool, ncomp int, samp [2]byte, rng *core.RNG, segs int) genFile {
	s := imggen.JPEGSpec{Progressive: prog, Precision: 8, W: w, H: h, Comps: imggen.StdComps(ncomp, samp[0], samp[1]), Entropy: rng.Bytes(rng.Intn(30))}
	for i := range s.Entropy {
		if s.Entropy[i] == 0xFF {
			s.Entropy[i] = 0x7F
		}
	}
	s.Before = randJPEGSegs(rng, segs, false)
	if rng.Intn(3) == 0 {
		s.After = randJPEGSegs(rng, 2, false)
	}
	if rng.Intn(8) == 0 {
		// an ICC_PROFILE APP2 segment whose sequence number or total is out of range (0 of n, n+1 of n,
		// 1 of 0): the profile is damaged, the frame header is as good as ever
		nums := [][2]byte{{0, 1}, {0, 3}, {2, 1}, {1, 0}, {255, 254}, {0, 0}}[rng.Intn(6)]
		pl := append(append([]byte("ICC_PROFILE\x00"), nums[0], nums[1]), rng.Bytes(1+rng.Intn(40))...)
		s.Before = append(s.Before, imggen.JPEGSeg{Marker: 0xE2, Payload: pl, Name: "APP2-ICC-out-of-range"})
	}
	if !prog {
		// a baseline frame may only use table destinations 0 and 1
		for _, list := range [][]imggen.JPEGSeg{s.Before, s.After} {
			for _, sg := range list {
				if sg.Marker != 0xC4 {
					continue
				}
				for o := 0; o+17 <= len(sg.Payload); {
					sg.Payload[o] &= 0x11
					n := 0
					for _, c := range sg.Payload[o+1 : o+17] {
						n += int(c)
					}
					o += 17 + n
				}
			}
		}
	}
	b, t := s.Build()
	return genFile{fmt.Sprintf("%s jpeg %dx%d prog=%v comps=%d samp=%v", name, w, h, prog, ncomp, samp), b, t}
}

func c05WebP(name, kind string, w, h uint32, rng *core.RNG, flags uint8) genFile {
	s := imggen.WebPSpec{Kind: kind, W: w, H: h, Payload: rng.Bytes(rng.Intn(24))}
	switch kind {
	case "VP8":
		s.XScale, s.YScale = uint8(rng.Intn(4)), uint8(rng.Intn(4))
		if rng.Intn(3) > 0 { // any profile 0..3, shown or hidden frame, any first-partition size
			s.FrameTag = [3]byte{byte(rng.Intn(4))<<1 | byte(rng.Intn(2))<<4 | byte(rng.Intn(8))<<5, byte(rng.Intn(256)), byte(rng.Intn(256))}
			if s.FrameTag == [3]byte{} {
				s.FrameTag[1] = 1
			}
		}
	case "VP8L":
		s.Alpha = rng.Bool()
	case "VP8X":
		s.Flags, s.FlagsRaw = flags, false
		if flags&(1<<5) != 0 {
			s.ICC = profileBytes(rng, 1+rng.Intn(300), rng.Intn(3))
		}
		// further chunks after the header (and the profile): Exif with its own dimension and
		// orientation tags, XMP, animation frames with their own sizes
		if rng.Intn(3) == 0 {
			fr := append(append(rng.Bytes(6), byte(rng.Intn(256)), byte(rng.Intn(256)), byte(rng.Intn(256))), rng.Bytes(7)...)
			s.Extra = [][2]any{{"EXIF", tiffExif(rng)}, {"XMP ", []byte("<x:xmpmeta><tiff:ImageWidth>17</tiff:ImageWidth></x:xmpmeta>")}, {"ANIM", []byte{0, 0, 0, 0, 0, 0}}, {"ANMF", fr}}[rng.Intn(4):]
		}
	}
	b, t := s.Build()
	return genFile{fmt.Sprintf("%s webp %s %dx%d flags=%#x xs=%d ys=%d", name, kind, w, h, flags, s.XScale, s.YScale), b, t}
}

func runC05(r *core.Run) {
	r.Rule = "generated well-formed PNG (all colour-type/depth pairs x interlace x boundary dims x random ancillary chunk sequences), JPEG (SOF0/SOF2 x 1/3/4 components x sampling factors x boundary dims x random APPn/COM/DQT/DHT/DRI prefixes) and WebP (VP8 with all scaling bits, VP8L, VP8X with all 256 flag bytes) + real files + real encoder output, each through the specific and the auto loader; thorough sweeps each header field exhaustively; non-trivial = distinct (format, w, h, depth) with w != h and a bit above bit 10 set in one of them"
	r.Assumptions = []string{"generator ground truth, cross-checked by image/png, image/jpeg and x/image/webp DecodeConfig wherever the decoder accepts the file"}
	var confirmed, genOnly, total atomic.Int64
	one := func(f genFile) {
		kind, msg, loader, conf, herr := c05Check(f)
		total.Add(1)
		if conf {
			confirmed.Add(1)
		} else {
			genOnly.Add(1)
		}
		if herr != "" {
			r.Inconclusive("harness: " + herr)
			return
		}
		t := f.Truth
		if t.W != t.H && (t.W|t.H) >= 2048 {
			r.NTHash(mix(mix(uint64(len(t.Format))<<32|uint64(t.Depth), uint64(t.W)), uint64(t.H)))
		}
		if kind != "" {
			cs := c05Case{Name: f.Name, Truth: t, Loader: loader}
			if len(f.Bytes) <= 1<<20 {
				cs.File = base64.StdEncoding.EncodeToString(f.Bytes)
			} else {
				dir := filepath.Join(core.OutDir(), "replays", r.Prop)
				_ = os.MkdirAll(dir, 0o755)
				cs.Path = filepath.Join(dir, fmt.Sprintf("witness-%016x.bin", fnv64(f.Bytes)))
				_ = os.WriteFile(cs.Path, f.Bytes, 0o644)
			}
			r.Violate("file", t.Format+"/"+loader+"/"+kind+"/"+c05Class(f), msg, cs)
		}
	}
	rng := core.NewRNG(r.Seed, "C05")
	// PNG boundary matrix
	pngDims := []uint32{1, 2, 255, 256, 65535, 65536, 1<<24 - 1, 1 << 24, 1<<24 + 1, 1<<31 - 1}
	for _, td := range pngTypeDepths {
		for il := uint8(0); il < 2; il++ {
			for _, w := range pngDims {
				for _, h := range pngDims {
					one(c05PNG("boundary", w, h, td[0], td[1], il, rng, 3))
				}
			}
		}
	}
	nrand := 20000
	if r.Thorough() {
		nrand = 700000
	}
	shards := 32
	core.ParallelFor(shards, 16, func(sh int) {
		rng := core.NewRNG(r.Seed, "C05", "png", fmt.Sprint(sh))
		for i := 0; i < nrand/shards; i++ {
			td := core.Pick(rng, pngTypeDepths)
			w, h := uint32(1+rng.U32()%(1<<31-1)), uint32(1+rng.U32()%(1<<31-1))
			if i%2 == 0 {
				w, h = uint32(1+rng.Intn(70000)), uint32(1+rng.Intn(70000))
			}
			one(c05PNG("random", w, h, td[0], td[1], uint8(rng.Intn(2)), rng, 6))
		}
	})
	// JPEG boundary matrix
	jdims := []int{1, 255, 256, 257, 32767, 32768, 65535}
	for _, prog := range []bool{false, true} {
		for _, nc := range []int{1, 3, 4} {
			for _, sp := range jpegSamplings {
				for _, w := range jdims {
					for _, h := range jdims {
						one(c05JPEG("boundary", w, h, prog, nc, sp, rng, 3))
					}
				}
			}
		}
	}
	core.ParallelFor(shards, 16, func(sh int) {
		rng := core.NewRNG(r.Seed, "C05", "jpeg", fmt.Sprint(sh))
		for i := 0; i < nrand/shards; i++ {
			one(c05JPEG("random", 1+rng.Intn(65535), 1+rng.Intn(65535), rng.Bool(), core.Pick(rng, []int{1, 3, 4}), core.Pick(rng, jpegSamplings), rng, 8))
		}
	})
	// WebP
	d14 := []uint32{1, 2, 255, 256, 257, 4095, 4096, 8191, 8192, 16383}
	for _, w := range d14 {
		for _, h := range d14 {
			for k := 0; k < 4; k++ {
				one(c05WebP("boundary", "VP8", w, h, rng, 0))
			}
			one(c05WebP("boundary", "VP8L", w, h, rng, 0))
			if w < 16383 && h < 16383 {
				one(c05WebP("boundary", "VP8L", w+1, h+1, rng, 0))
			}
		}
	}
	d24 := []uint32{1, 2, 256, 65535, 65536, 65537, 1<<24 - 1, 1 << 24}
	for fl := 0; fl < 256; fl++ {
		for _, w := range d24 {
			h := d24[(fl+int(w))%len(d24)]
			one(c05WebP("boundary", "VP8X", w, h, rng, uint8(fl)))
		}
	}
	core.ParallelFor(shards, 16, func(sh int) {
		rng := core.NewRNG(r.Seed, "C05", "webp", fmt.Sprint(sh))
		for i := 0; i < nrand/shards; i++ {
			switch i % 3 {
			case 0:
				one(c05WebP("random", "VP8", uint32(1+rng.Intn(16383)), uint32(1+rng.Intn(16383)), rng, 0))
			case 1:
				one(c05WebP("random", "VP8L", uint32(1+rng.Intn(16384)), uint32(1+rng.Intn(16384)), rng, 0))
			case 2:
				one(c05WebP("random", "VP8X", uint32(1+rng.Intn(1<<24)), uint32(1+rng.Intn(1<<24)), rng, uint8(rng.Intn(256))))
			}
		}
	})
	// files carrying embedded profiles in every placement / order / damage class of C06: whatever
	// happens to the profile, the basic metadata is the header's
	{
		gens := c06Files(r.Seed, false)
		core.ParallelFor(len(gens), 16, func(i int) {
			if i%2 != 0 {
				return
			}
			if f, ok := gens[i](); ok && len(f.Bytes) < 300000 {
				g := f.genFile
				g.Name = "with-profile: " + g.Name
				one(g)
			}
		})
	}
	// interleaved loads: the source of one load, at a chosen offset, performs a complete load of
	// another file before it delivers the rest (what two goroutines, or a streaming source, do to
	// each other - here at every offset of the first 72 bytes, deterministically). State shared
	// between loads (a package-level scratch buffer) shows as the other file's values.
	{
		rg := core.NewRNG(r.Seed, "C05", "interleaved")
		mk := func(i int) []genFile {
			return []genFile{
				c05WebP("interleaved", "VP8", uint32(100+i*37), uint32(900-i*41), rg, 0),
				c05WebP("interleaved", "VP8L", uint32(300+i*11), uint32(70+i*13), rg, 0),
				c05WebP("interleaved", "VP8X", uint32(5000+i), uint32(6000-i), rg, uint8(i)),
				c05PNG("interleaved", uint32(640+i), uint32(480-i), 2, 8, 0, rg, 1),
				c05JPEG("interleaved", 800+i, 600-i, i%2 == 0, 3, jpegSamplings[0], rg, 1),
			}
		}
		as, bs := mk(1), mk(2)
		var n int64
		for ai, a := range as {
			for bi, b := range bs {
				if bi != ai && bi != (ai+1)%len(bs) {
					continue
				}
				for cut := 1; cut <= 72 && cut < len(a.Bytes); cut++ {
					for _, loader := range []string{loaderFor(a.Truth.Format), "autometa"} {
						hr := &hookReader{data: a.Bytes, cut: cut, hook: func() {
							_ = loadWith(loaderFor(b.Truth.Format), bytes.NewReader(b.Bytes))
							_ = loadWith("autometa", bytes.NewReader(b.Bytes))
						}}
						res := loadWith(loader, hr)
						n++
						md := res.MD
						if res.Panic != nil || res.Err != nil || md == nil || md.PixelWidth != a.Truth.W || md.PixelHeight != a.Truth.H || md.BitsPerComponent != a.Truth.Depth || string(md.Format) != a.Truth.Format {
							r.Violate("file", a.Truth.Format+"/"+loader+"/interleaved", fmt.Sprintf("%s.Load of %s (%dx%d) whose source, after delivering %d bytes, loaded %s (%dx%d) before delivering the rest: got %s", loader, a.Name, a.Truth.W, a.Truth.H, cut, b.Name, b.Truth.W, b.Truth.H, sumStr(summarise(res))),
								map[string]any{"a": base64.StdEncoding.EncodeToString(a.Bytes), "b": base64.StdEncoding.EncodeToString(b.Bytes), "cut": cut, "loader": loader})
							break
						}
					}
				}
			}
		}
		total.Add(n)
		// what a caller keeps: the metadata of the last three files is looked at again after every further
		// load (the values belong to the file they were read from, whatever is loaded afterwards)
		{
			rg := core.NewRNG(r.Seed, "C05", "kept")
			type keptMD struct {
				md *meta.Data
				f  genFile
			}
			var kept []keptMD
			var n int64
			for i := 0; i < 450; i++ {
				var f genFile
				switch i % 3 {
				case 0:
					td := core.Pick(rg, pngTypeDepths)
					f = c05PNG("kept", uint32(1+rg.Intn(9000)), uint32(1+rg.Intn(9000)), td[0], td[1], 0, rg, 2)
				case 1:
					f = c05JPEG("kept", 1+rg.Intn(9000), 1+rg.Intn(9000), rg.Bool(), 3, [2]byte{1, 1}, rg, 2)
				default:
					f = c05WebP("kept", core.Pick(rg, []string{"VP8", "VP8L", "VP8X"}), uint32(1+rg.Intn(9000)), uint32(1+rg.Intn(9000)), rg, uint8(rg.Intn(256)))
				}
				loader := loaderFor(f.Truth.Format)
				if i%2 == 1 {
					loader = "autometa"
				}
				res := loadWith(loader, bytes.NewReader(f.Bytes))
				n++
				if res.Panic != nil || res.Err != nil || res.MD == nil {
					continue // the per-file stages report that
				}
				for _, k := range kept {
					if string(k.md.Format) != k.f.Truth.Format || k.md.PixelWidth != k.f.Truth.W || k.md.PixelHeight != k.f.Truth.H || k.md.BitsPerComponent != k.f.Truth.Depth {
						r.Violate("file", k.f.Truth.Format+"/kept-metadata-changed", fmt.Sprintf("the metadata kept from %s now reads %s %dx%d depth %d after %s.Load of %s; its header says %s %dx%d depth %d", k.f.Name, k.md.Format, k.md.PixelWidth, k.md.PixelHeight, k.md.BitsPerComponent, loader, f.Name, k.f.Truth.Format, k.f.Truth.W, k.f.Truth.H, k.f.Truth.Depth),
							c05Case{Name: k.f.Name, File: base64.StdEncoding.EncodeToString(k.f.Bytes), Truth: k.f.Truth})
						kept = nil
						break
					}
				}
				kept = append(kept, keptMD{res.MD, f})
				if len(kept) > 3 {
					kept = kept[1:]
				}
			}
			r.AddEvals(n)
			r.Obs("files_whose_metadata_was_kept_across_later_loads", n)
		}
		r.Obs("interleaved_load_cases", n)
	}
	// frame headers with any legal number of components (Nf = 1 .. 255; the frame-header length is
	// 8 + 3 Nf, up to 773): the standard decoders support only 1, 3 and 4, the header is still the header
	for _, nc := range []int{2, 5, 10, 42, 83, 84, 85, 86, 127, 128, 170, 171, 254, 255} {
		for _, prog := range []bool{false, true} {
			one(c05JPEG("many-components", 100+nc, 3000-nc, prog, nc, jpegSamplings[0], rng, 2))
		}
	}
	// JPEG with zero lines in the frame header (legal with a DNL segment, ITU T.81 B.2.5)
	for _, w := range []int{1, 640, 65535} {
		one(c05JPEG("dnl-height-0", w, 0, w%2 == 0, 3, jpegSamplings[0], rng, 2))
	}
	// structures straddling the loaders' read-ahead buffer; segments and chunks above 32 KiB
	for _, f := range boundaryFiles(r.Seed, true) {
		one(f)
	}
	// needed structures behind, or consisting of, several MiB
	{
		big := bigFiles(r.Seed)
		core.ParallelFor(len(big), 4, func(i int) { one(big[i]) })
		r.Obs("multi_megabyte_files", len(big))
	}
	if r.Thorough() {
		c05Sweeps(r, rng, one)
	}
	// real files and real encoder output: ground truth is the standard decoder
	for _, rf := range append(realFiles(), encodedSamples(rng, 60)...) {
		if rf.Format == "" {
			continue
		}
		w, h, ok := stdConfig(rf.Format, rf.Bytes)
		if !ok {
			continue
		}
		for _, loader := range []string{loaderFor(rf.Format), "autometa"} {
			res := loadWith(loader, bytes.NewReader(rf.Bytes))
			total.Add(1)
			confirmed.Add(1)
			s := summarise(res)
			if !s.OK || s.Format != rf.Format || int(s.W) != w || int(s.H) != h {
				r.Violate("real", rf.Format+"/"+loader+"/real", fmt.Sprintf("%s via %s: got %+v, standard decoder says %dx%d", rf.Name, loader, s, w, h),
					c05Case{Name: rf.Name, Loader: loader, Truth: imggen.Truth{Format: rf.Format, W: uint32(w), H: uint32(h)}, File: base64.StdEncoding.EncodeToString(rf.Bytes)})
			}
		}
	}
	r.AddEvals(total.Load())
	r.Obs("confirmed_by_standard_decoder", confirmed.Load())
	r.Obs("generator_only", genOnly.Load())
	ex := c05PNG("sample", 640, 480, 6, 8, 0, core.NewRNG(1, "s"), 2)
	r.Sample(map[string]any{"name": ex.Name, "bytes": len(ex.Bytes), "truth": ex.Truth})
	ex = c05WebP("sample", "VP8", 4660, 1400, core.NewRNG(1, "s"), 0)
	r.Sample(map[string]any{"name": ex.Name, "bytes": len(ex.Bytes), "hex": fmt.Sprintf("%x", ex.Bytes)})
}

func c05Class(f genFile) string {
	if len(f.Name) > 8 && f.Name[:8] == "boundary" {
		return "boundary"
	}
	return "gen"
}

// c05Sweeps: each header field swept exhaustively with the other at 5 values.
func c05Sweeps(r *core.Run, _ *core.RNG, one func(genFile)) {
	blocks := 256
	core.ParallelFor(blocks, 16, func(bk int) {
		rng := core.NewRNG(r.Seed, "C05", "sweep", fmt.Sprint(bk))
		others14 := []uint32{1, 100, 4097, 8192, 16383}
		for v := uint32(1 + bk); v <= 16384; v += uint32(blocks) {
			for _, o := range others14 {
				if v <= 16383 {
					one(c05WebP("sweep", "VP8", v, o, rng, 0))
					one(c05WebP("sweep", "VP8", o, v, rng, 0))
				}
				one(c05WebP("sweep", "VP8L", v, o, rng, 0))
				one(c05WebP("sweep", "VP8L", o, v, rng, 0))
			}
		}
		others24 := []uint32{1, 65536, 1 << 24}
		for v := uint32(1 + bk); v <= 1<<24; v += uint32(blocks) {
			o := others24[v%3]
			one(c05WebP("sweep", "VP8X", v, o, rng, uint8(v)))
			one(c05WebP("sweep", "VP8X", o, v, rng, uint8(v>>8)))
		}
		for v := 1 + bk; v <= 65535; v += blocks {
			for _, o := range []int{1, 257, 32768, 65535} {
				one(c05JPEG("sweep", v, o, v%2 == 0, []int{1, 3, 4}[v%3], jpegSamplings[v%4], rng, 1))
				one(c05JPEG("sweep", o, v, v%2 == 1, []int{1, 3, 4}[v%3], jpegSamplings[v%4], rng, 1))
			}
		}
		// PNG: each 16-bit half of each field swept, the other half at 3 values
		for v := uint32(bk); v < 65536; v += uint32(blocks) {
			for _, hi := range []uint32{0, 1, 0x7fff} {
				w := hi<<16 | v
				if w == 0 {
					continue
				}
				td := pngTypeDepths[v%uint32(len(pngTypeDepths))]
				one(c05PNG("sweep", w, 1+v%977, td[0], td[1], uint8(v&1), rng, 1))
				one(c05PNG("sweep", 1+v%977, w, td[0], td[1], uint8(v&1), rng, 1))
			}
			for _, lo := range []uint32{0, 1, 0xffff} {
				w := (v&0x7fff)<<16 | lo
				if w == 0 {
					continue
				}
				td := pngTypeDepths[v%uint32(len(pngTypeDepths))]
				one(c05PNG("sweep", w, 3, td[0], td[1], 0, rng, 0))
				one(c05PNG("sweep", 3, w, td[0], td[1], 0, rng, 0))
			}
		}
	})
}

func replayC05(stage string, raw json.RawMessage) (bool, string, error) {
	var cs c05Case
	if err := json.Unmarshal(raw, &cs); err != nil {
		return false, "", err
	}
	b, err := base64.StdEncoding.DecodeString(cs.File)
	if err != nil {
		return false, "", err
	}
	if cs.File == "" && cs.Path != "" {
		if b, err = os.ReadFile(cs.Path); err != nil {
			return false, "", err
		}
	}
	if stage == "real" {
		res := loadWith(cs.Loader, bytes.NewReader(b))
		s := summarise(res)
		bad := !s.OK || s.Format != cs.Truth.Format || s.W != cs.Truth.W || s.H != cs.Truth.H
		return bad, fmt.Sprintf("%+v", s), nil
	}
	kind, msg, _, _, herr := c05Check(genFile{cs.Name, b, cs.Truth})
	if herr != "" {
		return false, "", fmt.Errorf("%s", herr)
	}
	return kind != "", msg, nil
}

func init() {
	core.Register(&core.Property{ID: "C05", Level: "exploration", Run: runC05, Replay: replayC05})
}
