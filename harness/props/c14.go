//go:build all || c14

package props

import (
	"encoding/json"
	"fmt"
	"image"
	"image/color"
	"image/draw"
	"math"
	"strings"
	"time"

	"github.com/mandykoh/prism/linear"

	"verifharness/internal/core"
)

// C14 — alpha passes through; linearised pixels stay validly premultiplied.

type c14Case struct {
	Space string    `json:"space"`
	Entry string    `json:"entry"`
	In    [4]uint16 `json:"in"`
	Type  string    `json:"type,omitempty"`
	Alpha float32   `json:"alpha_f32,omitempty"`
}

func c14Color(t string, in [4]uint16) color.Color {
	switch t {
	case "NRGBA64":
		return color.NRGBA64{R: in[0], G: in[1], B: in[2], A: in[3]}
	case "RGBA":
		return color.RGBA{R: uint8(in[0]), G: uint8(in[1]), B: uint8(in[2]), A: uint8(in[3])}
	case "NRGBA":
		return color.NRGBA{R: uint8(in[0]), G: uint8(in[1]), B: uint8(in[2]), A: uint8(in[3])}
	}
	return color.RGBA64{R: in[0], G: in[1], B: in[2], A: in[3]}
}

func finiteRGB(c linear.RGB) bool { return finite3(c.R, c.G, c.B) }

// c14Check evaluates one case of any entry.
func c14Check(cs c14Case) (bad bool, msg string) {
	s := spaceByName(cs.Space)
	defer func() {
		if p := recover(); p != nil {
			bad, msg = true, fmt.Sprintf("%s %s panicked on %+v: %v", cs.Space, cs.Entry, cs, p)
		}
	}()
	in := c14Color(cs.Type, cs.In)
	_, _, _, a32 := in.RGBA()
	switch cs.Entry {
	case "LineariseColor", "EncodeColor":
		f := s.Linearise
		if cs.Entry == "EncodeColor" {
			f = s.Encode
		}
		o := f(in)
		if uint32(o.A) != a32 {
			return true, fmt.Sprintf("%s %s(%T%v): alpha %d became %d", cs.Space, cs.Entry, in, in, a32, o.A)
		}
		if a32 == 0 && o != (color.RGBA64{}) {
			return true, fmt.Sprintf("%s %s(%T%v) = %v, want the zero colour for a transparent pixel", cs.Space, cs.Entry, in, in, o)
		}
		if cs.Entry == "LineariseColor" {
			r, g, b, _ := in.RGBA()
			if r <= a32 && g <= a32 && b <= a32 && (o.R > o.A || o.G > o.A || o.B > o.A) {
				return true, fmt.Sprintf("%s LineariseColor(%T%v) = %v is not validly premultiplied", cs.Space, in, in, o)
			}
		}
	case "ColorFromEncodedColor", "ColorFromLinearColor", "linear.RGBFromEncoded", "linear.RGBFromLinear":
		var c linear.RGB
		var a float32
		switch cs.Entry {
		case "ColorFromEncodedColor":
			c, a = s.FromEncoded(in)
		case "ColorFromLinearColor":
			c, a = s.FromLinearC(in)
		case "linear.RGBFromEncoded":
			c, a = linear.RGBFromEncoded(in, func(v uint16) float32 { return float32(v) / 65535 })
		case "linear.RGBFromLinear":
			c, a = linear.RGBFromLinear(in)
		}
		if want := float32(a32) / 65535; math.Float32bits(a) != math.Float32bits(want) {
			return true, fmt.Sprintf("%s %s(%T%v): alpha = %.9g, want exactly %d/65535 = %.9g", cs.Space, cs.Entry, in, in, a, a32, want)
		}
		if a32 == 0 && c != (linear.RGB{}) {
			return true, fmt.Sprintf("%s %s(%T%v) = %v, want the zero colour", cs.Space, cs.Entry, in, in, c)
		}
		if !finiteRGB(c) {
			return true, fmt.Sprintf("%s %s(%T%v) = %v is not finite", cs.Space, cs.Entry, in, in, c)
		}
	case "ColorFromRGBA":
		px := color.RGBA{R: uint8(cs.In[0]), G: uint8(cs.In[1]), B: uint8(cs.In[2]), A: uint8(cs.In[3])}
		c, a := s.FromRGBA(px)
		if want := float32(px.A) / 255; math.Float32bits(a) != math.Float32bits(want) {
			return true, fmt.Sprintf("%s ColorFromRGBA(%v): alpha = %.9g, want exactly %d/255", cs.Space, px, a, px.A)
		}
		if px.A == 0 && c != (linear.RGB{}) {
			return true, fmt.Sprintf("%s ColorFromRGBA(%v) = %v, want the zero colour", cs.Space, px, c)
		}
		if !finiteRGB(c) {
			return true, fmt.Sprintf("%s ColorFromRGBA(%v) = %v is not finite", cs.Space, px, c)
		}
	case "ColorFromNRGBA":
		px := color.NRGBA{R: uint8(cs.In[0]), G: uint8(cs.In[1]), B: uint8(cs.In[2]), A: uint8(cs.In[3])}
		c, a := s.FromNRGBA(px)
		if want := float32(px.A) / 255; math.Float32bits(a) != math.Float32bits(want) {
			return true, fmt.Sprintf("%s ColorFromNRGBA(%v): alpha = %.9g, want exactly %d/255", cs.Space, px, a, px.A)
		}
		if !finiteRGB(c) {
			return true, fmt.Sprintf("%s ColorFromNRGBA(%v) = %v is not finite", cs.Space, px, c)
		}
	case "opaque8":
		v := [3]uint8{uint8(cs.In[0]), uint8(cs.In[1]), uint8(cs.In[2])}
		c1, a1 := s.FromNRGBA(color.NRGBA{R: v[0], G: v[1], B: v[2], A: 255})
		c2, a2 := s.FromRGBA(color.RGBA{R: v[0], G: v[1], B: v[2], A: 255})
		c3, a3 := s.FromEncoded(color.NRGBA{R: v[0], G: v[1], B: v[2], A: 255})
		c4, a4 := s.FromEncoded(color.RGBA{R: v[0], G: v[1], B: v[2], A: 255})
		if c1 != c2 || c1 != c3 || c1 != c4 || a1 != 1 || a2 != 1 || a3 != 1 || a4 != 1 {
			return true, fmt.Sprintf("%s opaque %v: NRGBA %v/%v, RGBA %v/%v, generic(NRGBA) %v/%v, generic(RGBA) %v/%v disagree", cs.Space, v, c1, a1, c2, a2, c3, a3, c4, a4)
		}
	case "opaque-gray8": // a grey as color.Gray, color.NRGBA, color.RGBA and color.Gray16 / own type: one linear value
		v := uint8(cs.In[0])
		c0, a0 := s.FromNRGBA(color.NRGBA{R: v, G: v, B: v, A: 255})
		for name, c := range map[string]color.Color{"color.Gray": color.Gray{Y: v}, "color.Gray16": color.Gray16{Y: uint16(v) * 0x101}, "color.RGBA": color.RGBA{R: v, G: v, B: v, A: 255}, "color.YCbCr": color.YCbCr{Y: v, Cb: 128, Cr: 128}, "color.CMYK": color.CMYK{C: 0, M: 0, Y: 0, K: 255 - v}, "own16": own16c14{uint16(v) * 0x101}} {
			r16, g16, b16, a16 := c.RGBA()
			if a16 != 0xFFFF || r16 != uint32(v)*0x101 || g16 != r16 || b16 != r16 {
				continue // this carrier does not report exactly that grey (YCbCr / CMYK rounding): nothing to compare
			}
			c1, a1 := s.FromEncoded(c)
			if c1 != c0 || a1 != a0 || a1 != 1 {
				return true, fmt.Sprintf("%s opaque grey %d: ColorFromNRGBA gives %v/%v, ColorFromEncodedColor(%s) gives %v/%v", cs.Space, v, c0, a0, name, c1, a1)
			}
			l0 := s.Linearise(color.NRGBA{R: v, G: v, B: v, A: 255})
			if l1 := s.Linearise(c); l1 != l0 {
				return true, fmt.Sprintf("%s opaque grey %d: LineariseColor(color.NRGBA) = %v, LineariseColor(%s) = %v", cs.Space, v, l0, name, l1)
			}
		}
	case "opaque16":
		c1, a1 := s.FromEncoded(color.RGBA64{R: cs.In[0], G: cs.In[1], B: cs.In[2], A: 65535})
		c2, a2 := s.FromEncoded(color.NRGBA64{R: cs.In[0], G: cs.In[1], B: cs.In[2], A: 65535})
		if c1 != c2 || a1 != 1 || a2 != 1 {
			return true, fmt.Sprintf("%s opaque 16-bit %v: premultiplied %v/%v and non-premultiplied %v/%v constructors disagree", cs.Space, cs.In, c1, a1, c2, a2)
		}
	case "ToNRGBA", "ToRGBA", "ToRGBA64", "ToLinearRGBA64":
		// In[0] selects the colour: in gamut, out of gamut (components above 1 and below 0), black, huge
		c := []linear.RGB{{R: 0.25, G: 0.5, B: 0.75}, {R: 1.6, G: 0.5, B: 0.25}, {R: 2, G: 2, B: 2}, {R: -0.5, G: 0.3, B: 1.2}, {}, {R: 1, G: 1, B: 1}, {R: 1e6, G: 0, B: -1e6}}[int(cs.In[0])%7]
		a := cs.Alpha
		var got, max int
		switch cs.Entry {
		case "ToNRGBA":
			got, max = int(s.ToNRGBA(c, a).A), 255
		case "ToRGBA":
			got, max = int(s.ToRGBA(c, a).A), 255
		case "ToRGBA64":
			got, max = int(s.ToRGBA64(c, a).A), 65535
		case "ToLinearRGBA64":
			got, max = int(c.ToLinearRGBA64(a).A), 65535
		}
		if a != a {
			return false, "nan"
		}
		q := &c02Enc{"q", float64(max), 0, nil, nil}
		lo, hi := c02Bounds(q, float64(a), 0)
		if float64(got) < lo || float64(got) > hi {
			return true, fmt.Sprintf("%s %s(alpha %.9g): alpha written as %d, round(alpha*%d) clipped allows [%.3f, %.3f]", cs.Space, cs.Entry, a, got, max, lo, hi)
		}
	}
	return false, "ok"
}

// own16c14 is a caller-defined opaque grey.
type own16c14 struct{ y uint16 }

func (c own16c14) RGBA() (uint32, uint32, uint32, uint32) {
	return uint32(c.y), uint32(c.y), uint32(c.y), 0xFFFF
}

func c14Chans(a int, k int) uint16 {
	// channel samples <= a: boundaries 0, 1, a-1, a and 64 spread values
	switch k {
	case 0:
		return 0
	case 1:
		if a >= 1 {
			return 1
		}
		return 0
	case 2:
		if a >= 1 {
			return uint16(a - 1)
		}
		return 0
	case 3:
		return uint16(a)
	}
	return uint16(uint64(a) * uint64(k-3) / 65 * 1)
}

// c14Images: alpha identity through the image transforms (every 16-bit alpha
// once per image; the per-pixel model of the images is C10's business, here
// only the alpha channel and premultiplied validity are observed).
type c14ImgCase struct {
	Space string `json:"space"`
	Fn    string `json:"fn"`
	Src   string `json:"src"`
	Dst   string `json:"dst"`
	Par   int    `json:"parallelism"`
	Seed  uint64 `json:"content_seed"`
	// Lo..Hi: for the "-band" sources, every pixel's alpha lies in this range (a whole-image
	// predicate such as "is opaque" or "has no alpha" decides a fast path only for such images)
	Lo int `json:"alpha_lo,omitempty"`
	Hi int `json:"alpha_hi,omitempty"`
}

func c14ImageCheck(cs c14ImgCase) (bad bool, msg string) {
	defer func() {
		if p := recover(); p != nil {
			bad, msg = true, fmt.Sprintf("panic in %+v: %v", cs, p)
		}
	}()
	s := spaceByName(cs.Space)
	rect := image.Rect(-3, 2, 253, 258) // 256 x 256 = every 16-bit alpha once
	rng := core.NewRNG(int64(cs.Seed), "C14img")
	var src image.Image
	switch cs.Src {
	case "NRGBA64":
		m := image.NewNRGBA64(rect)
		rng.Fill(m.Pix)
		for i := 0; i < 65536; i++ {
			m.Pix[i*8+6], m.Pix[i*8+7] = uint8(i>>8), uint8(i)
		}
		src = m
	case "RGBA64":
		m := image.NewRGBA64(rect)
		for i := 0; i < 65536; i++ {
			for k := 0; k < 3; k++ {
				c := uint16(0)
				if i > 0 {
					c = uint16(rng.Intn(i + 1))
				}
				m.Pix[i*8+2*k], m.Pix[i*8+2*k+1] = uint8(c>>8), uint8(c)
			}
			m.Pix[i*8+6], m.Pix[i*8+7] = uint8(i>>8), uint8(i)
		}
		src = m
	case "NRGBA":
		m := image.NewNRGBA(rect)
		rng.Fill(m.Pix)
		for i := 0; i < 65536; i++ {
			m.Pix[i*4+3] = uint8(i >> 8)
		}
		src = m
	case "RGBA64-band", "NRGBA64-band", "RGBA-band", "NRGBA-band":
		rect = image.Rect(-3, -9, 61, 39) // negative rows and columns
		n := rect.Dx() * rect.Dy()
		alpha := func(i int) int { return cs.Lo + (i*40503+11)%(cs.Hi-cs.Lo+1) }
		switch cs.Src {
		case "RGBA64-band", "NRGBA64-band":
			pix := make([]uint8, n*8)
			for i := 0; i < n; i++ {
				a := alpha(i)
				for k := 0; k < 3; k++ {
					c := rng.Intn(65536)
					if cs.Src == "RGBA64-band" {
						c = rng.Intn(a + 1)
					}
					pix[i*8+2*k], pix[i*8+2*k+1] = uint8(c>>8), uint8(c)
				}
				pix[i*8+6], pix[i*8+7] = uint8(a>>8), uint8(a)
			}
			if cs.Src == "RGBA64-band" {
				src = &image.RGBA64{Pix: pix, Stride: rect.Dx() * 8, Rect: rect}
			} else {
				src = &image.NRGBA64{Pix: pix, Stride: rect.Dx() * 8, Rect: rect}
			}
		default:
			pix := make([]uint8, n*4)
			for i := 0; i < n; i++ {
				a := alpha(i) >> 8
				for k := 0; k < 3; k++ {
					c := rng.Intn(256)
					if cs.Src == "RGBA-band" {
						c = rng.Intn(a + 1)
					}
					pix[i*4+k] = uint8(c)
				}
				pix[i*4+3] = uint8(a)
			}
			if cs.Src == "RGBA-band" {
				src = &image.RGBA{Pix: pix, Stride: rect.Dx() * 4, Rect: rect}
			} else {
				src = &image.NRGBA{Pix: pix, Stride: rect.Dx() * 4, Rect: rect}
			}
		}
	case "RGBA64-black": // a shadow gradient: colour constant, only alpha varies from pixel to pixel
		m := image.NewRGBA64(rect)
		for i := 0; i < 65536; i++ {
			a := (i*40503 + 7) & 0xffff
			m.Pix[i*8+6], m.Pix[i*8+7] = uint8(a>>8), uint8(a)
		}
		src = m
	case "NYCbCrA-strides": // planes with strides of their own (luma w+3, chroma cw+2, alpha w+5)
		m := image.NewNYCbCrA(image.Rect(0, 0, 64, 48), image.YCbCrSubsampleRatio420)
		rng.Fill(m.Y)
		rng.Fill(m.Cb)
		rng.Fill(m.Cr)
		for i := range m.A {
			m.A[i] = uint8(i*37 + i>>6)
		}
		rect = m.Rect
		src = restride(m)
	case "NYCbCrA":
		m := image.NewNYCbCrA(image.Rect(0, 0, 256, 256), image.YCbCrSubsampleRatio420)
		rng.Fill(m.Y)
		rng.Fill(m.Cb)
		rng.Fill(m.Cr)
		for i := range m.A {
			m.A[i] = uint8(i >> 8) // 256 x 256: every 8-bit alpha
		}
		rect = m.Rect
		src = m
	}
	// geometry: in a third of the cases the source is a window of a larger image and the
	// destination has another origin and is larger (writes go to dst.Min + (p - src.Min))
	dstRect := rect
	shifted := cs.Seed%3 == 0
	if shifted {
		if sub, ok := src.(subImager); ok && cs.Src != "NYCbCrA" && cs.Src != "NYCbCrA-strides" {
			rect = image.Rect(rect.Min.X+3, rect.Min.Y+5, rect.Max.X-2, rect.Max.Y-1)
			src = sub.SubImage(rect)
		}
		dstRect = image.Rect(40, -7, 40+rect.Dx()+4, -7+rect.Dy()+3)
	}
	dst := newConcrete(cs.Dst, dstRect)
	if sub, ok := src.(subImager); ok && cs.Seed%3 == 1 && cs.Src != "NYCbCrA" && cs.Src != "NYCbCrA-strides" {
		// window to window: the source is a window of its image and the destination the same window of
		// an equally large canvas (equal strides, both wider than the rows that are processed)
		canvas := newConcrete(cs.Dst, rect)
		rng.Fill(pixOf(canvas))
		rect = image.Rect(rect.Min.X+2, rect.Min.Y+1, rect.Max.X-5, rect.Max.Y-3)
		dstRect = rect
		src = sub.SubImage(rect)
		dst = canvas.(subImager).SubImage(rect).(draw.Image)
	}
	rng.Fill(pixOf(dst)) // a reused destination: every pixel must be overwritten, transparent ones too
	if cs.Fn == "LineariseImage" {
		s.LineariseImage(dst, src, cs.Par)
	} else {
		s.EncodeImage(dst, src, cs.Par)
	}
	for y := rect.Min.Y; y < rect.Max.Y; y++ {
		for x := rect.Min.X; x < rect.Max.X; x++ {
			_, _, _, ain := src.At(x, y).RGBA()
			var aout uint32
			var o color.RGBA64
			dx, dy := dstRect.Min.X+(x-rect.Min.X), dstRect.Min.Y+(y-rect.Min.Y)
			switch d := dst.(type) {
			case *image.RGBA64:
				o = d.RGBA64At(dx, dy)
				aout = uint32(o.A)
				if cs.Fn == "LineariseImage" && cs.Src != "NRGBA64" && cs.Src != "NYCbCrA" && (o.R > o.A || o.G > o.A || o.B > o.A) {
					return true, fmt.Sprintf("%+v: pixel (%d,%d) %v linearised to %v, not validly premultiplied", cs, x, y, src.At(x, y), o)
				}
			case *image.NRGBA64:
				aout = uint32(d.NRGBA64At(dx, dy).A)
			case *image.RGBA:
				aout, ain = uint32(d.RGBAAt(dx, dy).A), ain>>8
			case *image.NRGBA:
				aout, ain = uint32(d.NRGBAAt(dx, dy).A), ain>>8
			}
			if aout != ain {
				return true, fmt.Sprintf("%+v: pixel (%d,%d) alpha %d became %d", cs, x, y, ain, aout)
			}
			if _, _, _, a16 := src.At(x, y).RGBA(); a16 == 0 {
				if r2, g2, b2, a2 := dst.At(dx, dy).RGBA(); r2|g2|b2|a2 != 0 {
					return true, fmt.Sprintf("%+v: transparent source pixel (%d,%d) left %v in the destination, want the zero colour", cs, x, y, dst.At(dx, dy))
				}
			}
		}
	}
	return false, "ok"
}

func c14Images(r *core.Run) {
	var cases []c14ImgCase
	rng := core.NewRNG(r.Seed, "C14", "images")
	for _, s := range libSpaces {
		for _, fn := range []string{"LineariseImage", "EncodeImage"} {
			for _, src := range []string{"NRGBA64", "RGBA64", "NRGBA", "RGBA64-black", "NYCbCrA", "NYCbCrA-strides"} {
				for _, dst := range []string{"RGBA64", "NRGBA64", "RGBA", "NRGBA"} {
					cases = append(cases, c14ImgCase{Space: s.Name, Fn: fn, Src: src, Dst: dst, Par: 1 + rng.Intn(8), Seed: rng.U64()})
				}
			}
		}
	}
	// images whose alphas all lie in a narrow band
	bands := [][2]int{{0xFF00, 0xFFFF}, {0xFFFE, 0xFFFF}, {0xFFFF, 0xFFFF}, {0xFF00, 0xFF00}, {0xFFFE, 0xFFFE}, {0xFE00, 0xFEFF}, {0x8000, 0x80FF}, {0, 0xFF}, {1, 1}, {0, 1}, {0x0100, 0x01FF}, {0, 0}}
	bi := 0
	for _, s := range libSpaces {
		for _, fn := range []string{"LineariseImage", "EncodeImage"} {
			for _, src := range []string{"RGBA64-band", "NRGBA64-band", "RGBA-band", "NRGBA-band"} {
				for _, b := range bands {
					dst := []string{"RGBA64", "NRGBA64", "RGBA", "NRGBA"}[bi%4]
					bi++
					cases = append(cases, c14ImgCase{Space: s.Name, Fn: fn, Src: src, Dst: dst, Par: 1 + rng.Intn(8), Seed: rng.U64(), Lo: b[0], Hi: b[1]})
				}
			}
		}
	}
	// shapes: rows that are transparent but for their last (or first) pixel, at odd and even widths;
	// strips of more than 65 535 rows and of more than 65 535 columns
	{
		type shape struct {
			w, h int
			kind string // "last", "first", "ramp"
		}
		var shapes []shape
		for _, w := range []int{1, 2, 3, 5, 7, 8, 9, 15, 16, 17, 33} {
			shapes = append(shapes, shape{w, 6, "last"}, shape{w, 5, "first"})
		}
		shapes = append(shapes, shape{1, 65576, "ramp"}, shape{2, 65540, "ramp"}, shape{65576, 1, "ramp"}, shape{70001, 2, "ramp"})
		var n int64
		for si, s := range libSpaces {
			for fi, fn := range []string{"LineariseImage", "EncodeImage"} {
				for hi, sh := range shapes {
					for pi, pair := range [][2]string{{"RGBA", "RGBA"}, {"NRGBA", "NRGBA"}, {"RGBA64", "RGBA64"}, {"RGBA", "RGBA64"}, {"NRGBA64", "RGBA"}, {"NRGBA", "NRGBA64"}} {
						if sh.kind == "ramp" && (pi+hi+si+fi)%3 != 0 {
							continue
						}
						rect := image.Rect(3, -2, 3+sh.w, -2+sh.h)
						src, dst := newConcrete(pair[0], rect), newConcrete(pair[1], rect)
						rng.Fill(pixOf(dst))
						bpp := bytesPerPixel(src)
						sp := pixOf(src)
						setPx := func(x, y int, a uint8) {
							o := (y*sh.w + x) * bpp
							for k := 0; k < bpp; k++ {
								sp[o+k] = a / 2
							}
							if bpp == 8 {
								sp[o+6], sp[o+7] = a, a^0x5A
							} else {
								sp[o+3] = a
							}
						}
						for y := 0; y < sh.h; y++ {
							switch sh.kind {
							case "last":
								setPx(sh.w-1, y, uint8(200+y))
							case "first":
								setPx(0, y, uint8(100+y))
							default:
								for x := 0; x < sh.w; x++ {
									setPx(x, y, uint8(1+(x+y)%255))
								}
							}
						}
						par := 1 + (hi+pi)%5
						if fn == "LineariseImage" {
							s.LineariseImage(dst, src, par)
						} else {
							s.EncodeImage(dst, src, par)
						}
						n++
						bad := false
						for y := rect.Min.Y; y < rect.Max.Y && !bad; y++ {
							for x := rect.Min.X; x < rect.Max.X; x++ {
								_, _, _, ain := src.At(x, y).RGBA()
								_, _, _, aout := dst.At(x, y).RGBA()
								if bytesPerPixel(dst) == 4 || bpp == 4 {
									ain, aout = ain>>8, aout>>8
								}
								if ain != aout {
									r.Violate("image", fmt.Sprintf("%s/%s/shape-%s", s.Name, fn, sh.kind), fmt.Sprintf("%s %s of a %d x %d %s image (%s pattern) into %s with %d workers: pixel (%d,%d) alpha %d became %d", s.Name, fn, sh.w, sh.h, pair[0], sh.kind, pair[1], par, x, y, ain, aout), map[string]any{"space": s.Name, "fn": fn, "w": sh.w, "h": sh.h, "pattern": sh.kind, "src": pair[0], "dst": pair[1], "parallelism": par})
									bad = true
									break
								}
							}
						}
					}
				}
			}
		}
		r.AddEvals(n)
		r.NTCount(n)
		r.Obs("shape_images", n)
	}
	// a Paletted source converted, its palette's alphas edited in place, converted again: the alpha
	// written is the palette's alpha as it is at that moment
	for k := 0; k < 40; k++ {
		s := libSpaces[k%len(libSpaces)]
		rect := image.Rect(1, 2, 9, 7)
		img := newSource("Paletted", rect, false, rng).(*image.Paletted)
		for step := 0; step < 3; step++ {
			dst := image.NewNRGBA64(rect)
			if k%2 == 0 {
				s.LineariseImage(dst, img, 1+k%3)
			} else {
				s.EncodeImage(dst, img, 1+k%3)
			}
			r.AddEvals(1)
			bad := false
			for y := rect.Min.Y; y < rect.Max.Y && !bad; y++ {
				for x := rect.Min.X; x < rect.Max.X; x++ {
					_, _, _, a := img.At(x, y).RGBA()
					if got := dst.NRGBA64At(x, y).A; uint32(got) != a {
						r.Violate("image", s.Name+"/Paletted/after-palette-edit", fmt.Sprintf("%s image transform #%d of one Paletted image whose palette alphas had been edited in place: pixel (%d,%d) has alpha %#04x, the palette entry now has %#04x", s.Name, step+1, x, y, got, a), map[string]any{"space": s.Name, "k": k, "step": step, "seed": r.Seed})
						bad = true
						break
					}
				}
			}
			if bad {
				break
			}
			for i := range img.Palette {
				rr, gg, bb, a := img.Palette[i].RGBA()
				na := uint16((a*3/4 + uint32(step)*4099 + uint32(i)) & 0xffff)
				img.Palette[i] = color.NRGBA64{R: uint16(rr), G: uint16(gg), B: uint16(bb), A: na}
			}
		}
	}
	core.ParallelFor(len(cases), 16, func(i int) {
		if bad, msg := c14ImageCheck(cases[i]); bad {
			r.Violate("image", cases[i].Space+"/"+cases[i].Fn+"/"+cases[i].Dst+"<-"+cases[i].Src, msg, cases[i])
		}
		if cases[i].Hi != 0 || strings.HasSuffix(cases[i].Src, "-band") {
			r.AddEvals(64 * 48)
		} else {
			r.AddEvals(65536)
		}
	})
	r.Obs("image_alpha_cases", len(cases))
}

func runC14(r *core.Run) {
	r.Rule = "all 65536 alphas x 68 channel values <= alpha (0, 1, a-1, a + 64 spread) x 4 spaces x {LineariseColor, EncodeColor} x colour types; all 8-bit (channel, alpha) pairs through the 8-bit constructors; all codes for opaque agreement; float alpha sweep of C02's point list through every encoder of alpha; thorough: every (c,a) pair with c<=a for LineariseColor and every (c,a) pair for EncodeColor; non-trivial = distinct (space, a, c) with 0 < c < a < max"
	r.Assumptions = []string{"'transparent decodes to zero' is demanded where transparency determines the colour (premultiplied and generic constructors); ColorFromNRGBA is checked for alpha exactness only (DESIGN.md C14 scope note)"}
	// the first calls of the process: eight goroutines at once, large and small alphas, every entry
	// point (a lazily built alpha or channel table must not be observable)
	{
		entries := []string{"linear.RGBFromEncoded", "linear.RGBFromLinear", "ColorFromEncodedColor", "ColorFromLinearColor", "LineariseColor", "EncodeColor"}
		alphas := []int{65535, 65534, 65280, 40000, 32768, 32767, 4096, 255, 1}
		check := func(g int) {
			for _, s := range libSpaces {
				for k := range alphas {
					a := alphas[(k+g)%len(alphas)]
					for _, t := range []string{"NRGBA64", "RGBA64"} {
						in := [4]uint16{uint16(a / 3), uint16(a / 2), uint16(a), uint16(a)}
						for _, e := range entries {
							cs := c14Case{Space: s.Name, Entry: e, In: in, Type: t}
							if bad, msg := c14Check(cs); bad {
								r.Violate("pair16", s.Name+"/"+e+"/first-use", msg+" (among the first calls of the process, eight goroutines at once)", cs)
							}
						}
					}
				}
			}
		}
		firstUseAuto(r.Variant, 8, check)
		r.AddEvals(int64(8 * len(libSpaces) * len(alphas) * 2 * len(entries)))
		if isBurst(r.Variant) {
			return
		}
	}
	for _, s := range libSpaces {
		s := s
		core.ParallelFor(256, 16, func(blk int) {
			var evals, nt int64
			for a := blk * 256; a < blk*256+256; a++ {
				distinct := map[uint16]bool{}
				for k := 0; k < 68; k += 3 {
					c := [3]uint16{c14Chans(a, k), c14Chans(a, k+1), c14Chans(a, (k+2)%68)}
					in := [4]uint16{c[0], c[1], c[2], uint16(a)}
					for _, e := range []string{"LineariseColor", "EncodeColor", "ColorFromEncodedColor", "ColorFromLinearColor"} {
						cs := c14Case{Space: s.Name, Entry: e, In: in, Type: "RGBA64"}
						if bad, msg := c14Check(cs); bad {
							r.Violate("pair16", s.Name+"/"+e, msg, cs)
						}
						evals++
					}
					for _, x := range c {
						if x > 0 && int(x) < a && a < 65535 {
							distinct[x] = true
						}
					}
				}
				nt += int64(len(distinct))
				// non-premultiplied carrier of the same alpha
				in := [4]uint16{uint16(a * 7), uint16(a ^ 0x5555), 65535, uint16(a)}
				for _, e := range []string{"LineariseColor", "EncodeColor", "ColorFromEncodedColor", "ColorFromLinearColor", "linear.RGBFromEncoded", "linear.RGBFromLinear"} {
					cs := c14Case{Space: s.Name, Entry: e, In: in, Type: "NRGBA64"}
					if bad, msg := c14Check(cs); bad {
						r.Violate("pair16", s.Name+"/"+e+"/NRGBA64", msg, cs)
					}
					evals++
				}
			}
			r.AddEvals(evals)
			r.NTCount(nt)
		})
		// all 8-bit (c,a) pairs
		var evals, nt int64
		for a := 0; a < 256; a++ {
			for c := 0; c < 256; c++ {
				c2 := (c * 3) & 255
				if c <= a {
					c2 = c * 3 % (a + 1)
				}
				in := [4]uint16{uint16(c), uint16(c2), uint16(a - a*c/255), uint16(a)}
				for _, e := range []string{"ColorFromRGBA", "ColorFromNRGBA"} {
					cs := c14Case{Space: s.Name, Entry: e, In: in}
					if e == "ColorFromRGBA" && c > a {
						// still must not produce non-finite values or wrong alpha
					}
					if bad, msg := c14Check(cs); bad {
						r.Violate("pair8", s.Name+"/"+e, msg, cs)
					}
					evals++
				}
				if c <= a {
					for _, t := range []string{"RGBA", "NRGBA"} {
						for _, e := range []string{"LineariseColor", "EncodeColor", "ColorFromEncodedColor"} {
							cs := c14Case{Space: s.Name, Entry: e, In: in, Type: t}
							if bad, msg := c14Check(cs); bad {
								r.Violate("pair8", s.Name+"/"+e+"/"+t, msg, cs)
							}
							evals++
						}
					}
					if c > 0 && c < a && a < 255 {
						nt++
					}
				}
			}
		}
		// fully transparent carriers with arbitrary colour bytes: every constructor that sees the
		// colour through color.Color (premultiplied view) must return the zero colour and alpha 0
		for v := 0; v < 256; v++ {
			for _, t := range []string{"NRGBA", "NRGBA64", "RGBA64", "RGBA"} {
				in := [4]uint16{uint16(v), uint16(255 - v), uint16((v * 7) & 255), 0}
				if t == "NRGBA64" || t == "RGBA64" {
					in = [4]uint16{uint16(v * 257), uint16(65535 - v*201), uint16(v*7919) | 1, 0}
				}
				for _, e := range []string{"ColorFromEncodedColor", "ColorFromLinearColor", "LineariseColor", "EncodeColor", "linear.RGBFromEncoded", "linear.RGBFromLinear"} {
					cs := c14Case{Space: s.Name, Entry: e, In: in, Type: t}
					if bad, msg := c14Check(cs); bad {
						r.Violate("transparent", s.Name+"/"+e+"/"+t+"/transparent", msg, cs)
					}
					evals++
				}
			}
		}
		// opaque agreement
		for v := 0; v < 256; v++ {
			cs := c14Case{Space: s.Name, Entry: "opaque8", In: [4]uint16{uint16(v), uint16(255 - v), uint16(v*5) & 255, 255}}
			if bad, msg := c14Check(cs); bad {
				r.Violate("opaque", s.Name+"/opaque8", msg, cs)
			}
			evals++
		}
		for v := 0; v < 256; v++ {
			cs := c14Case{Space: s.Name, Entry: "opaque-gray8", In: [4]uint16{uint16(v), 0, 0, 255}}
			if bad, msg := c14Check(cs); bad {
				r.Violate("opaque", s.Name+"/opaque-gray8", msg, cs)
			}
			evals++
		}
		for v := 0; v < 65536; v++ {
			cs := c14Case{Space: s.Name, Entry: "opaque16", In: [4]uint16{uint16(v), uint16(65535 - v), uint16(v * 5), 65535}}
			if bad, msg := c14Check(cs); bad {
				r.Violate("opaque", s.Name+"/opaque16", msg, cs)
			}
			evals++
		}
		r.AddEvals(evals)
		r.NTCount(nt)
	}
	// encode side: float alphas
	pts := c02QuickPoints(r.Seed)
	pts = append(pts, float32(math.NaN()))
	core.ParallelFor(len(libSpaces)*4, 16, func(j int) {
		s := libSpaces[j/4]
		e := []string{"ToNRGBA", "ToRGBA", "ToRGBA64", "ToLinearRGBA64"}[j%4]
		var n int64
		for i, a := range pts {
			for col := 0; col < 7; col++ {
				if col >= 2 && (i+col)%8 != 0 {
					continue
				}
				cs := c14Case{Space: s.Name, Entry: e, Alpha: a, In: [4]uint16{uint16(col), 0, 0, 0}}
				n++
				if bad, msg := c14Check(cs); bad {
					r.Violate("alphaenc", fmt.Sprintf("%s/%s/colour%d", s.Name, e, col), msg, cs)
				}
			}
		}
		r.AddEvals(n)
	})
	c14Images(r)
	if r.Thorough() {
		c14Thorough(r)
	}
	if r.Variant == "" {
		// the whole workload once more in the GOARCH=386 build of this monitor (see ./check)
		r.RunVariantChild("arch386@16", 30*time.Minute, false)
		r.Obs("arch386_child", "run")
		for _, v := range append([]string{"encfirst+rev@3", "decfirst@1", "warm@4"}, burstVariants...) {
			r.RunVariantChild(v, 10*time.Minute, false)
		}
		r.Obs("fresh_process_variants", []string{"encfirst+rev@3", "decfirst@1", "warm@4"})
	}
	r.Sample(map[string]any{"space": "srgb", "LineariseColor": color.RGBA64{R: 1000, G: 20000, B: 30000, A: 30000}, "result": spaceByName("srgb").Linearise(color.RGBA64{R: 1000, G: 20000, B: 30000, A: 30000})})
	r.Sample(map[string]any{"space": "adobergb", "EncodeColor": color.RGBA64{R: 5, G: 77, B: 200, A: 201}, "result": spaceByName("adobergb").Encode(color.RGBA64{R: 5, G: 77, B: 200, A: 201})})
}

func c14Thorough(r *core.Run) {
	r.Exhaustive = true
	for _, s := range libSpaces {
		s := s
		core.ParallelFor(65536, 16, func(a int) {
			var cur color.RGBA64
			defer func() {
				if p := recover(); p != nil {
					r.Violate("pair16", s.Name+"/panic", fmt.Sprintf("%s panicked on %v: %v", s.Name, cur, p), c14Case{Space: s.Name, Entry: "LineariseColor", In: [4]uint16{cur.R, cur.G, cur.B, cur.A}, Type: "RGBA64"})
				}
			}()
			A := uint16(a)
			var evals int64
			// LineariseColor: every c <= a, three per call
			for c := 0; c <= a; c += 3 {
				c1, c2 := c+1, c+2
				if c1 > a {
					c1 = a
				}
				if c2 > a {
					c2 = a
				}
				cur = color.RGBA64{R: uint16(c), G: uint16(c1), B: uint16(c2), A: A}
				o := s.Linearise(cur)
				evals++
				if o.A != A || o.R > o.A || o.G > o.A || o.B > o.A || (a == 0 && o != (color.RGBA64{})) {
					cs := c14Case{Space: s.Name, Entry: "LineariseColor", In: [4]uint16{cur.R, cur.G, cur.B, cur.A}, Type: "RGBA64"}
					_, msg := c14Check(cs)
					r.Violate("pair16", s.Name+"/LineariseColor", msg, cs)
				}
			}
			// EncodeColor: every c (also c > a), three per call
			for c := 0; c < 65536; c += 3 {
				cur = color.RGBA64{R: uint16(c), G: uint16((c + 1) & 65535), B: uint16((c + 2) & 65535), A: A}
				o := s.Encode(cur)
				evals++
				if o.A != A || (a == 0 && o != (color.RGBA64{})) {
					cs := c14Case{Space: s.Name, Entry: "EncodeColor", In: [4]uint16{cur.R, cur.G, cur.B, cur.A}, Type: "RGBA64"}
					_, msg := c14Check(cs)
					r.Violate("pair16", s.Name+"/EncodeColor", msg, cs)
				}
			}
			r.AddEvals(evals)
			if a > 1 && a < 65535 {
				r.NTCount(int64(a - 1))
			}
		})
	}
}

func replayC14(stage string, raw json.RawMessage) (bool, string, error) {
	if stage == "image" {
		var ic c14ImgCase
		if err := json.Unmarshal(raw, &ic); err != nil {
			return false, "", err
		}
		bad, msg := c14ImageCheck(ic)
		return bad, msg, nil
	}
	var cs c14Case
	if err := json.Unmarshal(raw, &cs); err != nil {
		return false, "", err
	}
	if spaceByName(cs.Space) == nil {
		return false, "", fmt.Errorf("unknown space")
	}
	bad, msg := c14Check(cs)
	return bad, msg, nil
}

func init() {
	core.Register(&core.Property{ID: "C14", Level: "exploration", Run: runC14, Replay: replayC14, Child: variantChild("C14", "exploration", runC14)})
}
