//go:build all || c19

package props

import (
	"bytes"
	"encoding/base64"
	"encoding/binary"
	"encoding/json"
	"fmt"
	"io"
	"os"
	"path/filepath"
	"strings"
	"time"

	"verifharness/internal/core"
	"verifharness/internal/imggen"
	"verifharness/internal/src"
)

// C19 — auto-detection equals the first specific loader that succeeds.

type c19Case struct {
	Name      string `json:"name"`
	Schedule  string `json:"schedule"`
	SchedSeed uint64 `json:"schedule_seed"`
	Deferred  bool   `json:"read_out_after_another_load"`
	File      string `json:"input_base64,omitempty"`
	Path      string `json:"input_path,omitempty"`
}

type c19Input struct {
	name  string
	bytes []byte
}

// c19Expected: the first of png, jpeg, webp (in that order) that succeeds on the complete bytes.
func c19Expected(data []byte) (exp mdSummary, consumed []int64) {
	for _, l := range []string{"pngmeta", "jpegmeta", "webpmeta"} {
		s := src.New(data)
		res := loadWith(l, s)
		consumed = append(consumed, s.Pulled)
		sum := summarise(res)
		// the same loader on a *bytes.Reader: whatever the kind of reader, the outcome is the input's
		if alt := summarise(loadWith(l, bytes.NewReader(data))); !alt.same(sum) && alt.Panic == "" && sum.Panic == "" {
			sum.sourceDependent = fmt.Sprintf("%s.Load gives %s from a plain io.Reader but %s from a *bytes.Reader", l, sumStr(sum), sumStr(alt))
			return sum, consumed
		}
		if sum.Panic != "" {
			return sum, consumed
		}
		if sum.OK {
			return sum, consumed
		}
	}
	return mdSummary{}, consumed
}

// tempErrReader fails once, with an error that says it is temporary, when `at` bytes have been
// delivered, and carries on with the data afterwards (a transport that says "try again").
type tempErrReader struct {
	r     io.Reader
	at    int64
	pos   int64
	fired bool
}

type errTryAgain struct{}

func (errTryAgain) Error() string   { return "resource temporarily unavailable (try again)" }
func (errTryAgain) Timeout() bool   { return true }
func (errTryAgain) Temporary() bool { return true }

func (t *tempErrReader) Read(p []byte) (int, error) {
	if !t.fired && t.pos >= t.at {
		t.fired = true
		return 0, errTryAgain{}
	}
	if !t.fired && int64(len(p)) > t.at-t.pos {
		p = p[:t.at-t.pos]
	}
	n, err := t.r.Read(p)
	t.pos += int64(n)
	return n, err
}

// c19Temporary: the source reports one temporary error after `at` bytes. Whatever metadata comes
// back, the stream must still replay the complete input to a consumer that reads on after the error.
func c19Temporary(data []byte, at int64) (kind, msg string) {
	res := loadWith("autometa", &tempErrReader{r: bytes.NewReader(data), at: at})
	if res.Panic != nil {
		return "panic", fmt.Sprintf("autometa.Load panicked: %v", res.Panic)
	}
	if res.Stream == nil {
		return "nil-stream", "autometa.Load returned a nil stream"
	}
	var out []byte
	buf := make([]byte, 4096)
	errs := 0
	for calls := 0; calls < 4*len(data)/len(buf)+64; calls++ {
		n, err := res.Stream.Read(buf)
		out = append(out, buf[:n]...)
		if err == io.EOF {
			break
		}
		if err != nil {
			errs++
			if errs > 8 {
				break
			}
		}
	}
	if !bytes.Equal(out, data) {
		return "stream", fmt.Sprintf("the source reported one temporary error after %d bytes and then carried on; autometa.Load's stream, read on after errors (%d seen), gives %d bytes that %s (input %d bytes)", at, errs, len(out), firstDiff(out, data), len(data))
	}
	return "", "ok"
}

// c19Fault: the source delivers the first k bytes and then fails for good with the given error. The
// reference is the three specific loaders, each on a source of the same kind of its own.
func c19Fault(data []byte, k int64, errKind string) (kind, msg string) {
	mk := func() *src.Source { return src.New(data).FaultWith(k, c07Err(errKind)) }
	var exp mdSummary
	for _, l := range []string{"pngmeta", "jpegmeta", "webpmeta"} {
		sum := summarise(loadWith(l, mk()))
		if sum.Panic != "" {
			return "", "a specific loader panicked (C09's business)"
		}
		if sum.OK {
			exp = sum
			break
		}
	}
	s := mk()
	res := loadWith("autometa", s)
	if res.Panic != nil {
		return "panic", fmt.Sprintf("autometa.Load panicked: %v", res.Panic)
	}
	got := summarise(res)
	if exp.OK {
		if !got.same(exp) {
			return "differs", fmt.Sprintf("the source fails with %s after %d bytes: autometa.Load gives %s; the first specific loader that succeeds on such a source gives %s", errKind, k, sumStr(got), sumStr(exp))
		}
	} else if res.Err == nil || res.MD != nil {
		return "should-fail", fmt.Sprintf("the source fails with %s after %d bytes and no specific loader succeeds on such a source, but autometa.Load returned md=%v err=%v", errKind, k, res.MD != nil, res.Err)
	}
	if res.Stream == nil {
		return "nil-stream", "autometa.Load returned a nil stream"
	}
	out, rerr, _ := src.ReadAllChunks(res.Stream, 4096, int64(len(data))+1<<16)
	end := k
	if end > int64(len(data)) {
		end = int64(len(data))
	}
	if !bytes.Equal(out, data[:end]) {
		return "stream", fmt.Sprintf("the source fails with %s after %d bytes: autometa.Load's stream gives %d bytes that %s", errKind, k, len(out), firstDiff(out, data[:end]))
	}
	if end < int64(len(data)) && rerr == nil {
		return "stream", fmt.Sprintf("the source fails with %s after %d bytes: autometa.Load's stream ends cleanly instead of surfacing the error", errKind, k)
	}
	return "", "ok"
}

// c19FaultAt picks where the source fails: at a PNG chunk boundary when the input is a PNG (a
// loader that takes end-of-data between chunks for the end of the file must not take a failure
// for it), anywhere otherwise.
func c19FaultAt(data []byte, seed uint64) int64 {
	if len(data) == 0 {
		return 0
	}
	if len(data) > 33 && bytes.HasPrefix(data, imggen.PNGSig) {
		var bounds []int64
		for o := int64(8); o+12 <= int64(len(data)); {
			l := int64(binary.BigEndian.Uint32(data[o:]))
			o += 12 + l
			if o <= int64(len(data)) {
				bounds = append(bounds, o)
			}
		}
		if len(bounds) > 0 && seed%3 != 0 {
			return bounds[int(seed>>8)%len(bounds)]
		}
	}
	return int64(seed % uint64(len(data)))
}

// c19Named: the input is an *os.File whose name ends in an extension that says nothing about (or
// contradicts) its content.
func c19Named(data []byte, ext string) (kind, msg string) {
	exp, _ := c19Expected(data)
	if exp.Panic != "" || exp.sourceDependent != "" {
		return "", "n/a"
	}
	f, err := os.CreateTemp(core.WorkDir("C19"), "img*"+ext)
	if err != nil {
		return "", "n/a"
	}
	defer os.Remove(f.Name())
	defer f.Close()
	_, _ = f.Write(data)
	_, _ = f.Seek(0, io.SeekStart)
	res := loadWith("autometa", f)
	if res.Panic != nil {
		return "panic", fmt.Sprintf("autometa.Load panicked: %v", res.Panic)
	}
	got := summarise(res)
	if exp.OK && !got.same(exp) {
		return "differs", fmt.Sprintf("read from a file named *%s: autometa.Load gives %s; the first specific loader that succeeds gives %s", ext, sumStr(got), sumStr(exp))
	}
	if !exp.OK && (res.Err == nil || res.MD != nil) {
		return "should-fail", fmt.Sprintf("read from a file named *%s: no specific loader succeeds, but autometa.Load returned md=%v err=%v", ext, res.MD != nil, res.Err)
	}
	if res.Stream == nil {
		return "nil-stream", "autometa.Load returned a nil stream"
	}
	out, rerr, _ := src.ReadAllChunks(res.Stream, 4096, int64(len(data))+1<<16)
	if rerr != nil || !bytes.Equal(out, data) {
		return "stream", fmt.Sprintf("read from a file named *%s: autometa.Load's stream gives %d bytes that %s, err %v", ext, len(out), firstDiff(out, data), rerr)
	}
	return "", "ok"
}

func c19Check(data []byte, schedule string, seed uint64, deferred bool) (kind, msg string, nt bool) {
	if strings.HasPrefix(schedule, "fault:") {
		// fault:<error kind>@<k>
		rest := schedule[len("fault:"):]
		i := strings.LastIndex(rest, "@")
		var k int64
		fmt.Sscanf(rest[i+1:], "%d", &k)
		kind, msg = c19Fault(data, k, rest[:i])
		return kind, msg, false
	}
	if schedule == "slow-pipe" {
		// an OS pipe whose writer delivers the first part at once and the rest three seconds after Load
		// has returned (a deadline, timer or context a loader arms for its own reading must not outlive it)
		exp, _ := c19Expected(data)
		if exp.Panic != "" || exp.sourceDependent != "" {
			return "", "n/a", false
		}
		pr, pw, perr := os.Pipe()
		if perr != nil {
			return "", "os.Pipe failed: n/a", false
		}
		defer pr.Close()
		loaded := make(chan struct{})
		head := len(data) - 64
		if head < 0 {
			head = 0
		}
		go func() {
			_, _ = pw.Write(data[:head]) // (blocks while the pipe is full: the reader sets the pace)
			select {
			case <-loaded:
				time.Sleep(3 * time.Second)
			case <-time.After(8 * time.Second): // the loader wants the last bytes too: no point in holding them back
			}
			_, _ = pw.Write(data[head:])
			_ = pw.Close()
		}()
		res := loadWith("autometa", pr)
		close(loaded)
		if res.Panic != nil {
			return "panic", fmt.Sprintf("autometa.Load panicked: %v", res.Panic), false
		}
		if got := summarise(res); exp.OK && !got.same(exp) {
			return "differs", fmt.Sprintf("from a pipe: autometa.Load gives %s; the first specific loader that succeeds gives %s", sumStr(got), sumStr(exp)), false
		}
		if res.Stream == nil {
			return "nil-stream", "autometa.Load returned a nil stream", false
		}
		out, rerr, _ := src.ReadAllChunks(res.Stream, 4096, int64(len(data))+1<<16)
		if rerr != nil || !bytes.Equal(out, data) {
			return "stream", fmt.Sprintf("from a pipe whose writer delivers the last %d bytes three seconds after Load has returned: autometa.Load's stream gives %d bytes that %s, err %v", len(data)-head, len(out), firstDiff(out, data), rerr), false
		}
		return "", "ok", false
	}
	if strings.HasPrefix(schedule, "named:") {
		kind, msg = c19Named(data, schedule[len("named:"):])
		return kind, msg, false
	}
	if strings.HasPrefix(schedule, "temporary@") {
		var at int64
		fmt.Sscanf(schedule, "temporary@%d", &at)
		kind, msg = c19Temporary(data, at)
		return kind, msg, false
	}
	exp, consumed := c19Expected(data)
	if exp.Panic != "" {
		return "", "a specific loader panicked (C09's business)", false
	}
	if exp.sourceDependent != "" {
		return "source-dependent", exp.sourceDependent + " - there is no single 'specific loader result' for auto-detection to equal", true
	}
	var rd io.Reader
	if strings.HasPrefix(schedule, "seeker@") {
		// an io.ReadSeeker handed over at a non-zero position: the input is what follows
		var k int
		fmt.Sscanf(schedule, "seeker@%d", &k)
		whole := append(bytes.Repeat([]byte{0x89}, k), data...)
		br := bytes.NewReader(whole)
		_, _ = br.Seek(int64(k), io.SeekStart)
		rd = br
	} else if strings.HasPrefix(schedule, "kind:") {
		var k int
		fmt.Sscanf(schedule, "kind:%d", &k)
		rd = readerOfKind(data, k)
	} else if schedule == "pipe" {
		// the read end of an OS pipe: an *os.File that is not a regular file (no size, no seeking)
		pr, pw, perr := os.Pipe()
		if perr != nil {
			return "", "os.Pipe failed: n/a", false
		}
		go func() {
			_, _ = pw.Write(data)
			_ = pw.Close()
		}()
		defer pr.Close()
		rd = pr
	} else {
		rd = c08Source(data, schedule, seed)
	}
	res := loadWith("autometa", rd)
	if res.Panic != nil {
		return "panic", fmt.Sprintf("autometa.Load panicked: %v", res.Panic), false
	}
	if deferred {
		// another load in between, on different bytes, before the first stream is read
		other := append([]byte("\x89PNG\r\n\x1a\n-- some other stream --"), data...)
		o := loadWith("autometa", bytes.NewReader(other))
		defer func() {
			if o.Stream != nil {
				got, _, _ := src.ReadAllChunks(o.Stream, 4096, int64(len(other))+1<<16)
				if kind == "" && !bytes.Equal(got, other) {
					kind, msg = "stream", fmt.Sprintf("stream of a second, interleaved autometa.Load does not replay its input: %s", firstDiff(got, other))
				}
			}
		}()
	}
	got := summarise(res)
	// which earlier candidates had consumed more than 16 bytes before failing
	for i := 0; i+1 < len(consumed); i++ {
		if consumed[i] > 16 {
			nt = true
		}
	}
	if !exp.OK && len(consumed) == 3 && (consumed[0] > 16 || consumed[1] > 16 || consumed[2] > 16) {
		nt = true
	}
	if exp.OK {
		if !got.same(exp) {
			return "differs", fmt.Sprintf("autometa.Load gives %s; the first specific loader that succeeds gives %s", sumStr(got), sumStr(exp)), nt
		}
	} else {
		if res.Err == nil || res.MD != nil {
			return "should-fail", fmt.Sprintf("no specific loader succeeds, but autometa.Load returned md=%v err=%v", res.MD != nil, res.Err), nt
		}
	}
	if res.Stream == nil {
		return "nil-stream", "autometa.Load returned a nil stream", nt
	}
	var out []byte
	var rerr error
	bounded := true
	how := "Read"
	if seed%3 == 0 || seed%7 == 1 {
		// read a few bytes (or none at all), then hand the stream to io.Copy (which uses the stream's WriteTo when it has one)
		how = "Read then io.Copy"
		head := make([]byte, 1+int(seed>>8)%40)
		if seed%7 == 1 {
			how, head = "io.Copy alone", nil
		}
		n, herr := io.ReadFull(res.Stream, head)
		out = append(out, head[:n]...)
		if herr == nil {
			rest := &boundedBuf{limit: int64(len(data)) + 1<<16}
			_, rerr = io.Copy(rest, res.Stream)
			out = append(out, rest.b...)
			if rest.over {
				bounded = false
			}
			if rerr == errBoundedBuf {
				rerr = nil
			}
		}
	} else {
		out, rerr, bounded = src.ReadAllChunks(res.Stream, 4096, int64(len(data))+1<<16)
	}
	if (seed%5 == 0 || seed%7 == 1) && bounded && rerr == nil {
		// the drained stream handed to Load again: it is an empty input now, whatever it was before
		again := loadWith("autometa", res.Stream)
		if again.Panic != nil {
			return "panic", fmt.Sprintf("autometa.Load on an already drained stream panicked: %v", again.Panic), nt
		}
		if again.Err == nil || again.MD != nil {
			return "should-fail/drained", fmt.Sprintf("autometa.Load on the stream of an earlier Load after it had been drained (by %s) returned md=%v err=%v; no loader succeeds on an empty input", how, again.MD != nil, again.Err), nt
		}
		if again.Stream != nil {
			if rest, _, _ := src.ReadAllChunks(again.Stream, 512, 1<<16); len(rest) != 0 {
				return "stream/drained", fmt.Sprintf("autometa.Load on an already drained stream returned a stream with %d bytes in it", len(rest)), nt
			}
		}
	}
	if !bounded || rerr != nil || !bytes.Equal(out, data) {
		return "stream", fmt.Sprintf("autometa.Load's stream (drained by %s) does not replay the input: %d bytes that %s (input %d bytes), err %v", how, len(out), firstDiff(out, data), len(data), rerr), nt
	}
	return "", "ok", nt
}

// c19FirstUse: the first autometa.Load calls of the process come from eight goroutines at once, on
// one small well-formed file of each format; the expected results are computed beforehand with the
// specific loaders only, so that nothing has touched the auto-detecting loader yet.
func c19FirstUse(r *core.Run) {
	rg := core.NewRNG(5, "C19", "first-use")
	prof := structuredProfile(rg, 1)
	pb, _ := imggen.PNGSpec{W: 3, H: 2, Depth: 8, ColorType: 2, ICC: &imggen.PNGICC{Name: "w", Profile: prof, Level: 6}, IDAT: []byte{1}}.Build()
	jb, _ := imggen.JPEGSpec{Precision: 8, W: 3, H: 2, Comps: imggen.StdComps(1, 1, 1)}.Build()
	wb, _ := imggen.WebPSpec{Kind: "VP8X", W: 3, H: 2, ICC: prof, Payload: []byte{1, 2}}.Build()
	files := [][]byte{wb, jb, pb}
	names := []string{"WebP", "JPEG", "PNG"}
	exps := make([]mdSummary, len(files))
	for i, f := range files {
		exps[i], _ = c19Expected(f)
	}
	body := func(g int) {
		for k := range files {
			i := (k + g) % len(files)
			res := loadWith("autometa", bytes.NewReader(files[i]))
			got := summarise(res)
			r.AddEvals(1)
			if res.Panic != nil || !got.same(exps[i]) {
				r.Violate("input", "differs/first-use", fmt.Sprintf("one of the first eight concurrent autometa.Load calls of the process (variant %q), on a well-formed %s: %s; the specific loader gives %s", r.Variant, names[i], sumStr(got), sumStr(exps[i])), c19Case{Name: "first-use " + names[i], Schedule: "all", File: base64.StdEncoding.EncodeToString(files[i])})
				continue
			}
			if res.Stream != nil {
				out, _, _ := src.ReadAllChunks(res.Stream, 4096, int64(len(files[i]))+1<<16)
				if !bytes.Equal(out, files[i]) {
					r.Violate("input", "stream/first-use", fmt.Sprintf("first concurrent autometa.Load calls of the process: the stream of the %s load does not replay the input", names[i]), c19Case{Name: "first-use " + names[i], Schedule: "all", File: base64.StdEncoding.EncodeToString(files[i])})
				}
			}
		}
	}
	if r.Variant == "" {
		firstUsePhases(8, 1, func(g, ph int) { body(g) })
	} else {
		firstUseAuto(r.Variant, 8, body)
	}
}

func c19Inputs(seed int64, thorough bool) []c19Input {
	rng := core.NewRNG(seed, "C19")
	var in []c19Input
	add := func(n string, b []byte) { in = append(in, c19Input{n, b}) }
	gens := c06Files(seed, false)
	step := 2
	if thorough {
		step = 1
	}
	for i := 0; i < len(gens); i += step {
		f, ok := gens[i]()
		if !ok || len(f.Bytes) > 400000 {
			continue
		}
		add(f.Name, f.Bytes)
	}
	n := 600
	if thorough {
		n = 30000
	}
	for i := 0; i < n; i++ {
		var f genFile
		switch i % 3 {
		case 0:
			td := core.Pick(rng, pngTypeDepths)
			f = c05PNG("c19", uint32(1+rng.Intn(5000)), uint32(1+rng.Intn(5000)), td[0], td[1], uint8(rng.Intn(2)), rng, 6)
		case 1:
			f = c05JPEG("c19", 1+rng.Intn(9000), 1+rng.Intn(9000), rng.Bool(), core.Pick(rng, []int{1, 3, 4}), core.Pick(rng, jpegSamplings), rng, 8)
		case 2:
			f = c05WebP("c19", core.Pick(rng, []string{"VP8", "VP8L", "VP8X"}), uint32(1+rng.Intn(9000)), uint32(1+rng.Intn(9000)), rng, uint8(rng.Intn(256)))
		}
		add(f.Name, f.Bytes)
	}
	seeds := smallSeeds(seed)
	var c09seeds []c09Seed
	for _, s := range seeds {
		c09seeds = append(c09seeds, c09Seed{s.Name, s.Truth.Format, s.Bytes, s.Truth.Fields})
	}
	for _, s := range seeds {
		add(s.Name, s.Bytes)
		// every short prefix, and truncations at structural boundaries +/- 1
		for l := 0; l <= 40 && l <= len(s.Bytes); l++ {
			add(fmt.Sprintf("%s[:%d]", s.Name, l), s.Bytes[:l])
		}
		for _, f := range s.Truth.Fields {
			for _, c := range []int{f.Off - 1, f.Off, f.Off + 1, f.Off + f.Len} {
				if c > 40 && c < len(s.Bytes) {
					add(fmt.Sprintf("%s[:%d]", s.Name, c), s.Bytes[:c])
				}
			}
		}
	}
	nm := 2500
	if thorough {
		nm = 300000
	}
	for i := 0; i < nm; i++ {
		s := c09seeds[rng.Intn(len(c09seeds))]
		if len(s.data) == 0 {
			continue
		}
		add(fmt.Sprintf("mut%d:%s", i, s.name), c09Mutate(rng, s.data, s.fields, c09seeds))
	}
	// polyglots
	var byFmt = map[string][]byte{}
	for _, s := range seeds {
		if s.Truth.Format != "" && byFmt[s.Truth.Format] == nil && len(s.Bytes) > 0 {
			byFmt[s.Truth.Format] = s.Bytes
		}
	}
	fmts := []string{"PNG", "JPEG", "WebP"}
	firsts := map[string][][]byte{
		"PNG":  {imggen.PNGSig, append(append([]byte{}, imggen.PNGSig...), 0, 0, 0, 13, 'I', 'H', 'D', 'R'), append(append([]byte{}, imggen.PNGSig...), 0, 0, 0, 2, 'z', 'z', 'Z', 'z', 1, 2, 9, 9, 9, 9)},
		"JPEG": {{0xFF, 0xD8}, {0xFF, 0xD8, 0xFF, 0xE0, 0, 4, 1, 2}, {0xFF, 0xD8, 0xFF, 0xFE, 0, 2}},
		"WebP": {[]byte("RIFF"), []byte("RIFF\x10\x00\x00\x00WEBP"), []byte("RIFF\x10\x00\x00\x00WEBPVP8X")},
	}
	for _, a := range fmts {
		for fi, first := range firsts[a] {
			for _, b := range fmts {
				if a == b {
					continue
				}
				add(fmt.Sprintf("polyglot %s-start#%d + complete %s", a, fi, b), append(append([]byte{}, first...), byFmt[b]...))
			}
		}
	}
	// a valid JPEG/WebP after bytes that keep the PNG parser busy
	for k := 0; k < 40; k++ {
		var busy bytes.Buffer
		busy.Write(imggen.PNGSig)
		for busy.Len() < 1+rng.Intn(5000) {
			d := rng.Bytes(rng.Intn(300))
			busy.Write([]byte{0, 0, byte(len(d) >> 8), byte(len(d))})
			busy.WriteString("tEXt")
			busy.Write(d)
			busy.Write([]byte{1, 2, 3, 4})
		}
		busy.Write([]byte{0, 0, 1})
		target := byFmt[[]string{"JPEG", "WebP"}[k%2]]
		add(fmt.Sprintf("png-busy %d bytes + truncated chunk + complete file", busy.Len()), append(busy.Bytes(), target...))
	}
	// a WebP/PNG preceded by a JPEG start whose segments end before any SOF
	for k := 0; k < 20; k++ {
		var j bytes.Buffer
		j.Write([]byte{0xFF, 0xD8})
		for i := 0; i < 1+rng.Intn(5); i++ {
			d := rng.Bytes(rng.Intn(200))
			j.Write([]byte{0xFF, byte(0xE0 + rng.Intn(16)), byte((len(d) + 2) >> 8), byte(len(d) + 2)})
			j.Write(d)
		}
		add(fmt.Sprintf("jpeg-start %d bytes + complete file", j.Len()), append(j.Bytes(), byFmt[[]string{"WebP", "PNG"}[k%2]]...))
	}
	for _, rf := range realFiles() {
		add("real:"+rf.Name, rf.Bytes)
	}
	for _, f := range boundaryFiles(seed, thorough) {
		add(f.Name, f.Bytes)
	}
	for _, f := range bigFiles(seed) {
		add(f.Name, f.Bytes)
	}
	// the first 1 .. 7 bytes of another format's signature in front of a complete file, and a PNG
	// whose signature has one byte damaged: every candidate sees the stream from its first byte
	for i, s := range seeds {
		if s.Truth.Format == "" || len(s.Bytes) < 12 {
			continue
		}
		for k := 1; k <= 7; k++ {
			if (i+k)%3 == 0 {
				add(fmt.Sprintf("%s+png-signature-prefix-%d", s.Name, k), append(append([]byte{}, imggen.PNGSig[:k]...), s.Bytes...))
			}
		}
		if s.Truth.Format == "PNG" {
			for pos := 1; pos < 8; pos++ {
				d := append([]byte{}, s.Bytes...)
				d[pos] ^= 0x20
				add(fmt.Sprintf("%s+signature-byte-%d-damaged", s.Name, pos), d)
			}
			for cut := 1; cut <= 8; cut++ {
				add(fmt.Sprintf("%s[:%d]", s.Name, cut), s.Bytes[:cut])
			}
		}
	}
	// twins: files that differ only in part of the profile - same length, same first 132 bytes
	// (header with a non-zero profile ID, tag count), same last 16 bytes - loaded one after the other
	{
		pa := structuredProfile(rng, 3)
		for i := 84; i < 100; i++ {
			pa[i] = byte(0x11 * (i - 83))
		}
		pb := append([]byte{}, pa...)
		for i := 140; i < len(pb)-16; i += 3 {
			pb[i] ^= 0x5A
		}
		for k, prof := range [][]byte{pa, pb, pa} {
			jf, _ := imggen.JPEGSpec{Precision: 8, W: 40, H: 30, Comps: imggen.StdComps(3, 1, 1), Before: []imggen.JPEGSeg{imggen.ICCChunkSeg(1, 1, prof)}, ICC: prof, ICCState: "ok", Entropy: []byte{1}}.Build()
			add(fmt.Sprintf("twin-profile jpeg #%d", k), jf)
			wf, _ := imggen.WebPSpec{Kind: "VP8X", W: 40, H: 30, ICC: prof, Payload: []byte{1, 2}}.Build()
			add(fmt.Sprintf("twin-profile webp #%d", k), wf)
			pf, _ := imggen.PNGSpec{W: 40, H: 30, Depth: 8, ColorType: 2, ICC: &imggen.PNGICC{Name: "twin", Profile: prof, Level: 6}, IDAT: []byte{1}}.Build()
			add(fmt.Sprintf("twin-profile png #%d", k), pf)
		}
	}
	// bytes in front of a complete file (line ends, blanks, NULs, fill bytes, a byte-order mark):
	// auto-detection succeeds exactly when a specific loader does
	for i, s := range seeds {
		if s.Truth.Format == "" || len(s.Bytes) == 0 {
			continue
		}
		for k, lead := range [][]byte{[]byte("\r\n"), []byte(" "), []byte("\t\n "), {0}, {0xFF, 0xFF}, []byte("\xef\xbb\xbf")} {
			if (i+k)%2 == 0 {
				add(fmt.Sprintf("%s+leader%x", s.Name, lead), append(append([]byte{}, lead...), s.Bytes...))
			}
		}
	}
	for _, f := range hostileSpecials() {
		add(f.Name, f.Bytes)
	}
	return in
}

func runC19(r *core.Run) {
	r.Rule = "inputs: valid files of C05/C06's generators (profiles up to several hundred KB, metadata beyond 64 KiB), the seed files with every short prefix and structural truncation, seeded structure-aware mutations, polyglots (one format's first structures followed by another format's complete file; PNG-parser-busy prefixes; JPEG starts without SOF), real files; under all-at-once / 1-byte / random schedules, read out immediately or after another interleaved load. autometa.Load must equal the first of pngmeta/jpegmeta/webpmeta.Load that succeeds on the complete bytes (or fail when none does) and its stream must replay the input. non-trivial = distinct inputs on which an earlier candidate consumed more than 16 bytes before failing (or none succeeds after more than 16 bytes consumed)"
	r.Assumptions = []string{"the three specific loaders are the reference; their own correctness is C05/C06's business"}
	c19FirstUse(r)
	if isBurst(r.Variant) {
		return
	}
	in := c19Inputs(r.Seed, r.Thorough())
	rng := core.NewRNG(r.Seed, "C19", "sched")
	seeds := make([]uint64, len(in))
	for i := range seeds {
		seeds[i] = rng.U64()
	}
	var outcomes [3]int64
	core.ParallelFor(len(in), 16, func(i int) {
		x := in[i]
		tempAt := int64(0)
		if len(x.bytes) > 0 {
			tempAt = int64(seeds[i] % uint64(len(x.bytes)))
			if i%3 == 0 && len(x.bytes) > 4200 {
				tempAt = 4096 + int64(seeds[i]%100)
			}
		}
		for si, sc := range []string{"all", "1", "random17", fmt.Sprintf("seeker@%d", 1+i%23), "data+eof", "4096+data+eof", "pipe", "zero-nil", fmt.Sprintf("kind:%d", 1+i%7), fmt.Sprintf("temporary@%d", tempAt),
			fmt.Sprintf("fault:%s@%d", []string{"io.ErrUnexpectedEOF", "wrapped io.EOF", "io.ErrClosedPipe", "wrapped io.ErrUnexpectedEOF"}[i%4], c19FaultAt(x.bytes, seeds[i])),
			"named:" + []string{".jpg", ".png", ".webp", ".jpeg", ".JPG", ".gif", ".tmp"}[i%7]} {
			if strings.HasPrefix(sc, "named:") && i%5 != 0 {
				continue
			}
			if sc == "pipe" && i%4 != 0 {
				continue
			}
			if sc == "1" && len(x.bytes) > 100000 {
				continue
			}
			deferred := (i+si)%4 == 0
			kind, msg, nt := c19Check(x.bytes, sc, seeds[i], deferred)
			r.AddEvals(1)
			if nt {
				r.NTHash(fnv64(x.bytes))
			}
			if kind != "" {
				cs := c19Case{Name: x.name, Schedule: sc, SchedSeed: seeds[i], Deferred: deferred}
				if len(x.bytes) <= 200000 {
					cs.File = base64.StdEncoding.EncodeToString(x.bytes)
				} else {
					dir := filepath.Join(core.OutDir(), "replays", r.Prop)
					_ = os.MkdirAll(dir, 0o755)
					cs.Path = filepath.Join(dir, fmt.Sprintf("witness-%016x.bin", fnv64(x.bytes)))
					_ = os.WriteFile(cs.Path, x.bytes, 0o644)
				}
				r.Violate("input", kind+"/"+sc, x.name+": "+msg, cs)
			}
		}
	})
	_ = outcomes
	if r.Variant == "" {
		// three inputs above 70 000 bytes (one per format if there is one) through the slow pipe, at the same time
		var slow []c19Input
		seen := map[string]bool{}
		for _, x := range in {
			if len(x.bytes) > 70100 && len(x.bytes) < 3<<20 {
				exp, _ := c19Expected(x.bytes)
				if exp.OK && !seen[exp.Format] {
					seen[exp.Format] = true
					slow = append(slow, x)
				}
			}
			if len(slow) == 3 {
				break
			}
		}
		core.ParallelFor(len(slow), 3, func(i int) {
			kind, msg, _ := c19Check(slow[i].bytes, "slow-pipe", 0, false)
			r.AddEvals(1)
			if kind != "" {
				r.Violate("input", kind+"/slow-pipe", slow[i].name+": "+msg, c19Case{Name: slow[i].name, Schedule: "slow-pipe", File: base64.StdEncoding.EncodeToString(slow[i].bytes)})
			}
		})
		r.Obs("inputs_through_a_slow_pipe", len(slow))
	}
	if r.Variant == "" {
		// first use of the auto-detecting loader under contention, in many fresh processes
		var vs []string
		for rep := 0; rep < 8; rep++ {
			for _, v := range burstVariants {
				i := strings.LastIndex(v, "@")
				vs = append(vs, fmt.Sprintf("%s+rep%d%s", v[:i], rep, v[i:]))
			}
		}
		// arrivals spread over nanoseconds (see firstUseFine), at several spacings and core counts
		for rep := 0; rep < 6; rep++ {
			for _, step := range []int{3, 7, 15, 30, 60, 120, 250, 500} {
				for _, procs := range []int{8, 16, 4} {
					vs = append(vs, fmt.Sprintf("burst+fine%d+rep%d@%d", step, rep, procs))
				}
			}
		}
		core.ParallelFor(len(vs), 6, func(i int) { r.RunVariantChild(vs[i], 5*time.Minute, false) })
		r.Obs("fresh_process_first_use_bursts", len(vs))
	}
	r.Obs("inputs", len(in))
	r.Sample(map[string]any{"name": in[len(in)/3].name, "bytes": len(in[len(in)/3].bytes)})
	r.Sample(map[string]any{"name": in[len(in)-30].name, "bytes": len(in[len(in)-30].bytes)})
}

func replayC19(stage string, raw json.RawMessage) (bool, string, error) {
	var cs c19Case
	if err := json.Unmarshal(raw, &cs); err != nil {
		return false, "", err
	}
	var data []byte
	var err error
	if cs.Path != "" {
		data, err = os.ReadFile(cs.Path)
	} else {
		data, err = base64.StdEncoding.DecodeString(cs.File)
	}
	if err != nil {
		return false, "", err
	}
	k, m, _ := c19Check(data, cs.Schedule, cs.SchedSeed, cs.Deferred)
	return k != "", m, nil
}

func init() {
	core.Register(&core.Property{ID: "C19", Level: "exploration", Run: runC19, Replay: replayC19, Child: variantChild("C19", "exploration", runC19)})
}
