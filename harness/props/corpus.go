package props

import (
	"bufio"
	"bytes"
	"fmt"
	"image"
	"image/color"
	"image/jpeg"
	"image/png"
	"io"
	"os"
	"path/filepath"
	"strings"
	"sync"

	"verifharness/internal/core"
	"verifharness/internal/imggen"
)

type genFile struct {
	Name  string
	Bytes []byte
	Truth imggen.Truth
}

// ---- PNG building blocks ----------------------------------------------------

var pngTypeDepths = [][2]uint8{{0, 1}, {0, 2}, {0, 4}, {0, 8}, {0, 16}, {2, 8}, {2, 16}, {3, 1}, {3, 2}, {3, 4}, {3, 8}, {4, 8}, {4, 16}, {6, 8}, {6, 16}}

func latin1(rng *core.RNG, n int) string {
	b := make([]byte, n)
	for i := range b {
		b[i] = byte(32 + rng.Intn(95))
		if rng.Intn(4) == 0 { // the upper half of Latin-1 (161..255), which PNG keywords and profile names may use
			b[i] = byte(161 + rng.Intn(95))
		}
	}
	return string(b)
}

// tiffExif builds a small well-formed Exif TIFF block (either byte order): IFD0 with Orientation,
// ImageWidth / ImageLength and an Exif sub-IFD with PixelXDimension / PixelYDimension - all of
// them stating dimensions other than the image's own. None of this is the image header: the
// properties quantify over files that may carry any such block.
func tiffExif(rng *core.RNG) []byte {
	big := rng.Bool()
	var b []byte
	p16 := func(v int) {
		if big {
			b = append(b, byte(v>>8), byte(v))
		} else {
			b = append(b, byte(v), byte(v>>8))
		}
	}
	p32 := func(v int) {
		if big {
			b = append(b, byte(v>>24), byte(v>>16), byte(v>>8), byte(v))
		} else {
			b = append(b, byte(v), byte(v>>8), byte(v>>16), byte(v>>24))
		}
	}
	if big {
		b = append(b, 'M', 'M')
	} else {
		b = append(b, 'I', 'I')
	}
	p16(42)
	p32(8)
	entry := func(tag, typ, count, value int) {
		p16(tag)
		p16(typ)
		p32(count)
		if typ == 3 { // SHORT: left-justified in the 4-byte value field
			p16(value)
			p16(0)
		} else {
			p32(value)
		}
	}
	p16(4)
	entry(0x0100, 4, 1, 1+rng.Intn(70000)) // ImageWidth
	entry(0x0101, 4, 1, 1+rng.Intn(70000)) // ImageLength
	entry(0x0112, 3, 1, 1+rng.Intn(8))     // Orientation 1..8
	entry(0x8769, 4, 1, 8+2+4*12+4)        // Exif IFD pointer
	p32(0)
	p16(2)
	entry(0xA002, 4, 1, 1+rng.Intn(70000)) // PixelXDimension
	entry(0xA003, 4, 1, 1+rng.Intn(70000)) // PixelYDimension
	p32(0)
	return b
}

// randAncillary returns a random sequence of legal ancillary chunks that may
// precede IDAT (contents are plausible; none is interpreted by prism).
func randAncillary(rng *core.RNG, max int, big bool) []imggen.PNGChunk {
	var out []imggen.PNGChunk
	n := rng.Intn(max + 1)
	for i := 0; i < n; i++ {
		switch rng.Intn(14) {
		case 13: // private ancillary chunks whose names differ from a chunk the loader handles only in the
			// case of a letter (the case bits are part of the name: these are other chunks, and decoders
			// skip them)
			switch rng.Intn(6) {
			case 0:
				hdr := append(append(be32c(uint32(1+rng.Intn(5000))), be32c(uint32(1+rng.Intn(5000)))...), []byte{16, 2, 0, 0, 0}...)
				out = append(out, imggen.PNGChunk{Type: []string{"ihDR", "ihDr", "iHDR", "ihdr"}[rng.Intn(4)], Data: hdr})
			case 1:
				out = append(out, imggen.PNGChunk{Type: []string{"idAT", "idat", "idAt"}[rng.Intn(3)], Data: rng.Bytes(rng.Intn(50))})
			case 2:
				out = append(out, imggen.PNGChunk{Type: []string{"ieND", "iend"}[rng.Intn(2)]})
			case 3:
				out = append(out, imggen.PNGChunk{Type: []string{"icCP", "iccp", "icCp"}[rng.Intn(3)], Data: append(append([]byte("other"), 0, 0), imggen.Deflate(rng.Bytes(140), 6)...)})
			case 4:
				out = append(out, imggen.PNGChunk{Type: []string{"plTE", "plte"}[rng.Intn(2)], Data: rng.Bytes(3 * (1 + rng.Intn(8)))})
			case 5:
				out = append(out, imggen.PNGChunk{Type: []string{"trNS", "exIf", "srGB"}[rng.Intn(3)], Data: rng.Bytes(1 + rng.Intn(6))})
			}
		case 0:
			out = append(out, imggen.PNGChunk{Type: "gAMA", Data: []byte{0, 0, 0xb1, 0x8f}})
		case 1:
			out = append(out, imggen.PNGChunk{Type: "cHRM", Data: rng.Bytes(32)})
		case 2:
			out = append(out, imggen.PNGChunk{Type: "sBIT", Data: []byte{8, 8, 8}})
		case 3:
			out = append(out, imggen.PNGChunk{Type: "pHYs", Data: append(rng.Bytes(8), 1)})
		case 4:
			out = append(out, imggen.PNGChunk{Type: "tEXt", Data: append(append([]byte("Comment"), 0), []byte(latin1(rng, rng.Intn(200)))...)})
		case 5:
			out = append(out, imggen.PNGChunk{Type: "zTXt", Data: append(append([]byte("Raw"), 0, 0), imggen.Deflate([]byte(latin1(rng, rng.Intn(300))), 6)...)})
		case 6:
			out = append(out, imggen.PNGChunk{Type: "iTXt", Data: append(append([]byte("Title"), 0, 0, 0, 0, 0), []byte(latin1(rng, rng.Intn(100)))...)})
		case 7:
			out = append(out, imggen.PNGChunk{Type: "tIME", Data: []byte{0x07, 0xe8, 2, 29, 12, 34, 56}})
		case 8:
			out = append(out, imggen.PNGChunk{Type: "prVt", Data: rng.Bytes(rng.Intn(64))})
		case 9:
			if big {
				out = append(out, imggen.PNGChunk{Type: "tEXt", Data: append(append([]byte("Big"), 0), []byte(latin1(rng, 3000+rng.Intn(9000)))...)})
			}
		case 10:
			if rng.Bool() {
				out = append(out, imggen.PNGChunk{Type: "eXIf", Data: tiffExif(rng)})
			} else {
				out = append(out, imggen.PNGChunk{Type: "eXIf", Data: rng.Bytes(rng.Intn(40))})
			}
		case 11: // APNG: animation control and a frame control chunk with its own width / height / offsets
			fc := append(append(append([]byte{0, 0, 0, 0}, be32c(uint32(1+rng.Intn(4000)))...), be32c(uint32(1+rng.Intn(4000)))...), rng.Bytes(18)...)
			out = append(out, imggen.PNGChunk{Type: "acTL", Data: []byte{0, 0, 0, 2, 0, 0, 0, 0}}, imggen.PNGChunk{Type: "fcTL", Data: fc})
		case 12: // non-square pixels, sRGB intent, significant bits, background
			out = append(out, imggen.PNGChunk{Type: "pHYs", Data: append(append(be32c(uint32(1+rng.Intn(9000))), be32c(uint32(1+rng.Intn(9000)))...), byte(rng.Intn(2)))},
				imggen.PNGChunk{Type: "sRGB", Data: []byte{byte(rng.Intn(4))}})
		}
	}
	return out
}

// zlibWindow rewrites the header of a zlib stream so that it declares a window of 2^(cinfo+8)
// bytes (CMF = cinfo<<4 | 8, FLG check bits recomputed). The stream stays valid as long as the
// window is at least as large as the data: writers such as libpng declare the smallest window
// that fits (CMF 0x08 ... 0x68 for small payloads), Go's writer always declares 32 KiB (0x78).
func zlibWindow(stream []byte, dataLen int, cinfo int) []byte {
	for cinfo < 7 && (1<<(uint(cinfo)+8)) < dataLen {
		cinfo++
	}
	out := append([]byte{}, stream...)
	if len(out) < 2 {
		return out
	}
	out[0] = byte(cinfo<<4) | 8
	out[1] &= 0xE0
	if rem := (int(out[0])<<8 | int(out[1])) % 31; rem != 0 {
		out[1] += byte(31 - rem)
	}
	return out
}

// colourChunks returns tRNS / bKGD / sBIT chunks of the size the colour type prescribes. Without a
// palette they may stand anywhere between IHDR and IDAT, in front of iCCP too.
func colourChunks(rng *core.RNG, ct uint8) []imggen.PNGChunk {
	var out []imggen.PNGChunk
	n := map[uint8]int{0: 2, 2: 6, 4: 2, 6: 6}[ct]
	if n == 0 {
		return nil
	}
	if (ct == 0 || ct == 2) && rng.Bool() {
		out = append(out, imggen.PNGChunk{Type: "tRNS", Data: rng.Bytes(n)})
	}
	if rng.Bool() {
		out = append(out, imggen.PNGChunk{Type: "bKGD", Data: rng.Bytes(n)})
	}
	return out
}

func be32c(v uint32) []byte { return []byte{byte(v >> 24), byte(v >> 16), byte(v >> 8), byte(v)} }

func pngSpecFor(w, h uint32, ct, depth, interlace uint8, rng *core.RNG) imggen.PNGSpec {
	s := imggen.PNGSpec{W: w, H: h, Depth: depth, ColorType: ct, Interlace: interlace, IDAT: rng.Bytes(1 + rng.Intn(40))}
	if ct == 3 {
		s.Post = append(s.Post, imggen.PNGChunk{Type: "PLTE", Data: rng.Bytes(3 * (1 + rng.Intn(1<<depth)))})
		if rng.Bool() {
			s.Post = append(s.Post, imggen.PNGChunk{Type: "tRNS", Data: rng.Bytes(1)})
		}
	}
	return s
}

// ---- JPEG building blocks -----------------------------------------------------

func randJPEGSegs(rng *core.RNG, max int, big bool) []imggen.JPEGSeg {
	var out []imggen.JPEGSeg
	n := rng.Intn(max + 1)
	for i := 0; i < n; i++ {
		switch rng.Intn(12) {
		case 10: // quantisation tables in their other legal forms: 16-bit precision (Pq = 1, 129 bytes per
			// table), several tables in one segment, 8- and 16-bit tables mixed
			var pl []byte
			for t := 0; t < 1+rng.Intn(3); t++ {
				if rng.Bool() {
					pl = append(pl, byte(0x10|t))
					for k := 0; k < 64; k++ {
						pl = append(pl, byte(rng.Intn(3)), byte(1+rng.Intn(255)))
					}
				} else {
					pl = append(pl, byte(t))
					for k := 0; k < 64; k++ {
						pl = append(pl, byte(1+rng.Intn(255)))
					}
				}
			}
			out = append(out, imggen.JPEGSeg{Marker: 0xDB, Payload: pl, Name: "DQT16"})
		case 11: // several Huffman tables in one DHT segment (class / id nibbles 0x00, 0x10, 0x01, 0x11)
			var pl []byte
			hi := rng.Intn(2) == 0 // destinations 2 and 3 (extended and progressive frames may use four tables per class)
			for t := 0; t < 1+rng.Intn(4); t++ {
				id := []byte{0x00, 0x10, 0x01, 0x11}[t]
				if hi {
					id += 2
				}
				pl = append(pl, id)
				counts := make([]byte, 16)
				total := 0
				for k := range counts {
					c := rng.Intn(3)
					counts[k] = byte(c)
					total += c
				}
				pl = append(pl, counts...)
				for k := 0; k < total; k++ {
					pl = append(pl, byte(k))
				}
			}
			out = append(out, imggen.JPEGSeg{Marker: 0xC4, Payload: pl, Name: "DHTmulti"})
		case 8: // a well-formed Exif block: orientation 1..8 and dimension tags that disagree with the frame header
			out = append(out, imggen.JPEGSeg{Marker: 0xE1, Payload: append([]byte("Exif\x00\x00"), tiffExif(rng)...), Name: "APP1exif"})
		case 9: // JFIF with non-square density and a thumbnail of its own size; Adobe APP14 transform flag
			tw, th := 1+rng.Intn(6), 1+rng.Intn(6)
			jf := append([]byte("JFIF\x00\x01\x02"), byte(rng.Intn(3)), 0, byte(1+rng.Intn(250)), 0, byte(1+rng.Intn(250)), byte(tw), byte(th))
			out = append(out, imggen.JPEGSeg{Marker: 0xE0, Payload: append(jf, rng.Bytes(3*tw*th)...), Name: "APP0thumb"},
				imggen.JPEGSeg{Marker: 0xEE, Payload: []byte{'A', 'd', 'o', 'b', 'e', 0, 100, 0, 0, 0, 0, byte(rng.Intn(3))}, Name: "APP14"})
		case 0:
			out = append(out, imggen.JPEGSeg{Marker: 0xE0, Payload: append([]byte("JFIF\x00\x01\x02\x00\x00\x01\x00\x01\x00\x00"), nil...), Name: "APP0"})
		case 1:
			out = append(out, imggen.JPEGSeg{Marker: 0xE1, Payload: append([]byte("Exif\x00\x00"), rng.Bytes(rng.Intn(300))...), Name: "APP1"})
		case 2:
			out = append(out, imggen.JPEGSeg{Marker: byte(0xE0 + rng.Intn(16)), Payload: rng.Bytes(rng.Intn(120)), Name: "APPn"})
		case 3:
			out = append(out, imggen.JPEGSeg{Marker: 0xFE, Payload: []byte(latin1(rng, rng.Intn(200))), Name: "COM"})
		case 4:
			t := imggen.RealTables()
			out = append(out, t[rng.Intn(len(t))])
		case 5:
			out = append(out, imggen.JPEGSeg{Marker: 0xDD, Payload: []byte{0, byte(rng.Intn(256))}, Name: "DRI"})
		case 6:
			// APP2 that is not an ICC chunk (e.g. FlashPix), one too short to hold the identifier,
			// and one that is exactly (a prefix of) the identifier with nothing or one byte after it
			if rng.Intn(3) == 0 {
				id := []byte("ICC_PROFILE\x00\x01")
				out = append(out, imggen.JPEGSeg{Marker: 0xE2, Payload: append([]byte{}, id[:rng.Range(9, 13)]...), Name: "APP2id"})
			} else if rng.Bool() {
				out = append(out, imggen.JPEGSeg{Marker: 0xE2, Payload: append([]byte("FPXR\x00"), rng.Bytes(rng.Intn(60))...), Name: "APP2x"})
			} else {
				out = append(out, imggen.JPEGSeg{Marker: 0xE2, Payload: rng.Bytes(rng.Intn(13)), Name: "APP2s"})
			}
		case 7:
			if big {
				out = append(out, imggen.JPEGSeg{Marker: 0xE1, Payload: append([]byte("Exif\x00\x00"), rng.Bytes(5000+rng.Intn(60000))...), Name: "APP1big"})
			}
		}
	}
	return out
}

var jpegSamplings = [][2]byte{{1, 1}, {2, 1}, {1, 2}, {2, 2}, {4, 1}, {4, 2}, {1, 4}, {3, 1}}

// ---- real files ---------------------------------------------------------------

type realFile struct {
	Name   string
	Bytes  []byte
	Format string
}

func realFiles() []realFile {
	var out []realFile
	dir := filepath.Join(core.RepoDir(), "test-images")
	ents, _ := os.ReadDir(dir)
	for _, e := range ents {
		b, err := os.ReadFile(filepath.Join(dir, e.Name()))
		if err != nil {
			continue
		}
		f := ""
		switch filepath.Ext(e.Name()) {
		case ".png":
			f = "PNG"
		case ".jpg":
			f = "JPEG"
		case ".webp":
			f = "WebP"
		}
		out = append(out, realFile{e.Name(), b, f})
	}
	return out
}

// encodedSamples returns real encoder output of small random images.
func encodedSamples(rng *core.RNG, n int) []realFile {
	var out []realFile
	for i := 0; i < n; i++ {
		w, h := 1+rng.Intn(40), 1+rng.Intn(40)
		img := image.NewNRGBA(image.Rect(0, 0, w, h))
		rng.Fill(img.Pix)
		var b bytes.Buffer
		if i%2 == 0 {
			_ = png.Encode(&b, img)
			out = append(out, realFile{fmt.Sprintf("png.Encode-%dx%d", w, h), b.Bytes(), "PNG"})
		} else {
			op := image.NewRGBA(img.Rect)
			for j := 0; j < w*h; j++ {
				op.SetRGBA(j%w, j/w, color.RGBA{img.Pix[4*j], img.Pix[4*j+1], img.Pix[4*j+2], 255})
			}
			_ = jpeg.Encode(&b, op, &jpeg.Options{Quality: 1 + rng.Intn(100)})
			out = append(out, realFile{fmt.Sprintf("jpeg.Encode-%dx%d", w, h), b.Bytes(), "JPEG"})
		}
	}
	return out
}

// profileBytes makes a payload of n bytes: kind 0 zeros, 1 text, 2 incompressible.
func profileBytes(rng *core.RNG, n, kind int) []byte {
	b := make([]byte, n)
	switch kind % 3 {
	case 1:
		for i := range b {
			b[i] = "ICC profile payload text, fairly compressible. "[i%47]
		}
	case 2:
		rng.Fill(b)
		// half of the incompressible payloads look like a profile to a casual glance: 'acsp' at offset
		// 36 and a size field that is exact, understates or overstates the payload (embedded bytes are
		// to be returned as they are, whatever they claim about themselves)
		if n >= 132 && rng.Intn(2) == 0 {
			copy(b[36:], "acsp")
			size := uint32(n)
			switch rng.Intn(3) {
			case 1:
				size = uint32(128 + rng.Intn(n-128))
			case 2:
				size = uint32(n + 1 + rng.Intn(1000))
			}
			b[0], b[1], b[2], b[3] = byte(size>>24), byte(size>>16), byte(size>>8), byte(size)
		}
	}
	if n > 0 && b[0] == 0 && kind%3 == 0 {
		b[n-1] = 1 // keep the final byte recognisable
	}
	// one payload in five carries a small complete image of another format near its start (a profile
	// with a preview in a private tag, say): embedded bytes are opaque, and a loader that looks for
	// format signatures anywhere but at the start of the file finds one here
	if n >= 200 && rng.Intn(5) == 0 {
		inner := nestedImage(rng)
		if len(inner) < n {
			off := rng.Intn(n - len(inner))
			if off > 700 {
				off = rng.Intn(700)
			}
			if kind%3 == 2 && off < 40 && string(b[36:40]) == "acsp" {
				off = 40 + rng.Intn(88)
				if off+len(inner) > n {
					return b
				}
			}
			copy(b[off:], inner)
		}
	}
	return b
}

// nestedImage returns a small well-formed JPEG, PNG or WebP.
func nestedImage(rng *core.RNG) []byte {
	switch rng.Intn(4) {
	case 0:
		b, _ := pngSpecFor(uint32(1+rng.Intn(300)), uint32(1+rng.Intn(300)), 2, 8, 0, rng).Build()
		return b
	case 1:
		b, _ := imggen.WebPSpec{Kind: "VP8L", W: uint32(1 + rng.Intn(300)), H: uint32(1 + rng.Intn(300)), Payload: rng.Bytes(4)}.Build()
		return b
	}
	s := imggen.JPEGSpec{Precision: 8, W: 1 + rng.Intn(300), H: 1 + rng.Intn(300), Comps: imggen.StdComps(3, 1, 1), Entropy: []byte{1, 2, 3}}
	b, _ := s.Build()
	return b
}

// ---- small seed files for the prefix / fault / mutation workloads --------------

// structuredProfile returns a small well-formed ICC profile (so that the
// accessor chain Load -> ICCProfile -> Description has something to parse).
func structuredProfile(rng *core.RNG, mlucRecs int) []byte {
	var desc []byte
	if mlucRecs == 0 {
		desc = imggen.TextDescription("Seed profile " + latin1(rng, 8))
	} else {
		recs := make([]imggen.MlucRecord, mlucRecs)
		for i := range recs {
			recs[i] = imggen.MlucRecord{Lang: []string{"en", "de", "fr", "ja"}[i%4], Country: "US", Text: c17Text(rng, "ascii", 6+rng.Intn(10))}
		}
		desc, _ = imggen.Mluc(recs, nil, 0, 12)
	}
	b, _ := imggen.ICCSpec{Header: imggen.MinimalHeader(mlucRecs > 0), Tags: []imggen.ICCTag{
		{Sig: "desc", Data: desc}, {Sig: "cprt", Data: rng.Bytes(24)}, {Sig: "wtpt", Data: rng.Bytes(20)}}}.Build()
	return b
}

func smallSeeds(seed int64) []genFile {
	rng := core.NewRNG(seed, "smallseeds")
	var out []genFile
	add := func(name string, b []byte, t imggen.Truth) { out = append(out, genFile{name, b, t}) }
	// PNG without / with profile
	{
		s := pngSpecFor(300, 200, 6, 8, 0, rng)
		s.Pre = []imggen.PNGChunk{{Type: "gAMA", Data: []byte{0, 0, 0xb1, 0x8f}}, {Type: "tEXt", Data: []byte("Comment\x00hello")}}
		s.IDAT = rng.Bytes(120)
		b, t := s.Build()
		add("png-noicc", b, t)
		s.ICC = &imggen.PNGICC{Name: "seed", Profile: structuredProfile(rng, 0), Level: 6}
		b, t = s.Build()
		add("png-icc-v2", b, t)
		s.ICC = &imggen.PNGICC{Name: "a much longer profile name, still legal", Profile: structuredProfile(rng, 3), Level: 0}
		s.Post = []imggen.PNGChunk{{Type: "pHYs", Data: []byte{0, 0, 1, 0, 0, 0, 1, 0, 1}}}
		b, t = s.Build()
		add("png-icc-v4-stored", b, t)
	}
	// JPEG without profile, 1 chunk, 3 chunks (permuted, after SOF)
	{
		tbl := imggen.RealTables()
		base := imggen.JPEGSpec{Precision: 8, W: 640, H: 480, Comps: imggen.StdComps(3, 2, 2), Entropy: []byte{0x12, 0x34, 0xFF, 0x00, 0x56, 0xFF, 0xD0, 0x78}}
		s := base
		s.Before = append([]imggen.JPEGSeg{{Marker: 0xE0, Payload: []byte("JFIF\x00\x01\x02\x00\x00\x01\x00\x01\x00\x00"), Name: "APP0"}}, tbl...)
		b, t := s.Build()
		add("jpeg-noicc", b, t)
		p := structuredProfile(rng, 2)
		s = base
		s.Progressive = true
		s.Before = []imggen.JPEGSeg{{Marker: 0xE1, Payload: append([]byte("Exif\x00\x00"), rng.Bytes(60)...), Name: "APP1"}, imggen.ICCChunkSeg(1, 1, p), {Marker: 0xFE, Payload: []byte("comment"), Name: "COM"}}
		s.ICC, s.ICCState = p, "ok"
		b, t = s.Build()
		add("jpeg-icc-1chunk", b, t)
		parts := imggen.SplitICC(p, 3)
		s = base
		s.Before = []imggen.JPEGSeg{tbl[0]}
		s.After = []imggen.JPEGSeg{imggen.ICCChunkSeg(3, 3, parts[2]), {Marker: 0xE2, Payload: []byte("FPXR\x00junk"), Name: "APP2x"}, imggen.ICCChunkSeg(1, 3, parts[0]), imggen.ICCChunkSeg(2, 3, parts[1])}
		s.ICC, s.ICCState = p, "ok"
		b, t = s.Build()
		add("jpeg-icc-3chunks-after-sof", b, t)
	}
	// WebP simple / lossless / extended with and without profile
	{
		b, t := imggen.WebPSpec{Kind: "VP8", W: 550, H: 368, Payload: rng.Bytes(60)}.Build()
		add("webp-vp8", b, t)
		b, t = imggen.WebPSpec{Kind: "VP8L", W: 1000, H: 3, Alpha: true, Payload: rng.Bytes(40)}.Build()
		add("webp-vp8l", b, t)
		b, t = imggen.WebPSpec{Kind: "VP8X", W: 70000, H: 9, Flags: 0x10, Payload: rng.Bytes(30)}.Build()
		add("webp-vp8x-noicc", b, t)
		b, t = imggen.WebPSpec{Kind: "VP8X", W: 1234, H: 4321, ICC: structuredProfile(rng, 1), Payload: rng.Bytes(30), Extra: [][2]any{{"EXIF", rng.Bytes(11)}}}.Build()
		add("webp-vp8x-icc", b, t)
	}
	// the repository's own small files
	for _, rf := range realFiles() {
		if len(rf.Bytes) <= 2048 {
			out = append(out, genFile{"real:" + rf.Name, rf.Bytes, imggen.Truth{Format: rf.Format, NeedEnd: len(rf.Bytes)}})
		}
	}
	// unrecognisable inputs
	add("garbage", rng.Bytes(300), imggen.Truth{Format: "", NeedEnd: 0})
	add("empty", nil, imggen.Truth{Format: ""})
	add("text", []byte("This is not an image at all, just 60-odd bytes of plain text.\n"), imggen.Truth{})
	return out
}

// boundaryFiles: well-formed files in which a multi-byte structure (chunk type, length field,
// segment header) straddles a multiple of the loaders' 4096-byte read-ahead buffer, and files
// with segments / chunks larger than 32 KiB before the needed structures.
func boundaryFiles(seed int64, dense bool) []genFile {
	rng := core.NewRNG(seed, "boundaryfiles")
	var out []genFile
	step := 1
	if !dense {
		step = 1
	}
	for _, base := range []int{4096, 8192} {
		for d := -70; d <= 30; d += step {
			l := base + d - 33 - 12 // 8 sig + 25 IHDR = 33, then this chunk's 8-byte header
			if l < 0 {
				continue
			}
			// PNG: tEXt of l bytes, then IDAT: the IDAT (or iCCP) chunk header lands around `base`
			s := pngSpecFor(uint32(1+rng.Intn(900)), uint32(1+rng.Intn(900)), 2, 8, 0, rng)
			s.Pre = []imggen.PNGChunk{{Type: "tEXt", Data: append([]byte("k\x00"), []byte(latin1(rng, l))...)}}
			if d%2 == 0 {
				s.ICC = &imggen.PNGICC{Name: "p", Profile: profileBytes(rng, 300, 2), Level: 0}
			}
			b, t := s.Build()
			out = append(out, genFile{fmt.Sprintf("png text=%d (structure near offset %d)", l+2, base+d), b, t})
			// JPEG: COM of l bytes then SOF
			js := imggen.JPEGSpec{Precision: 8, W: 1 + rng.Intn(900), H: 1 + rng.Intn(900), Comps: imggen.StdComps(3, 1, 1), Entropy: []byte{1}}
			js.Before = []imggen.JPEGSeg{{Marker: 0xFE, Payload: []byte(latin1(rng, base+d-2-4)), Name: "COM"}}
			if d%2 == 0 {
				p := profileBytes(rng, 200, 2)
				js.Before = append(js.Before, imggen.ICCChunkSeg(1, 1, p))
				js.ICC, js.ICCState = p, "ok"
			}
			jb, jt := js.Build()
			out = append(out, genFile{fmt.Sprintf("jpeg com=%d (structure near offset %d)", base+d-6, base+d), jb, jt})
		}
		// WebP: ICCP payload ending around base
		for d := -6; d <= 6; d++ {
			b, t := imggen.WebPSpec{Kind: "VP8X", W: 20, H: 30, ICC: profileBytes(rng, base+d-38, 2), Payload: rng.Bytes(10)}.Build()
			out = append(out, genFile{fmt.Sprintf("webp iccp ends near %d", base+d), b, t})
		}
	}
	// large segments / chunks (> 32 KiB, up to the 16-bit maximum) before the needed structures
	for _, l := range []int{32765, 32766, 32767, 32768, 32769, 40000, 65000, 65533} {
		js := imggen.JPEGSpec{Progressive: l%2 == 0, Precision: 8, W: 1 + rng.Intn(900), H: 1 + rng.Intn(900), Comps: imggen.StdComps(1, 1, 1), Entropy: []byte{1}}
		js.Before = []imggen.JPEGSeg{{Marker: byte(0xE1 + l%14), Payload: rng.Bytes(l), Name: "APPbig"}}
		jb, jt := js.Build()
		out = append(out, genFile{fmt.Sprintf("jpeg big segment payload=%d", l), jb, jt})
		s := pngSpecFor(uint32(1+rng.Intn(900)), uint32(1+rng.Intn(900)), 0, 16, 1, rng)
		s.Pre = []imggen.PNGChunk{{Type: "zTXt", Data: append([]byte("k\x00\x00"), rng.Bytes(l)...)}}
		b, t := s.Build()
		out = append(out, genFile{fmt.Sprintf("png big chunk=%d", l+3), b, t})
	}
	return out
}

// hostileSpecials: small crafted inputs on which a loader extracts metadata and then meets
// something it cannot parse (the cases where "metadata and an error" or a recovered panic arise).
func hostileSpecials() []genFile {
	var out []genFile
	sof := func(marker byte, payload []byte) []byte {
		return append([]byte{0xFF, marker, byte((len(payload) + 2) >> 8), byte(len(payload) + 2)}, payload...)
	}
	good := []byte{8, 0, 16, 0, 32, 1, 1, 0x11, 0}
	for _, m := range []byte{0xC0, 0xC2} {
		for n := 0; n <= 6; n++ {
			// a valid SOF followed by a SOF whose payload is too short
			b := append([]byte{0xFF, 0xD8}, sof(m, good)...)
			b = append(b, sof(m, good[:n])...)
			b = append(b, 0xFF, 0xDA, 0, 8, 1, 1, 0, 0, 63, 0, 1, 2, 0xFF, 0xD9)
			out = append(out, genFile{fmt.Sprintf("jpeg valid SOF%x then SOF with %d payload bytes", m, n), b, imggen.Truth{Format: "JPEG"}})
			// only the short SOF
			c := append([]byte{0xFF, 0xD8}, sof(m, good[:n])...)
			c = append(c, 0xFF, 0xD9)
			out = append(out, genFile{fmt.Sprintf("jpeg SOF%x with %d payload bytes", m, n), c, imggen.Truth{Format: "JPEG"}})
			// the short SOF behind a complete one-chunk profile, and behind the first of two chunks
			// (a profile half assembled when the frame header turns out to be unusable)
			for _, total := range []int{1, 2} {
				seg := imggen.ICCChunkSeg(1, total, []byte("profile bytes"))
				d := append([]byte{0xFF, 0xD8, 0xFF, seg.Marker, byte((len(seg.Payload) + 2) >> 8), byte(len(seg.Payload) + 2)}, seg.Payload...)
				d = append(d, sof(m, good[:n])...)
				d = append(d, 0xFF, 0xD9)
				out = append(out, genFile{fmt.Sprintf("jpeg ICC chunk 1 of %d then SOF%x with %d payload bytes", total, m, n), d, imggen.Truth{Format: "JPEG"}})
			}
		}
	}
	// segment length fields 0 and 1
	for _, l := range []byte{0, 1} {
		out = append(out, genFile{fmt.Sprintf("jpeg APP0 length %d", l), []byte{0xFF, 0xD8, 0xFF, 0xE0, 0, l, 0xFF, 0xC0, 0, 11, 8, 0, 5, 0, 7, 1, 1, 0x11, 0, 0xFF, 0xD9}, imggen.Truth{Format: "JPEG"}})
	}
	// PNG: IHDR shorter than 9 bytes / iCCP with empty stream / name without terminator
	pngc := func(chunks ...[]byte) []byte {
		b := append([]byte{}, imggen.PNGSig...)
		for _, c := range chunks {
			b = append(b, c...)
		}
		return b
	}
	chunk := func(typ string, data []byte) []byte {
		b := []byte{byte(len(data) >> 24), byte(len(data) >> 16), byte(len(data) >> 8), byte(len(data))}
		b = append(append(b, typ...), data...)
		return append(b, 1, 2, 3, 4)
	}
	ihdr := chunk("IHDR", []byte{0, 0, 0, 9, 0, 0, 0, 7, 8, 2, 0, 0, 0})
	out = append(out,
		genFile{"png IHDR of 5 bytes", pngc(chunk("IHDR", []byte{0, 0, 0, 9, 0}), chunk("IEND", nil)), imggen.Truth{Format: "PNG"}},
		genFile{"png iCCP with empty stream", pngc(ihdr, chunk("iCCP", []byte("n\x00\x00")), chunk("IDAT", []byte{1})), imggen.Truth{Format: "PNG"}},
		genFile{"png iCCP name without terminator", pngc(ihdr, chunk("iCCP", bytes.Repeat([]byte("x"), 90)), chunk("IDAT", []byte{1})), imggen.Truth{Format: "PNG"}},
		genFile{"png iCCP unknown compression", pngc(ihdr, chunk("iCCP", []byte("n\x00\x07abc")), chunk("IDAT", []byte{1})), imggen.Truth{Format: "PNG"}},
		genFile{"png two IHDR", pngc(ihdr, ihdr, chunk("IDAT", []byte{1})), imggen.Truth{Format: "PNG"}},
	)
	// embedded "profiles" of 0..5 bytes (shorter than any field of an ICC header) in every container
	for n := 0; n <= 5; n++ {
		tiny := []byte{0, 0, 0, 128, 'a'}[:n]
		wb, wt := imggen.WebPSpec{Kind: "VP8X", W: 20, H: 30, ICC: append([]byte{}, tiny...), Payload: []byte{1, 2, 3}}.Build()
		out = append(out, genFile{fmt.Sprintf("webp ICCP chunk of %d bytes", n), wb, wt})
		pb, pt := imggen.PNGSpec{W: 9, H: 7, Depth: 8, ColorType: 2, ICC: &imggen.PNGICC{Name: "t", Profile: append([]byte{}, tiny...), Level: 6}, IDAT: []byte{1}}.Build()
		out = append(out, genFile{fmt.Sprintf("png iCCP inflating to %d bytes", n), pb, pt})
		jb, jt := imggen.JPEGSpec{Precision: 8, W: 9, H: 7, Comps: imggen.StdComps(1, 1, 1), Before: []imggen.JPEGSeg{imggen.ICCChunkSeg(1, 1, append([]byte{}, tiny...))}, ICC: tiny, ICCState: "ok", Entropy: []byte{1}}.Build()
		out = append(out, genFile{fmt.Sprintf("jpeg ICC chunk of %d bytes", n), jb, jt})
	}
	// WebP: VP8X with wrong chunk length, VP8 with bad start code, VP8L bad signature
	out = append(out,
		genFile{"webp VP8X length 11", []byte("RIFF\x20\x00\x00\x00WEBPVP8X\x0b\x00\x00\x00\x20\x00\x00\x00\x01\x00\x00\x01\x00\x00\x00ICCP"), imggen.Truth{Format: "WebP"}},
		genFile{"webp VP8 bad start code", []byte("RIFF\x20\x00\x00\x00WEBPVP8 \x0a\x00\x00\x00\x10\x02\x00\x9d\x01\x2b\x10\x00\x10\x00"), imggen.Truth{Format: "WebP"}},
		genFile{"webp VP8L bad signature", []byte("RIFF\x20\x00\x00\x00WEBPVP8L\x05\x00\x00\x00\x2e\x00\x00\x00\x00"), imggen.Truth{Format: "WebP"}},
	)
	return out
}

// bigFiles: well-formed files whose needed structures lie behind, or are themselves, several MiB
// (a cap such as "no block above 4 MiB", "no more than 16 MiB buffered", "at most 64 chunks" passes
// every small corpus). Built on demand: about 120 MiB in all.
func bigFiles(seed int64) []genFile {
	bigMu.Lock()
	defer bigMu.Unlock()
	if bigCache != nil && bigSeed == seed {
		return bigCache
	}
	out := buildBigFiles(seed)
	bigCache, bigSeed = out, seed
	return out
}

var (
	bigMu    sync.Mutex
	bigCache []genFile
	bigSeed  int64
)

func buildBigFiles(seed int64) []genFile {
	rng := core.NewRNG(seed, "bigfiles")
	var out []genFile
	for _, n := range []int{4<<20 + 4097, 17 << 20, 33<<20 + 4097} {
		// PNG: one ancillary chunk of n bytes before IDAT, no profile
		s := pngSpecFor(uint32(1+rng.Intn(5000)), uint32(1+rng.Intn(5000)), 2, 8, 0, rng)
		s.Pre = []imggen.PNGChunk{{Type: "tEXt", Data: append([]byte("k\x00"), rng.Bytes(n)...)}}
		b, t := s.Build()
		out = append(out, genFile{fmt.Sprintf("big: png with a %d-byte tEXt chunk before IDAT", n+2), b, t})
		if n > 32<<20 { // the largest size only for structures in front of the needed data
			js := imggen.JPEGSpec{Precision: 8, W: 1 + rng.Intn(9000), H: 1 + rng.Intn(9000), Comps: imggen.StdComps(1, 1, 1), Entropy: []byte{1, 2, 3}}
			for got := 0; got < n; got += 65533 {
				js.Before = append(js.Before, imggen.JPEGSeg{Marker: 0xFE, Payload: rng.Bytes(65533), Name: "COMbig"})
			}
			jb, jt := js.Build()
			out = append(out, genFile{fmt.Sprintf("big: jpeg with %d COM segments (%d bytes) before SOF", len(js.Before), n), jb, jt})
			continue
		}
		// PNG: incompressible profile of n bytes (stored: the compressed stream is larger than n)
		s = pngSpecFor(uint32(1+rng.Intn(5000)), uint32(1+rng.Intn(5000)), 6, 16, 1, rng)
		s.ICC = &imggen.PNGICC{Name: latin1(rng, 9), Profile: profileBytes(rng, n, 2), Level: 1}
		b, t = s.Build()
		out = append(out, genFile{fmt.Sprintf("big: png with a %d-byte incompressible profile", n), b, t})
		// JPEG: n bytes of APPn / COM segments before SOF, no profile
		js := imggen.JPEGSpec{Precision: 8, W: 1 + rng.Intn(9000), H: 1 + rng.Intn(9000), Comps: imggen.StdComps(3, 2, 1), Entropy: []byte{1, 2, 3}}
		for got := 0; got < n; got += 65533 {
			js.Before = append(js.Before, imggen.JPEGSeg{Marker: byte(0xE1 + (got/65533)%15), Payload: rng.Bytes(65533), Name: "APPbig"})
		}
		jb, jt := js.Build()
		out = append(out, genFile{fmt.Sprintf("big: jpeg with %d segments (%d bytes) before SOF", len(js.Before), n), jb, jt})
		// JPEG: profile of n bytes in ceil(n/65519) chunks (up to 255), after SOF
		if n/65519 < 255 {
			p := profileBytes(rng, n, 2)
			js = imggen.JPEGSpec{Progressive: true, Precision: 8, W: 1 + rng.Intn(9000), H: 1 + rng.Intn(9000), Comps: imggen.StdComps(3, 1, 1), Entropy: []byte{1, 2, 3}}
			cnt := (n + 65518) / 65519
			for i, part := range imggen.SplitICC(p, cnt) {
				js.Before = append(js.Before, imggen.ICCChunkSeg(i+1, cnt, part))
			}
			js.ICC, js.ICCState = p, "ok"
			jb, jt = js.Build()
			out = append(out, genFile{fmt.Sprintf("big: jpeg with a %d-byte profile in %d chunks", n, cnt), jb, jt})
		}
		// WebP: ICCP chunk of n bytes
		wb, wt := imggen.WebPSpec{Kind: "VP8X", W: uint32(1 + rng.Intn(1<<20)), H: uint32(1 + rng.Intn(1<<20)), ICC: profileBytes(rng, n+1, 2), Payload: rng.Bytes(10)}.Build()
		out = append(out, genFile{fmt.Sprintf("big: webp with a %d-byte ICCP chunk", n+1), wb, wt})
	}
	return out
}

// readerKinds: the ways a caller may hand the same bytes to a loader. Every reader yields exactly
// `data` from its current position.
var readerKindNames = []string{"bytes.Reader", "bytes.Reader@offset", "strings.Reader@offset", "bufio.Reader", "bytes.Buffer", "plain io.Reader", "io.SectionReader", "io.LimitedReader"}

func readerOfKind(data []byte, k int) io.Reader {
	switch readerKindNames[k%len(readerKindNames)] {
	case "bytes.Reader@offset":
		off := 1 + len(data)%37
		br := bytes.NewReader(append(bytes.Repeat([]byte{0x89, 'P'}, off)[:off], data...))
		_, _ = br.Seek(int64(off), io.SeekStart)
		return br
	case "strings.Reader@offset":
		sr := strings.NewReader("RIFF\xff\xd8\x89PNG" + string(data))
		_, _ = sr.Seek(10, io.SeekStart)
		return sr
	case "bufio.Reader":
		return bufio.NewReaderSize(bytes.NewReader(data), 16+len(data)%5000)
	case "bytes.Buffer":
		return bytes.NewBuffer(append([]byte{}, data...))
	case "plain io.Reader":
		return struct{ io.Reader }{bytes.NewReader(data)}
	case "io.LimitedReader": // a part of a longer stream (an image inside a container, a multipart part)
		return &io.LimitedReader{R: bytes.NewReader(append(append([]byte{}, data...), []byte("--boundary\r\nContent-Type: text/plain\r\n\r\nmore")...)), N: int64(len(data))}
	case "io.SectionReader":
		return io.NewSectionReader(bytes.NewReader(append(make([]byte, 123), data...)), 123, int64(len(data)))
	}
	return bytes.NewReader(data)
}
