package props

import (
	"bytes"
	"fmt"
	"image"
	"image/color"
	"image/jpeg"
	"image/png"
	"os"
	"path/filepath"

	"verifharness/internal/core"
	"verifharness/internal/imggen"
)

type genFile struct {
	Name  string
	Bytes []byte
	Truth imggen.Truth
}

// ---- PNG building blocks ----------------------------------------------------

var pngTypeDepths = [][2]uint8{{0, 1}, {0, 2}, {0, 4}, {0, 8}, {0, 16}, {2, 8}, {2, 16}, {3, 1}, {3, 2}, {3, 4}, {3, 8}, {4, 8}, {4, 16}, {6, 8}, {6, 16}}

func latin1(rng *core.RNG, n int) string {
	b := make([]byte, n)
	for i := range b {
		b[i] = byte(32 + rng.Intn(95))
	}
	return string(b)
}

// randAncillary returns a random sequence of legal ancillary chunks that may
// precede IDAT (contents are plausible; none is interpreted by prism).
func randAncillary(rng *core.RNG, max int, big bool) []imggen.PNGChunk {
	var out []imggen.PNGChunk
	n := rng.Intn(max + 1)
	for i := 0; i < n; i++ {
		switch rng.Intn(11) {
		case 0:
			out = append(out, imggen.PNGChunk{Type: "gAMA", Data: []byte{0, 0, 0xb1, 0x8f}})
		case 1:
			out = append(out, imggen.PNGChunk{Type: "cHRM", Data: rng.Bytes(32)})
		case 2:
			out = append(out, imggen.PNGChunk{Type: "sBIT", Data: []byte{8, 8, 8}})
		case 3:
			out = append(out, imggen.PNGChunk{Type: "pHYs", Data: append(rng.Bytes(8), 1)})
		case 4:
			out = append(out, imggen.PNGChunk{Type: "tEXt", Data: append(append([]byte("Comment"), 0), []byte(latin1(rng, rng.Intn(200)))...)})
		case 5:
			out = append(out, imggen.PNGChunk{Type: "zTXt", Data: append(append([]byte("Raw"), 0, 0), imggen.Deflate([]byte(latin1(rng, rng.Intn(300))), 6)...)})
		case 6:
			out = append(out, imggen.PNGChunk{Type: "iTXt", Data: append(append([]byte("Title"), 0, 0, 0, 0, 0), []byte(latin1(rng, rng.Intn(100)))...)})
		case 7:
			out = append(out, imggen.PNGChunk{Type: "tIME", Data: []byte{0x07, 0xe8, 2, 29, 12, 34, 56}})
		case 8:
			out = append(out, imggen.PNGChunk{Type: "prVt", Data: rng.Bytes(rng.Intn(64))})
		case 9:
			if big {
				out = append(out, imggen.PNGChunk{Type: "tEXt", Data: append(append([]byte("Big"), 0), []byte(latin1(rng, 3000+rng.Intn(9000)))...)})
			}
		case 10:
			out = append(out, imggen.PNGChunk{Type: "eXIf", Data: rng.Bytes(rng.Intn(40))})
		}
	}
	return out
}

func pngSpecFor(w, h uint32, ct, depth, interlace uint8, rng *core.RNG) imggen.PNGSpec {
	s := imggen.PNGSpec{W: w, H: h, Depth: depth, ColorType: ct, Interlace: interlace, IDAT: rng.Bytes(1 + rng.Intn(40))}
	if ct == 3 {
		s.Post = append(s.Post, imggen.PNGChunk{Type: "PLTE", Data: rng.Bytes(3 * (1 + rng.Intn(1<<depth)))})
		if rng.Bool() {
			s.Post = append(s.Post, imggen.PNGChunk{Type: "tRNS", Data: rng.Bytes(1)})
		}
	}
	return s
}

// ---- JPEG building blocks -----------------------------------------------------

func randJPEGSegs(rng *core.RNG, max int, big bool) []imggen.JPEGSeg {
	var out []imggen.JPEGSeg
	n := rng.Intn(max + 1)
	for i := 0; i < n; i++ {
		switch rng.Intn(8) {
		case 0:
			out = append(out, imggen.JPEGSeg{Marker: 0xE0, Payload: append([]byte("JFIF\x00\x01\x02\x00\x00\x01\x00\x01\x00\x00"), nil...), Name: "APP0"})
		case 1:
			out = append(out, imggen.JPEGSeg{Marker: 0xE1, Payload: append([]byte("Exif\x00\x00"), rng.Bytes(rng.Intn(300))...), Name: "APP1"})
		case 2:
			out = append(out, imggen.JPEGSeg{Marker: byte(0xE0 + rng.Intn(16)), Payload: rng.Bytes(rng.Intn(120)), Name: "APPn"})
		case 3:
			out = append(out, imggen.JPEGSeg{Marker: 0xFE, Payload: []byte(latin1(rng, rng.Intn(200))), Name: "COM"})
		case 4:
			t := imggen.RealTables()
			out = append(out, t[rng.Intn(len(t))])
		case 5:
			out = append(out, imggen.JPEGSeg{Marker: 0xDD, Payload: []byte{0, byte(rng.Intn(256))}, Name: "DRI"})
		case 6:
			// APP2 that is not an ICC chunk (e.g. FlashPix), and one too short to hold the identifier
			if rng.Bool() {
				out = append(out, imggen.JPEGSeg{Marker: 0xE2, Payload: append([]byte("FPXR\x00"), rng.Bytes(rng.Intn(60))...), Name: "APP2x"})
			} else {
				out = append(out, imggen.JPEGSeg{Marker: 0xE2, Payload: rng.Bytes(rng.Intn(13)), Name: "APP2s"})
			}
		case 7:
			if big {
				out = append(out, imggen.JPEGSeg{Marker: 0xE1, Payload: append([]byte("Exif\x00\x00"), rng.Bytes(5000+rng.Intn(60000))...), Name: "APP1big"})
			}
		}
	}
	return out
}

var jpegSamplings = [][2]byte{{1, 1}, {2, 1}, {1, 2}, {2, 2}, {4, 1}, {4, 2}, {1, 4}, {3, 1}}

// ---- real files ---------------------------------------------------------------

type realFile struct {
	Name   string
	Bytes  []byte
	Format string
}

func realFiles() []realFile {
	var out []realFile
	dir := filepath.Join(core.RepoDir(), "test-images")
	ents, _ := os.ReadDir(dir)
	for _, e := range ents {
		b, err := os.ReadFile(filepath.Join(dir, e.Name()))
		if err != nil {
			continue
		}
		f := ""
		switch filepath.Ext(e.Name()) {
		case ".png":
			f = "PNG"
		case ".jpg":
			f = "JPEG"
		case ".webp":
			f = "WebP"
		}
		out = append(out, realFile{e.Name(), b, f})
	}
	return out
}

// encodedSamples returns real encoder output of small random images.
func encodedSamples(rng *core.RNG, n int) []realFile {
	var out []realFile
	for i := 0; i < n; i++ {
		w, h := 1+rng.Intn(40), 1+rng.Intn(40)
		img := image.NewNRGBA(image.Rect(0, 0, w, h))
		rng.Fill(img.Pix)
		var b bytes.Buffer
		if i%2 == 0 {
			_ = png.Encode(&b, img)
			out = append(out, realFile{fmt.Sprintf("png.Encode-%dx%d", w, h), b.Bytes(), "PNG"})
		} else {
			op := image.NewRGBA(img.Rect)
			for j := 0; j < w*h; j++ {
				op.SetRGBA(j%w, j/w, color.RGBA{img.Pix[4*j], img.Pix[4*j+1], img.Pix[4*j+2], 255})
			}
			_ = jpeg.Encode(&b, op, &jpeg.Options{Quality: 1 + rng.Intn(100)})
			out = append(out, realFile{fmt.Sprintf("jpeg.Encode-%dx%d", w, h), b.Bytes(), "JPEG"})
		}
	}
	return out
}

// profileBytes makes a payload of n bytes: kind 0 zeros, 1 text, 2 incompressible.
func profileBytes(rng *core.RNG, n, kind int) []byte {
	b := make([]byte, n)
	switch kind % 3 {
	case 1:
		for i := range b {
			b[i] = "ICC profile payload text, fairly compressible. "[i%47]
		}
	case 2:
		rng.Fill(b)
	}
	if n > 0 && b[0] == 0 && kind%3 == 0 {
		b[n-1] = 1 // keep the final byte recognisable
	}
	return b
}
