package props

import (
	"bytes"
	"fmt"
	"image"
	"image/color"
	"image/jpeg"
	"image/png"
	"os"
	"path/filepath"

	"verifharness/internal/core"
	"verifharness/internal/imggen"
)

type genFile struct {
	Name  string
	Bytes []byte
	Truth imggen.Truth
}

// ---- PNG building blocks ----------------------------------------------------

var pngTypeDepths = [][2]uint8{{0, 1}, {0, 2}, {0, 4}, {0, 8}, {0, 16}, {2, 8}, {2, 16}, {3, 1}, {3, 2}, {3, 4}, {3, 8}, {4, 8}, {4, 16}, {6, 8}, {6, 16}}

func latin1(rng *core.RNG, n int) string {
	b := make([]byte, n)
	for i := range b {
		b[i] = byte(32 + rng.Intn(95))
	}
	return string(b)
}

// randAncillary returns a random sequence of legal ancillary chunks that may
// precede IDAT (contents are plausible; none is interpreted by prism).
func randAncillary(rng *core.RNG, max int, big bool) []imggen.PNGChunk {
	var out []imggen.PNGChunk
	n := rng.Intn(max + 1)
	for i := 0; i < n; i++ {
		switch rng.Intn(11) {
		case 0:
			out = append(out, imggen.PNGChunk{Type: "gAMA", Data: []byte{0, 0, 0xb1, 0x8f}})
		case 1:
			out = append(out, imggen.PNGChunk{Type: "cHRM", Data: rng.Bytes(32)})
		case 2:
			out = append(out, imggen.PNGChunk{Type: "sBIT", Data: []byte{8, 8, 8}})
		case 3:
			out = append(out, imggen.PNGChunk{Type: "pHYs", Data: append(rng.Bytes(8), 1)})
		case 4:
			out = append(out, imggen.PNGChunk{Type: "tEXt", Data: append(append([]byte("Comment"), 0), []byte(latin1(rng, rng.Intn(200)))...)})
		case 5:
			out = append(out, imggen.PNGChunk{Type: "zTXt", Data: append(append([]byte("Raw"), 0, 0), imggen.Deflate([]byte(latin1(rng, rng.Intn(300))), 6)...)})
		case 6:
			out = append(out, imggen.PNGChunk{Type: "iTXt", Data: append(append([]byte("Title"), 0, 0, 0, 0, 0), []byte(latin1(rng, rng.Intn(100)))...)})
		case 7:
			out = append(out, imggen.PNGChunk{Type: "tIME", Data: []byte{0x07, 0xe8, 2, 29, 12, 34, 56}})
		case 8:
			out = append(out, imggen.PNGChunk{Type: "prVt", Data: rng.Bytes(rng.Intn(64))})
		case 9:
			if big {
				out = append(out, imggen.PNGChunk{Type: "tEXt", Data: append(append([]byte("Big"), 0), []byte(latin1(rng, 3000+rng.Intn(9000)))...)})
			}
		case 10:
			out = append(out, imggen.PNGChunk{Type: "eXIf", Data: rng.Bytes(rng.Intn(40))})
		}
	}
	return out
}

func pngSpecFor(w, h uint32, ct, depth, interlace uint8, rng *core.RNG) imggen.PNGSpec {
	s := imggen.PNGSpec{W: w, H: h, Depth: depth, ColorType: ct, Interlace: interlace, IDAT: rng.Bytes(1 + rng.Intn(40))}
	if ct == 3 {
		s.Post = append(s.Post, imggen.PNGChunk{Type: "PLTE", Data: rng.Bytes(3 * (1 + rng.Intn(1<<depth)))})
		if rng.Bool() {
			s.Post = append(s.Post, imggen.PNGChunk{Type: "tRNS", Data: rng.Bytes(1)})
		}
	}
	return s
}

// ---- JPEG building blocks -----------------------------------------------------

func randJPEGSegs(rng *core.RNG, max int, big bool) []imggen.JPEGSeg {
	var out []imggen.JPEGSeg
	n := rng.Intn(max + 1)
	for i := 0; i < n; i++ {
		switch rng.Intn(8) {
		case 0:
			out = append(out, imggen.JPEGSeg{Marker: 0xE0, Payload: append([]byte("JFIF\x00\x01\x02\x00\x00\x01\x00\x01\x00\x00"), nil...), Name: "APP0"})
		case 1:
			out = append(out, imggen.JPEGSeg{Marker: 0xE1, Payload: append([]byte("Exif\x00\x00"), rng.Bytes(rng.Intn(300))...), Name: "APP1"})
		case 2:
			out = append(out, imggen.JPEGSeg{Marker: byte(0xE0 + rng.Intn(16)), Payload: rng.Bytes(rng.Intn(120)), Name: "APPn"})
		case 3:
			out = append(out, imggen.JPEGSeg{Marker: 0xFE, Payload: []byte(latin1(rng, rng.Intn(200))), Name: "COM"})
		case 4:
			t := imggen.RealTables()
			out = append(out, t[rng.Intn(len(t))])
		case 5:
			out = append(out, imggen.JPEGSeg{Marker: 0xDD, Payload: []byte{0, byte(rng.Intn(256))}, Name: "DRI"})
		case 6:
			// APP2 that is not an ICC chunk (e.g. FlashPix), and one too short to hold the identifier
			if rng.Bool() {
				out = append(out, imggen.JPEGSeg{Marker: 0xE2, Payload: append([]byte("FPXR\x00"), rng.Bytes(rng.Intn(60))...), Name: "APP2x"})
			} else {
				out = append(out, imggen.JPEGSeg{Marker: 0xE2, Payload: rng.Bytes(rng.Intn(13)), Name: "APP2s"})
			}
		case 7:
			if big {
				out = append(out, imggen.JPEGSeg{Marker: 0xE1, Payload: append([]byte("Exif\x00\x00"), rng.Bytes(5000+rng.Intn(60000))...), Name: "APP1big"})
			}
		}
	}
	return out
}

var jpegSamplings = [][2]byte{{1, 1}, {2, 1}, {1, 2}, {2, 2}, {4, 1}, {4, 2}, {1, 4}, {3, 1}}

// ---- real files ---------------------------------------------------------------

type realFile struct {
	Name   string
	Bytes  []byte
	Format string
}

func realFiles() []realFile {
	var out []realFile
	dir := filepath.Join(core.RepoDir(), "test-images")
	ents, _ := os.ReadDir(dir)
	for _, e := range ents {
		b, err := os.ReadFile(filepath.Join(dir, e.Name()))
		if err != nil {
			continue
		}
		f := ""
		switch filepath.Ext(e.Name()) {
		case ".png":
			f = "PNG"
		case ".jpg":
			f = "JPEG"
		case ".webp":
			f = "WebP"
		}
		out = append(out, realFile{e.Name(), b, f})
	}
	return out
}

// encodedSamples returns real encoder output of small random images.
func encodedSamples(rng *core.RNG, n int) []realFile {
	var out []realFile
	for i := 0; i < n; i++ {
		w, h := 1+rng.Intn(40), 1+rng.Intn(40)
		img := image.NewNRGBA(image.Rect(0, 0, w, h))
		rng.Fill(img.Pix)
		var b bytes.Buffer
		if i%2 == 0 {
			_ = png.Encode(&b, img)
			out = append(out, realFile{fmt.Sprintf("png.Encode-%dx%d", w, h), b.Bytes(), "PNG"})
		} else {
			op := image.NewRGBA(img.Rect)
			for j := 0; j < w*h; j++ {
				op.SetRGBA(j%w, j/w, color.RGBA{img.Pix[4*j], img.Pix[4*j+1], img.Pix[4*j+2], 255})
			}
			_ = jpeg.Encode(&b, op, &jpeg.Options{Quality: 1 + rng.Intn(100)})
			out = append(out, realFile{fmt.Sprintf("jpeg.Encode-%dx%d", w, h), b.Bytes(), "JPEG"})
		}
	}
	return out
}

// profileBytes makes a payload of n bytes: kind 0 zeros, 1 text, 2 incompressible.
func profileBytes(rng *core.RNG, n, kind int) []byte {
	b := make([]byte, n)
	switch kind % 3 {
	case 1:
		for i := range b {
			b[i] = "ICC profile payload text, fairly compressible. "[i%47]
		}
	case 2:
		rng.Fill(b)
	}
	if n > 0 && b[0] == 0 && kind%3 == 0 {
		b[n-1] = 1 // keep the final byte recognisable
	}
	return b
}

// ---- small seed files for the prefix / fault / mutation workloads --------------

// structuredProfile returns a small well-formed ICC profile (so that the
// accessor chain Load -> ICCProfile -> Description has something to parse).
func structuredProfile(rng *core.RNG, mlucRecs int) []byte {
	var desc []byte
	if mlucRecs == 0 {
		desc = imggen.TextDescription("Seed profile " + latin1(rng, 8))
	} else {
		recs := make([]imggen.MlucRecord, mlucRecs)
		for i := range recs {
			recs[i] = imggen.MlucRecord{Lang: []string{"en", "de", "fr", "ja"}[i%4], Country: "US", Text: c17Text(rng, "ascii", 6+rng.Intn(10))}
		}
		desc, _ = imggen.Mluc(recs, nil, 0, 12)
	}
	b, _ := imggen.ICCSpec{Header: imggen.MinimalHeader(mlucRecs > 0), Tags: []imggen.ICCTag{
		{Sig: "desc", Data: desc}, {Sig: "cprt", Data: rng.Bytes(24)}, {Sig: "wtpt", Data: rng.Bytes(20)}}}.Build()
	return b
}

func smallSeeds(seed int64) []genFile {
	rng := core.NewRNG(seed, "smallseeds")
	var out []genFile
	add := func(name string, b []byte, t imggen.Truth) { out = append(out, genFile{name, b, t}) }
	// PNG without / with profile
	{
		s := pngSpecFor(300, 200, 6, 8, 0, rng)
		s.Pre = []imggen.PNGChunk{{Type: "gAMA", Data: []byte{0, 0, 0xb1, 0x8f}}, {Type: "tEXt", Data: []byte("Comment\x00hello")}}
		s.IDAT = rng.Bytes(120)
		b, t := s.Build()
		add("png-noicc", b, t)
		s.ICC = &imggen.PNGICC{Name: "seed", Profile: structuredProfile(rng, 0), Level: 6}
		b, t = s.Build()
		add("png-icc-v2", b, t)
		s.ICC = &imggen.PNGICC{Name: "a much longer profile name, still legal", Profile: structuredProfile(rng, 3), Level: 0}
		s.Post = []imggen.PNGChunk{{Type: "pHYs", Data: []byte{0, 0, 1, 0, 0, 0, 1, 0, 1}}}
		b, t = s.Build()
		add("png-icc-v4-stored", b, t)
	}
	// JPEG without profile, 1 chunk, 3 chunks (permuted, after SOF)
	{
		tbl := imggen.RealTables()
		base := imggen.JPEGSpec{Precision: 8, W: 640, H: 480, Comps: imggen.StdComps(3, 2, 2), Entropy: []byte{0x12, 0x34, 0xFF, 0x00, 0x56, 0xFF, 0xD0, 0x78}}
		s := base
		s.Before = append([]imggen.JPEGSeg{{Marker: 0xE0, Payload: []byte("JFIF\x00\x01\x02\x00\x00\x01\x00\x01\x00\x00"), Name: "APP0"}}, tbl...)
		b, t := s.Build()
		add("jpeg-noicc", b, t)
		p := structuredProfile(rng, 2)
		s = base
		s.Progressive = true
		s.Before = []imggen.JPEGSeg{{Marker: 0xE1, Payload: append([]byte("Exif\x00\x00"), rng.Bytes(60)...), Name: "APP1"}, imggen.ICCChunkSeg(1, 1, p), {Marker: 0xFE, Payload: []byte("comment"), Name: "COM"}}
		s.ICC, s.ICCState = p, "ok"
		b, t = s.Build()
		add("jpeg-icc-1chunk", b, t)
		parts := imggen.SplitICC(p, 3)
		s = base
		s.Before = []imggen.JPEGSeg{tbl[0]}
		s.After = []imggen.JPEGSeg{imggen.ICCChunkSeg(3, 3, parts[2]), {Marker: 0xE2, Payload: []byte("FPXR\x00junk"), Name: "APP2x"}, imggen.ICCChunkSeg(1, 3, parts[0]), imggen.ICCChunkSeg(2, 3, parts[1])}
		s.ICC, s.ICCState = p, "ok"
		b, t = s.Build()
		add("jpeg-icc-3chunks-after-sof", b, t)
	}
	// WebP simple / lossless / extended with and without profile
	{
		b, t := imggen.WebPSpec{Kind: "VP8", W: 550, H: 368, Payload: rng.Bytes(60)}.Build()
		add("webp-vp8", b, t)
		b, t = imggen.WebPSpec{Kind: "VP8L", W: 1000, H: 3, Alpha: true, Payload: rng.Bytes(40)}.Build()
		add("webp-vp8l", b, t)
		b, t = imggen.WebPSpec{Kind: "VP8X", W: 70000, H: 9, Flags: 0x10, Payload: rng.Bytes(30)}.Build()
		add("webp-vp8x-noicc", b, t)
		b, t = imggen.WebPSpec{Kind: "VP8X", W: 1234, H: 4321, ICC: structuredProfile(rng, 1), Payload: rng.Bytes(30), Extra: [][2]any{{"EXIF", rng.Bytes(11)}}}.Build()
		add("webp-vp8x-icc", b, t)
	}
	// the repository's own small files
	for _, rf := range realFiles() {
		if len(rf.Bytes) <= 2048 {
			out = append(out, genFile{"real:" + rf.Name, rf.Bytes, imggen.Truth{Format: rf.Format, NeedEnd: len(rf.Bytes)}})
		}
	}
	// unrecognisable inputs
	add("garbage", rng.Bytes(300), imggen.Truth{Format: "", NeedEnd: 0})
	add("empty", nil, imggen.Truth{Format: ""})
	add("text", []byte("This is not an image at all, just 60-odd bytes of plain text.\n"), imggen.Truth{})
	return out
}
