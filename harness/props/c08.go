//go:build all || c08

package props

import (
	"bufio"
	"bytes"
	"encoding/base64"
	"encoding/json"
	"fmt"
	"github.com/mandykoh/prism/meta/icc"
	"io"
	"strings"

	"verifharness/internal/core"
	"verifharness/internal/imggen"
	"verifharness/internal/src"
)

// C08 — results do not depend on read segmentation.

type c08Case struct {
	Name      string   `json:"name"`
	Kind      string   `json:"kind"` // "loader" | "icc"
	Loader    string   `json:"loader,omitempty"`
	Accept    []string `json:"acceptable_descriptions,omitempty"`
	Schedule  string   `json:"schedule"`
	SchedSeed uint64   `json:"schedule_seed"`
	File      string   `json:"input_base64"`
	File2     string   `json:"second_input_base64,omitempty"`
}

var c08FixedSchedules = []string{"1", "2", "3", "7", "8", "4095", "4096", "4097", "data+eof", "1+data+eof", "4096+data+eof", "zero-nil", "zero-nil-3+all", "kind:1", "kind:2", "kind:3", "kind:4", "kind:5", "kind:6", "kind:7"}

func c08Schedules(rng *core.RNG, thorough bool) []string {
	s := append([]string{}, c08FixedSchedules...)
	n := 4
	if thorough {
		n = 8
	}
	for i := 0; i < n; i++ {
		s = append(s, "random17", "random5000")
	}
	return s
}

// ---- ICC reader fronts ---------------------------------------------------------

type iccSummary struct {
	OK      bool
	Header  string
	DescOK  bool
	Desc    string
	Panic   string
	ErrText string
}

func (a iccSummary) same(b iccSummary) bool {
	return a.OK == b.OK && a.Header == b.Header && a.DescOK == b.DescOK && a.Desc == b.Desc && (a.Panic != "") == (b.Panic != "")
}

func iccSummarise(r interface {
	io.Reader
	io.ByteReader
}) iccSummary {
	var s iccSummary
	p, err, pan := readProfile(r)
	if pan != nil {
		s.Panic = fmt.Sprint(pan)
		return s
	}
	if err != nil || p == nil {
		if err != nil {
			s.ErrText = err.Error()
		}
		return s
	}
	s.OK = true
	s.Header = fmt.Sprintf("%+v", p.Header)
	d, derr, dpan := description(p)
	if dpan != nil {
		s.Panic = fmt.Sprint(dpan)
		return s
	}
	s.DescOK, s.Desc = derr == nil, d
	return s
}

func c08ICCFront(data []byte, front string, seed uint64) (r interface {
	io.Reader
	io.ByteReader
}, source *src.Source) {
	switch front {
	case "bytes.Reader":
		return bytes.NewReader(data), nil
	case "short":
		s := c08Source(data, "random17", seed)
		return shortByteReader{s}, s
	case "short1":
		s := c08Source(data, "1", seed)
		return shortByteReader{s}, s
	case "short+data+eof":
		s := c08Source(data, "random17", seed).DataWithEnd()
		return shortByteReader{s}, s
	case "all+data+eof":
		s := c08Source(data, "data+eof", seed)
		return shortByteReader{s}, s
	}
	// bufio<N>/<schedule>
	var n int
	var sched string
	fmt.Sscanf(front, "bufio%d/%s", &n, &sched)
	s := c08Source(data, sched, seed)
	return bufio.NewReaderSize(s, n), s
}

var c08ICCFronts = []string{"short", "short1", "short+data+eof", "all+data+eof",
	"bufio16/1", "bufio16/7", "bufio16/random17", "bufio16/all", "bufio16/data+eof", "bufio64/3", "bufio64/random17", "bufio64/4096+data+eof",
	"bufio4096/1", "bufio4096/4095", "bufio4096/4097", "bufio4096/random5000", "bufio4096/data+eof"}

func c08CheckLoader(data []byte, loader, schedule string, seed uint64) (kind, msg string, short bool) {
	base := summarise(loadWith(loader, bytes.NewReader(data)))
	var got mdSummary
	if strings.HasPrefix(schedule, "kind:") {
		// the same bytes handed over in another kind of reader (positioned inside a larger
		// *bytes.Reader / *strings.Reader, buffered, a *bytes.Buffer, Read only, a section)
		var k int
		fmt.Sscanf(schedule, "kind:%d", &k)
		got = summarise(loadWith(loader, readerOfKind(data, k)))
		schedule = "reader kind " + readerKindNames[k%len(readerKindNames)]
	} else {
		s := c08Source(data, schedule, seed)
		got = summarise(loadWith(loader, s))
		short = s.ShortInside > 0
	}
	if got.Panic != "" && base.Panic == "" {
		return "panic", fmt.Sprintf("%s.Load panicked under schedule %s: %s", loader, schedule, got.Panic), short
	}
	if !got.same(base) {
		return "differs", fmt.Sprintf("%s.Load: all-at-once gives %s; schedule %s gives %s", loader, sumStr(base), schedule, sumStr(got)), short
	}
	return "", "ok", short
}

// c08CheckICC compares the ICC reader behind a front with the bytes.Reader
// baseline. accept lists the descriptions that are equally acceptable for this
// profile (several records and no single English one: the library may return
// any of them, and does so non-deterministically through map iteration); the
// baseline is repeated a few times to collect further variants for inputs
// without ground truth.
func c08CheckICC(data []byte, front string, seed uint64, accept []string) (kind, msg string, short bool) {
	base := iccSummarise(bytes.NewReader(data))
	variants := map[string]bool{base.Desc: true}
	for _, a := range accept {
		variants[a] = true
	}
	for i := 0; i < 5 && base.OK && base.DescOK; i++ {
		variants[iccSummarise(bytes.NewReader(data)).Desc] = true
	}
	r, s := c08ICCFront(data, front, seed)
	got := iccSummarise(r)
	if s != nil {
		short = s.ShortInside > 0
	}
	if got.Panic != "" && base.Panic == "" {
		return "panic", fmt.Sprintf("ICC reader panicked behind %s: %s", front, got.Panic), short
	}
	if got.OK && got.DescOK && base.DescOK && variants[got.Desc] {
		got.Desc = base.Desc
	}
	if !got.same(base) {
		return "differs", fmt.Sprintf("ICC reader: bytes.Reader gives ok=%v desc=%q descOK=%v err=%q; behind %s gives ok=%v desc=%q descOK=%v err=%q (headers equal: %v)",
			base.OK, base.Desc, base.DescOK, base.ErrText, front, got.OK, got.Desc, got.DescOK, got.ErrText, base.Header == got.Header), short
	}
	return "", "ok", short
}

type c08Input struct {
	name   string
	bytes  []byte
	format string
	accept []string
}

func c08Inputs(seed int64, thorough bool) (files []c08Input, profiles []c08Input) {
	rng := core.NewRNG(seed, "C08", "inputs")
	// valid files with profiles of many sizes / placements (C06's generators), capped in size
	gens := c06Files(seed, false)
	step := 3
	if thorough {
		step = 1
	}
	for i := 0; i < len(gens); i += step {
		f, ok := gens[i]()
		if !ok || len(f.Bytes) > 150000 {
			continue
		}
		files = append(files, c08Input{f.Name, f.Bytes, f.Truth.Format, nil})
	}
	// header-only variety (C05's generators)
	n := 150
	if thorough {
		n = 3000
	}
	for i := 0; i < n; i++ {
		var f genFile
		switch i % 3 {
		case 0:
			td := core.Pick(rng, pngTypeDepths)
			f = c05PNG("c08", uint32(1+rng.Intn(5000)), uint32(1+rng.Intn(5000)), td[0], td[1], uint8(rng.Intn(2)), rng, 6)
		case 1:
			f = c05JPEG("c08", 1+rng.Intn(9000), 1+rng.Intn(9000), rng.Bool(), core.Pick(rng, []int{1, 3, 4}), core.Pick(rng, jpegSamplings), rng, 8)
		case 2:
			f = c05WebP("c08", core.Pick(rng, []string{"VP8", "VP8L", "VP8X"}), uint32(1+rng.Intn(9000)), uint32(1+rng.Intn(9000)), rng, uint8(rng.Intn(256)))
		}
		files = append(files, c08Input{f.Name, f.Bytes, f.Truth.Format, nil})
	}
	// truncations of larger generated files (600 .. 9000 bytes: beyond any small block size a reader
	// might top its reads up to), at structure boundaries and at seeded offsets
	for i := 0; i < 36; i++ {
		var f genFile
		switch i % 3 {
		case 0:
			s := pngSpecFor(uint32(1+rng.Intn(5000)), uint32(1+rng.Intn(5000)), 2, 8, 0, rng)
			s.Pre = []imggen.PNGChunk{{Type: "tEXt", Data: append([]byte("k\x00"), []byte(latin1(rng, 500+rng.Intn(3000)))...)}, {Type: "gAMA", Data: []byte{0, 0, 0xb1, 0x8f}}}
			if i%2 == 0 {
				s.ICC = &imggen.PNGICC{Name: "p", Profile: profileBytes(rng, 300+rng.Intn(5000), 2), Level: 6}
			}
			b, t := s.Build()
			f = genFile{"c08-large-png", b, t}
		case 1:
			f = c05JPEG("c08-large", 1+rng.Intn(9000), 1+rng.Intn(9000), rng.Bool(), 3, jpegSamplings[1], rng, 24)
		case 2:
			f = c05WebP("c08-large", "VP8X", uint32(1+rng.Intn(9000)), uint32(1+rng.Intn(9000)), rng, 0x20)
		}
		cuts := map[int]bool{}
		for _, fd := range f.Truth.Fields {
			for _, c := range []int{fd.Off - 4, fd.Off, fd.Off + fd.Len} {
				if c > 0 && c < len(f.Bytes) {
					cuts[c] = true
				}
			}
		}
		for k := 0; k < 6; k++ {
			cuts[1+rng.Intn(len(f.Bytes)-1)] = true
		}
		var order []int
		for c := range cuts {
			order = append(order, c)
		}
		sortInts(order)
		if len(order) > 40 {
			order = order[len(order)-40:]
		}
		for _, c := range order {
			files = append(files, c08Input{fmt.Sprintf("%s %d bytes[:%d]", f.Name, len(f.Bytes), c), f.Bytes[:c], f.Truth.Format, nil})
		}
	}
	// JPEGs whose ICC chunk is followed by segments larger than any read-ahead buffer
	for i := 0; i < 24; i++ {
		p := profileBytes(rng, 20+rng.Intn(900), 2)
		s := imggenJPEGBig(rng, p, i%2 == 0)
		files = append(files, c08Input{s.Name, s.Bytes, "JPEG", nil})
	}
	// truncations of the small seeds at structural boundaries +/- 1
	for _, sd := range smallSeeds(seed) {
		files = append(files, c08Input{sd.Name, sd.Bytes, sd.Truth.Format, nil})
		cuts := map[int]bool{}
		for _, f := range sd.Truth.Fields {
			// around the start of every structure (the five bytes before it are the end of the
			// previous one: a PNG chunk's CRC, a pad byte) and around its end
			for _, c := range []int{f.Off - 5, f.Off - 4, f.Off - 3, f.Off - 2, f.Off - 1, f.Off, f.Off + 1, f.Off + f.Len - 1, f.Off + f.Len, f.Off + f.Len + 1} {
				if c > 0 && c < len(sd.Bytes) {
					cuts[c] = true
				}
			}
		}
		for d := 1; d <= 6 && d < len(sd.Bytes); d++ {
			cuts[len(sd.Bytes)-d] = true
		}
		var order []int
		for c := range cuts {
			order = append(order, c)
		}
		sortInts(order)
		for _, c := range order {
			files = append(files, c08Input{fmt.Sprintf("%s[:%d]", sd.Name, c), sd.Bytes[:c], sd.Truth.Format, nil})
		}
	}
	for _, f := range boundaryFiles(seed, true) {
		files = append(files, c08Input{f.Name, f.Bytes, f.Truth.Format, nil})
	}
	for _, f := range hostileSpecials() {
		files = append(files, c08Input{f.Name, f.Bytes, f.Truth.Format, nil})
	}
	for _, rf := range realFiles() {
		if len(rf.Bytes) < 40000 {
			files = append(files, c08Input{"real:" + rf.Name, rf.Bytes, rf.Format, nil})
		}
	}
	// PNGs whose last needed structure (the IDAT chunk header) ends a little below or above 1, 8 and
	// 16 MiB: whatever budget a loader keeps, it is spent differently by large and by small deliveries
	for _, end := range []int{1<<20 - 1000, 8<<20 - 1000, 8<<20 - 1, 16<<20 - 1000} {
		s := pngSpecFor(640, 480, 2, 8, 0, rng)
		// 8 signature + 25 IHDR + (12 + L) tEXt + 8 IDAT header = end
		l := end - (8 + 25 + 12 + 8)
		s.Pre = []imggen.PNGChunk{{Type: "tEXt", Data: append([]byte("k\x00"), rng.Bytes(l-2)...)}}
		b, _ := s.Build()
		files = append(files, c08Input{fmt.Sprintf("png whose IDAT header ends at offset %d", end), b, "PNG", nil})
	}
	// ICC profiles
	np := 1500
	if thorough {
		np = 30000
	}
	for i := 0; i < np; i++ {
		p := c17Gen(rng, i)
		profiles = append(profiles, c08Input{p.name, p.bytes, "ICC", p.accept})
		if i%5 == 0 && len(p.bytes) > 140 {
			cut := 100 + rng.Intn(len(p.bytes)-100)
			profiles = append(profiles, c08Input{fmt.Sprintf("%s[:%d]", p.name, cut), p.bytes[:cut], "ICC", p.accept})
		}
	}
	// profiles whose 128 header bytes are arbitrary (every flag bit, attribute, date, version,
	// illuminant ...) apart from the file signature: every header field is part of the outcome
	for i := 0; i < np/5; i++ {
		p := c17Gen(rng, i)
		if len(p.bytes) < 132 {
			continue
		}
		d := append([]byte{}, p.bytes...)
		hdr := rng.Bytes(128)
		copy(hdr[0:4], d[0:4])     // profile size
		copy(hdr[36:40], d[36:40]) // file signature
		copy(hdr[8:12], d[8:12])   // version (selects the description's type)
		switch i % 4 {
		case 0: // one header field changed at a time: the flags
			hdr = append([]byte{}, d[:128]...)
			hdr[44], hdr[45], hdr[46], hdr[47] = byte(rng.Intn(256)), byte(rng.Intn(256)), byte(rng.Intn(256)), byte(1+rng.Intn(3))
		case 1:
			hdr = append([]byte{}, d[:128]...)
			copy(hdr[48:64], rng.Bytes(16))
		}
		copy(d[:128], hdr)
		profiles = append(profiles, c08Input{p.name + " with other header bytes", d, "ICC", p.accept})
	}
	// hostile profiles: every length/count/offset field of the ICC seeds x boundary values (C09's matrix)
	{
		g := newC09Gen(seed, false)
		step := 3
		if thorough {
			step = 1
		}
		for i := 0; i < len(g.matrix); i += step {
			m := g.matrix[i]
			sd := g.seeds[m.seed]
			if sd.format != "ICC" {
				continue
			}
			f := numericFields(sd.fields)[m.field]
			v := c09Values(fieldGet(sd.data, f), f.Len, len(sd.data))[m.value]
			d := append([]byte{}, sd.data...)
			fieldPut(d, f, v)
			profiles = append(profiles, c08Input{fmt.Sprintf("%s: field %s := %#x", sd.name, f.Name, v), d, "ICC", nil})
		}
	}
	for _, rf := range realFiles() {
		res := loadWith("autometa", bytes.NewReader(rf.Bytes))
		if res.MD != nil {
			if d, err := iccDataOf(res.MD); err == nil && d != nil {
				profiles = append(profiles, c08Input{"real-icc:" + rf.Name, d, "ICC", nil})
			}
		}
	}
	return
}

// imggenJPEGBig: small ICC chunk(s), then comment/APP1 segments larger than 4 KiB, then SOF.
func imggenJPEGBig(rng *core.RNG, profile []byte, two bool) genFile {
	n := 1
	if two {
		n = 2
	}
	var segs []imggen.JPEGSeg
	for i, part := range imggen.SplitICC(profile, n) {
		segs = append(segs, imggen.ICCChunkSeg(i+1, n, part))
	}
	segs = append(segs,
		imggen.JPEGSeg{Marker: 0xFE, Payload: []byte(latin1(rng, 4200+rng.Intn(9000))), Name: "COMbig"},
		imggen.JPEGSeg{Marker: 0xE1, Payload: append([]byte("Exif\x00\x00"), rng.Bytes(5000+rng.Intn(30000))...), Name: "APP1big"})
	s := imggen.JPEGSpec{Precision: 8, W: 1 + rng.Intn(4000), H: 1 + rng.Intn(4000), Comps: imggen.StdComps(3, 2, 1), Before: segs, ICC: profile, ICCState: "ok", Entropy: []byte{1, 2, 3}}
	b, t := s.Build()
	return genFile{fmt.Sprintf("jpeg small-icc=%d chunks=%d then big segments", len(profile), n), b, t}
}

func runC08(r *core.Run) {
	r.Rule = "every input (valid files of C05/C06's generators up to 150 KB, JPEGs with large segments after the ICC chunk, truncations of the seed files at structural boundaries +/-1, real files, generated and real ICC profiles and truncations of them) is loaded all-at-once and under fixed segment sizes 1,2,3,7,8,4095,4096,4097, seeded random segment sizes, and final-data-with-EOF variants; for the ICC reader behind bufio readers of 16/64/4096 bytes and a hand-written short-count reader; outcomes (success, format, dimensions, depth, ICC bytes, ICC error; header fields, description) must be identical; non-trivial = distinct (input, schedule) in which the source actually served a read short"
	r.Assumptions = []string{"error texts are not compared, only success/failure and values", "schedules conform to the io.Reader contract"}
	files, profiles := c08Inputs(r.Seed, r.Thorough())
	rng := core.NewRNG(r.Seed, "C08", "sched")
	scheds := c08Schedules(rng, r.Thorough())
	seeds := make([]uint64, 64)
	for i := range seeds {
		seeds[i] = rng.U64()
	}
	core.ParallelFor(len(files), 16, func(i int) {
		f := files[i]
		loaders := []string{"autometa"}
		if f.format != "" && f.format != "ICC" {
			loaders = append(loaders, loaderFor(f.format))
		} else {
			loaders = append(loaders, loaderNames[i%3])
		}
		var n int64
		for _, loader := range loaders {
			for si, sc := range scheds {
				if len(f.bytes) > 60000 && (sc == "1" || sc == "2" || sc == "3") && i%4 != 0 {
					continue
				}
				if len(f.bytes) > 1<<20 && (sc == "1" || sc == "2" || sc == "3" || sc == "1+data+eof" || sc == "zero-nil") {
					continue // the multi-MiB inputs go through the schedules of 7 bytes and more
				}
				seed := seeds[(i+si)%len(seeds)] + uint64(i)
				kind, msg, short := c08CheckLoader(f.bytes, loader, sc, seed)
				n++
				if short {
					r.NTHash(fnv64([]byte(fmt.Sprint(i, loader, si))))
				}
				if kind != "" {
					r.Violate("loader", loader+"/"+kind+"/"+sc, f.name+": "+msg, c08Case{Name: f.name, Kind: "loader", Loader: loader, Schedule: sc, SchedSeed: seed, File: base64.StdEncoding.EncodeToString(f.bytes)})
				}
			}
		}
		r.AddEvals(n)
	})
	core.ParallelFor(len(profiles), 16, func(i int) {
		p := profiles[i]
		var n int64
		for fi, front := range c08ICCFronts {
			seed := seeds[(i+fi)%len(seeds)] + uint64(i)
			kind, msg, short := c08CheckICC(p.bytes, front, seed, p.accept)
			n++
			if short {
				r.NTHash(fnv64([]byte(fmt.Sprint("icc", i, fi))))
			}
			if kind != "" {
				r.Violate("icc", "icc/"+kind+"/"+front, p.name+": "+msg, c08Case{Name: p.name, Kind: "icc", Accept: p.accept, Schedule: front, SchedSeed: seed, File: base64.StdEncoding.EncodeToString(p.bytes)})
			}
		}
		r.AddEvals(n)
	})
	// streams of two or three profiles (with and without padding up to the size the header declares,
	// and with garbage between them), read by successive ReadProfile calls on one reader
	{
		rg := core.NewRNG(r.Seed, "C08", "icc-seq")
		nseq := 60
		if r.Thorough() {
			nseq = 1500
		}
		type seqIn struct {
			name string
			data []byte
		}
		var seqs []seqIn
		for i := 0; i < nseq; i++ {
			var data []byte
			name := ""
			for k := 0; k < 2+rg.Intn(2); k++ {
				pb := structuredProfile(rg, rg.Intn(2))
				pad := []int{0, 0, 1, 2, 3, 4, 16, 100}[rg.Intn(8)]
				switch rg.Intn(3) {
				case 0: // padding that the header's size field covers
					pb = append(pb, make([]byte, pad)...)
					sz := uint32(len(pb))
					pb[0], pb[1], pb[2], pb[3] = byte(sz>>24), byte(sz>>16), byte(sz>>8), byte(sz)
					name += fmt.Sprintf("[profile+%d declared] ", pad)
				case 1: // bytes between the profiles that no size field covers
					pb = append(pb, rg.Bytes(pad)...)
					name += fmt.Sprintf("[profile+%d undeclared] ", pad)
				default:
					name += "[profile] "
				}
				data = append(data, pb...)
			}
			seqs = append(seqs, seqIn{name, data})
		}
		fronts := append([]string{"bytes.Buffer"}, c08ICCFronts...)
		core.ParallelFor(len(seqs), 16, func(i int) {
			for fi, front := range fronts {
				if kind, msg := c08CheckICCSeq(seqs[i].data, front, seeds[(i+fi)%len(seeds)]); kind != "" {
					r.Violate("icc", "icc-seq/"+kind+"/"+front, seqs[i].name+": "+msg, c08Case{Name: seqs[i].name, Kind: "icc-seq", Schedule: front, SchedSeed: seeds[(i+fi)%len(seeds)], File: base64.StdEncoding.EncodeToString(seqs[i].data)})
				}
			}
			r.AddEvals(int64(len(fronts)))
		})
		r.Obs("profile_streams_read_by_successive_calls", len(seqs))
	}
	// a caller's own buffer, reused: profile A is read from a *bytes.Buffer, the buffer is reset and
	// filled with profile B, B is read, and only then A is asked for its description - which must be
	// what it is when A is read from a bytes.Reader that nobody touches afterwards
	{
		np := 400
		if r.Thorough() {
			np = len(profiles) - 1
		}
		if np > len(profiles)-1 {
			np = len(profiles) - 1
		}
		var n int64
		for i := 0; i < np; i++ {
			a, b := profiles[i], profiles[i+1]
			bad, applicable, msg := c08ICCKept(a.bytes, b.bytes, a.accept)
			if !applicable {
				continue
			}
			n++
			if bad {
				r.Violate("icc", "icc/kept-differs/bytes.Buffer-reused", a.name+": "+msg, c08Case{Name: a.name, Kind: "icc-kept", Accept: a.accept, Schedule: "bytes.Buffer-reused", File: base64.StdEncoding.EncodeToString(a.bytes), File2: base64.StdEncoding.EncodeToString(b.bytes)})
				break
			}
		}
		r.AddEvals(n)
		r.Obs("profiles_described_after_their_buffer_was_reused", n)
	}
	// what a caller keeps from one load is looked at again after the next load of the same kind, per
	// delivery schedule, on one goroutine (scratch memory handed back to a pool is handed out again to
	// the next load on the same thread): the kept profile bytes must not depend on the schedule either
	{
		byFormat := map[string][]int{}
		for i, f := range files {
			if f.format == "PNG" || f.format == "JPEG" || f.format == "WebP" {
				if s := summarise(loadWith("autometa", bytes.NewReader(f.bytes))); s.OK && s.HasICC && len(f.bytes) < 70000 {
					byFormat[f.format] = append(byFormat[f.format], i)
				}
			}
		}
		pairs := 0
		for _, format := range []string{"PNG", "JPEG", "WebP"} {
			idx := byFormat[format]
			limit := 60
			if r.Thorough() {
				limit = 400
			}
			for k := 0; k+1 < len(idx) && k < limit; k++ {
				a, b := files[idx[k]], files[idx[k+1]]
				for _, loader := range []string{"autometa", loaderFor(format)} {
					if sc, msg := c08KeptCheck(a.bytes, b.bytes, loader, seeds[k%len(seeds)]); sc != "" {
						r.Violate("loader", loader+"/kept-differs/"+sc, a.name+" then "+b.name+": "+msg, c08Case{Name: a.name, Kind: "kept", Loader: loader, Schedule: sc, SchedSeed: seeds[k%len(seeds)], File: base64.StdEncoding.EncodeToString(a.bytes), File2: base64.StdEncoding.EncodeToString(b.bytes)})
					}
					pairs++
				}
			}
		}
		r.AddEvals(int64(pairs * len(c08KeptScheds)))
		r.Obs("kept_result_pairs", pairs)
	}
	r.Obs("input_files", len(files))
	r.Obs("input_profiles", len(profiles))
	r.Obs("schedules", scheds)
	r.Obs("icc_reader_fronts", c08ICCFronts)
	r.Sample(map[string]any{"input": files[0].name, "bytes": len(files[0].bytes), "schedule": "random17"})
	r.Sample(map[string]any{"input": profiles[0].name, "bytes": len(profiles[0].bytes), "front": "bufio16/7"})
}

// iccSeqSummarise calls ReadProfile three times on one ProfileReader and summarises each outcome.
func iccSeqSummarise(r interface {
	io.Reader
	io.ByteReader
}) (out [3]iccSummary) {
	var pr *icc.ProfileReader
	for i := range out {
		func() {
			defer func() {
				if x := recover(); x != nil {
					out[i].Panic = fmt.Sprint(x)
				}
			}()
			if pr == nil {
				pr = icc.NewProfileReader(r)
			}
			p, err := pr.ReadProfile()
			if err != nil || p == nil {
				if err != nil {
					out[i].ErrText = err.Error()
				}
				return
			}
			out[i].OK = true
			out[i].Header = fmt.Sprintf("%+v", p.Header)
			d, derr, dpan := description(p)
			if dpan != nil {
				out[i].Panic = fmt.Sprint(dpan)
				return
			}
			out[i].DescOK, out[i].Desc = derr == nil, d
		}()
	}
	return
}

// c08CheckICCSeq: a stream of several profiles read by successive ReadProfile calls on one reader.
func c08CheckICCSeq(data []byte, front string, seed uint64) (kind, msg string) {
	base := iccSeqSummarise(bytes.NewReader(data))
	var got [3]iccSummary
	if front == "bytes.Buffer" {
		got = iccSeqSummarise(bytes.NewBuffer(append([]byte{}, data...)))
	} else {
		r, _ := c08ICCFront(data, front, seed)
		got = iccSeqSummarise(r)
	}
	for i := range got {
		if got[i].Panic != "" && base[i].Panic == "" {
			return "panic", fmt.Sprintf("ICC reader panicked behind %s in ReadProfile call #%d: %s", front, i+1, got[i].Panic)
		}
		if !got[i].same(base[i]) {
			return "differs", fmt.Sprintf("ICC reader, ReadProfile call #%d on the same reader: bytes.Reader gives ok=%v desc=%q err=%q; behind %s gives ok=%v desc=%q err=%q", i+1, base[i].OK, base[i].Desc, base[i].ErrText, front, got[i].OK, got[i].Desc, got[i].ErrText)
		}
	}
	return "", "ok"
}

// c08ICCKept: profile a read from a *bytes.Buffer that is then reset and refilled (with b, then
// with filler); a's description afterwards against a's description read from a bytes.Reader.
func c08ICCKept(a, b []byte, accept []string) (bad, applicable bool, msg string) {
	base := iccSummarise(bytes.NewReader(a))
	if !base.OK || !base.DescOK {
		return false, false, "baseline has no description"
	}
	variants := map[string]bool{base.Desc: true}
	for _, acc := range accept {
		variants[acc] = true
	}
	for k := 0; k < 5; k++ {
		variants[iccSummarise(bytes.NewReader(a)).Desc] = true
	}
	buf := bytes.NewBuffer(append(make([]byte, 0, len(a)+len(b)+64), a...))
	pa, err, pan := readProfile(buf)
	if pan != nil || err != nil || pa == nil {
		return false, false, "not readable from a bytes.Buffer (reported by the single-read comparison)"
	}
	buf.Reset()
	buf.Write(b)
	_, _, _ = readProfile(buf)
	buf.Reset()
	buf.Write(bytes.Repeat([]byte{0xA5}, len(a)+32))
	d, derr, dpan := description(pa)
	if dpan != nil || derr != nil || !variants[d] {
		return true, true, fmt.Sprintf("read from a *bytes.Buffer that the caller then reset and refilled, Description() gives %q (err %v, panic %v); read from a bytes.Reader it gives %q", d, derr, dpan, base.Desc)
	}
	return false, true, "ok"
}

var c08KeptScheds = []string{"all", "1", "7", "4096", "random17", "data+eof", "4096+data+eof"}

// c08KeptCheck loads a, then b twice, under each schedule, and compares what the caller still
// holds of a's profile bytes afterwards across the schedules.
func c08KeptCheck(a, b []byte, loader string, seed uint64) (sched, msg string) {
	var first uint64
	for si, sc := range c08KeptScheds {
		sa := summarise(loadWith(loader, c08Source(a, sc, seed+uint64(si))))
		for rep := 0; rep < 2; rep++ {
			_ = summarise(loadWith(loader, c08Source(b, sc, seed+uint64(si)+1)))
		}
		kept := fnv64(sa.icc)
		if si == 0 {
			first = kept
		} else if kept != first {
			return sc, fmt.Sprintf("the profile bytes kept from %s.Load, looked at after two further loads delivered the same way, hash to %#x under schedule %s and to %#x under schedule %s (at load time: %#x)", loader, first, c08KeptScheds[0], kept, sc, sa.ICCHash)
		}
	}
	return "", "ok"
}

func replayC08(stage string, raw json.RawMessage) (bool, string, error) {
	var cs c08Case
	if err := json.Unmarshal(raw, &cs); err != nil {
		return false, "", err
	}
	b, err := base64.StdEncoding.DecodeString(cs.File)
	if err != nil {
		return false, "", err
	}
	if cs.Kind == "icc-kept" {
		b2, err := base64.StdEncoding.DecodeString(cs.File2)
		if err != nil {
			return false, "", err
		}
		bad, _, m := c08ICCKept(b, b2, cs.Accept)
		return bad, m, nil
	}
	if cs.Kind == "icc-seq" {
		k, m := c08CheckICCSeq(b, cs.Schedule, cs.SchedSeed)
		return k != "", m, nil
	}
	if cs.Kind == "kept" {
		b2, err := base64.StdEncoding.DecodeString(cs.File2)
		if err != nil {
			return false, "", err
		}
		sc, m := c08KeptCheck(b, b2, cs.Loader, cs.SchedSeed)
		return sc != "", m, nil
	}
	if cs.Kind == "icc" {
		k, m, _ := c08CheckICC(b, cs.Schedule, cs.SchedSeed, cs.Accept)
		return k != "", m, nil
	}
	k, m, _ := c08CheckLoader(b, cs.Loader, cs.Schedule, cs.SchedSeed)
	return k != "", m, nil
}

func init() {
	core.Register(&core.Property{ID: "C08", Level: "exploration", Run: runC08, Replay: replayC08})
}
