package props

import (
	"image"
	"image/color"
	"image/draw"

	"verifharness/internal/core"
)

// ---- image construction helpers shared by C10, C11 and C15 -------------------

var ycbcrRatios = map[string]image.YCbCrSubsampleRatio{
	"YCbCr444": image.YCbCrSubsampleRatio444, "YCbCr422": image.YCbCrSubsampleRatio422,
	"YCbCr420": image.YCbCrSubsampleRatio420, "YCbCr440": image.YCbCrSubsampleRatio440,
	"YCbCr411": image.YCbCrSubsampleRatio411, "YCbCr410": image.YCbCrSubsampleRatio410,
}

type opaqueSrc struct{ image.Image }
type opaqueDst struct{ draw.Image }

type subImager interface {
	SubImage(r image.Rectangle) image.Image
}

// fillBytes fills with seeded bytes making sure every byte value occurs.
func fillBytes(rng *core.RNG, b []uint8) {
	rng.Fill(b)
	for i := 0; i < len(b) && i < 512; i += 2 { // sprinkle extremes
		switch rng.Intn(4) {
		case 0:
			b[i] = 0
		case 1:
			b[i] = 255
		}
	}
}

// newSource builds an image of the given kind whose Bounds() is exactly r,
// with seeded contents. When sub is true (and the kind supports it) the image
// is a sub-image of a larger parent, so its stride exceeds its width and its
// Pix does not start at the first pixel.
func newSource(kind string, r image.Rectangle, sub bool, rng *core.RNG) image.Image {
	mode := 0
	if sub {
		mode = 1
	}
	return newSourceMode(kind, r, mode, 0, rng)
}

// newSourceMode: subMode 0 = whole image, 1 = inset sub-image (stride > width), 2 = full-width band
// of a taller parent (Pix runs on into the parent's rows below). content 0 = seeded bytes,
// 1 = runs of equal pixels, 2 = all zero bytes, 3 = all 0xFF bytes, 5 = seeded colours, every pixel opaque.
// subMode 3 = hand-built odd stride, 4 / 5 = bottom-right / top-left corner of a parent.
func newSourceMode(kind string, r image.Rectangle, subMode, content int, rng *core.RNG) image.Image {
	if subMode == 3 {
		// hand-built: the same pixels in a buffer whose row stride is not a multiple of the pixel
		// size (legal - the image types only promise Pix[(y-Min.Y)*Stride + (x-Min.X)*bpp])
		img := restride(newSourceRaw(kind, r, 0, rng))
		if content != 0 {
			applyContent(img, content, rng)
		}
		return img
	}
	img := newSourceRaw(kind, r, subMode, rng)
	if content != 0 {
		applyContent(img, content, rng)
	}
	return img
}

// restride copies the rows of a whole image into a buffer with stride = width*bpp + bpp/2 (or + 3
// for one-byte pixels); types without a stride are returned as they are.
func restride(img image.Image) image.Image {
	move := func(pix []uint8, stride, rowBytes, rows, bpp int) ([]uint8, int) {
		extra := bpp / 2
		if extra == 0 {
			extra = 3
		}
		ns := rowBytes + extra
		out := make([]uint8, ns*rows)
		for i := range out {
			out[i] = 0xA5
		}
		for y := 0; y < rows; y++ {
			copy(out[y*ns:y*ns+rowBytes], pix[y*stride:y*stride+rowBytes])
		}
		return out, ns
	}
	switch m := img.(type) {
	case *image.RGBA64:
		c := *m
		c.Pix, c.Stride = move(m.Pix, m.Stride, 8*m.Rect.Dx(), m.Rect.Dy(), 8)
		return &c
	case *image.NRGBA64:
		c := *m
		c.Pix, c.Stride = move(m.Pix, m.Stride, 8*m.Rect.Dx(), m.Rect.Dy(), 8)
		return &c
	case *image.RGBA:
		c := *m
		c.Pix, c.Stride = move(m.Pix, m.Stride, 4*m.Rect.Dx(), m.Rect.Dy(), 4)
		return &c
	case *image.NRGBA:
		c := *m
		c.Pix, c.Stride = move(m.Pix, m.Stride, 4*m.Rect.Dx(), m.Rect.Dy(), 4)
		return &c
	case *image.CMYK:
		c := *m
		c.Pix, c.Stride = move(m.Pix, m.Stride, 4*m.Rect.Dx(), m.Rect.Dy(), 4)
		return &c
	case *image.Gray16:
		c := *m
		c.Pix, c.Stride = move(m.Pix, m.Stride, 2*m.Rect.Dx(), m.Rect.Dy(), 2)
		return &c
	case *image.Alpha16:
		c := *m
		c.Pix, c.Stride = move(m.Pix, m.Stride, 2*m.Rect.Dx(), m.Rect.Dy(), 2)
		return &c
	case *image.Gray:
		c := *m
		c.Pix, c.Stride = move(m.Pix, m.Stride, m.Rect.Dx(), m.Rect.Dy(), 1)
		return &c
	case *image.Alpha:
		c := *m
		c.Pix, c.Stride = move(m.Pix, m.Stride, m.Rect.Dx(), m.Rect.Dy(), 1)
		return &c
	case *image.Paletted:
		c := *m
		c.Pix, c.Stride = move(m.Pix, m.Stride, m.Rect.Dx(), m.Rect.Dy(), 1)
		return &c
	case *image.YCbCr:
		c := *m
		restrideYCbCr(&c)
		return &c
	case *image.NYCbCrA:
		// luma, chroma and alpha planes each get a stride of their own (an alpha plane borrowed
		// from a wider mask, or a decoder that pads luma to a multiple of 16, looks like this)
		c := *m
		restrideYCbCr(&c.YCbCr)
		rows := m.Rect.Dy()
		ns := m.Rect.Dx() + 5
		a := make([]uint8, ns*rows+1)
		for y := 0; y < rows; y++ {
			copy(a[y*ns:y*ns+m.Rect.Dx()], m.A[y*m.AStride:y*m.AStride+m.Rect.Dx()])
		}
		c.A, c.AStride = a, ns
		return &c
	}
	return img
}

// restrideYCbCr gives the luma plane a stride of width+3 and the chroma planes chroma-width+2
// (whole images at the origin only: the planes are re-laid out from what At() would read).
func restrideYCbCr(c *image.YCbCr) {
	w, h := c.Rect.Dx(), c.Rect.Dy()
	if w == 0 || h == 0 {
		return
	}
	ys := w + 3
	ny := make([]uint8, ys*h)
	for y := 0; y < h; y++ {
		copy(ny[y*ys:y*ys+w], c.Y[y*c.YStride:y*c.YStride+w])
	}
	// chroma plane height = len / stride of the original
	ch := len(c.Cb) / c.CStride
	cw := c.CStride
	cs := cw + 2
	ncb, ncr := make([]uint8, cs*ch), make([]uint8, cs*ch)
	for y := 0; y < ch; y++ {
		copy(ncb[y*cs:y*cs+cw], c.Cb[y*cw:(y+1)*cw])
		copy(ncr[y*cs:y*cs+cw], c.Cr[y*cw:(y+1)*cw])
	}
	c.Y, c.YStride, c.Cb, c.Cr, c.CStride = ny, ys, ncb, ncr, cs
}

func planesOf(img image.Image) [][]uint8 {
	switch m := img.(type) {
	case *image.YCbCr:
		return [][]uint8{m.Y, m.Cb, m.Cr}
	case *image.NYCbCrA:
		return [][]uint8{m.Y, m.Cb, m.Cr, m.A}
	case opaqueSrc:
		return planesOf(m.Image)
	}
	if p := pixOf(img); p != nil {
		return [][]uint8{p}
	}
	return nil
}

func bytesPerPixel(img image.Image) int {
	switch img.(type) {
	case *image.RGBA64, *image.NRGBA64:
		return 8
	case *image.RGBA, *image.NRGBA, *image.CMYK:
		return 4
	case *image.Gray16, *image.Alpha16:
		return 2
	case opaqueSrc:
		return 8
	}
	return 1
}

func applyContent(img image.Image, content int, rng *core.RNG) {
	if pm, ok := img.(*image.Paletted); ok {
		// palette indices must stay below the palette length
		defer func() {
			for i := range pm.Pix {
				if int(pm.Pix[i]) >= len(pm.Palette) {
					pm.Pix[i] = uint8(len(pm.Palette) - 1)
				}
			}
		}()
	}
	bpp := bytesPerPixel(img)
	for _, p := range planesOf(img) {
		switch content {
		case 1: // runs of equal pixels
			for i := 0; i+bpp <= len(p); {
				run := 2 + rng.Intn(9)
				for k := 1; k < run && i+(k+1)*bpp <= len(p); k++ {
					copy(p[i+k*bpp:i+(k+1)*bpp], p[i:i+bpp])
				}
				i += run * bpp
			}
		case 2:
			for i := range p {
				p[i] = 0
			}
		case 3:
			for i := range p {
				p[i] = 0xFF
			}
		}
	}
	if content == 6 {
		// every pixel opaque except the very last one (bottom-right), which is half transparent: a
		// whole-image scan that stops early, or runs over the wrong bytes, takes the image for opaque
		b := img.Bounds()
		if d, ok := img.(draw.Image); ok && !b.Empty() {
			for y := b.Min.Y; y < b.Max.Y; y++ {
				for x := b.Min.X; x < b.Max.X; x++ {
					r16, g16, b16, _ := d.At(x, y).RGBA()
					d.Set(x, y, color.RGBA64{R: uint16(r16) | 0x0101, G: uint16(g16), B: uint16(b16), A: 0xFFFF})
				}
			}
			// the pixels of the parent that lie between the rows of a sub-image count as well for a scan
			// that ignores the stride: make every alpha in the shared buffer opaque first
			switch m := img.(type) {
			case *image.NRGBA:
				for i := 3; i < len(m.Pix); i += 4 {
					m.Pix[i] = 0xFF
				}
			case *image.RGBA:
				for i := 3; i < len(m.Pix); i += 4 {
					m.Pix[i] = 0xFF
				}
			case *image.NRGBA64:
				for i := 6; i+1 < len(m.Pix); i += 8 {
					m.Pix[i], m.Pix[i+1] = 0xFF, 0xFF
				}
			case *image.RGBA64:
				for i := 6; i+1 < len(m.Pix); i += 8 {
					m.Pix[i], m.Pix[i+1] = 0xFF, 0xFF
				}
			}
			d.Set(b.Max.X-1, b.Max.Y-1, color.NRGBA64{R: 0xFFFF, G: 0x8000, B: 0x1234, A: 0x7000})
		}
	}
	if content == 5 {
		// every pixel opaque, colours as they are (a whole-image "is opaque" test passes, the image is not uniform)
		b := img.Bounds()
		if d, ok := img.(draw.Image); ok {
			for y := b.Min.Y; y < b.Max.Y; y++ {
				for x := b.Min.X; x < b.Max.X; x++ {
					r16, g16, b16, _ := d.At(x, y).RGBA()
					d.Set(x, y, color.RGBA64{R: uint16(r16) | 0x0101, G: uint16(g16), B: uint16(b16) ^ uint16(x*2570), A: 0xFFFF})
				}
			}
		} else if ny, ok := img.(*image.NYCbCrA); ok {
			for i := range ny.A {
				ny.A[i] = 0xFF
			}
		}
	}
}

func newSourceRaw(kind string, r image.Rectangle, subMode int, rng *core.RNG) image.Image {
	sub := subMode != 0
	pr := r
	switch subMode {
	case 1:
		pr = image.Rect(r.Min.X-2, r.Min.Y-1, r.Max.X+3, r.Max.Y+2)
	case 2:
		pr = image.Rect(r.Min.X, r.Min.Y-1, r.Max.X, r.Max.Y+3)
	case 4: // bottom-right corner of the parent: starts at x > 0 and ends with the parent's last pixel
		pr = image.Rect(r.Min.X-2, r.Min.Y-1, r.Max.X, r.Max.Y)
	case 5: // top-left corner of the parent: Pix starts at the first pixel, stride > width
		pr = image.Rect(r.Min.X, r.Min.Y, r.Max.X+3, r.Max.Y+2)
	}
	if _, isY := ycbcrRatios[kind]; isY || kind == "NYCbCrA" {
		// the standard library's chroma offset arithmetic truncates toward zero and
		// indexes out of range for negative coordinates: keep YCbCr at x,y >= 0
		if pr.Min.X < 0 {
			pr.Min.X = 0
		}
		if pr.Min.Y < 0 {
			pr.Min.Y = 0
		}
		if r.Min.X < 0 || r.Min.Y < 0 {
			panic("YCbCr sources must have non-negative origin")
		}
	}
	var img image.Image
	switch kind {
	case "RGBA64":
		m := image.NewRGBA64(pr)
		fillBytes(rng, m.Pix)
		img = m
	case "NRGBA64":
		m := image.NewNRGBA64(pr)
		fillBytes(rng, m.Pix)
		img = m
	case "RGBA":
		m := image.NewRGBA(pr)
		fillBytes(rng, m.Pix)
		// keep most pixels validly premultiplied, leave some arbitrary (among them fully
		// transparent pixels that still carry colour bytes)
		for i := 0; i+3 < len(m.Pix); i += 4 {
			if rng.Intn(16) == 0 {
				m.Pix[i+3] = 0
				if m.Pix[i] == 0 {
					m.Pix[i] = 0x40
				}
				continue
			}
			if rng.Intn(4) != 0 {
				a := m.Pix[i+3]
				for k := 0; k < 3; k++ {
					if m.Pix[i+k] > a {
						m.Pix[i+k] = uint8(int(m.Pix[i+k]) * int(a) / 255)
					}
				}
			}
		}
		img = m
	case "NRGBA":
		m := image.NewNRGBA(pr)
		fillBytes(rng, m.Pix)
		img = m
	case "Gray":
		m := image.NewGray(pr)
		fillBytes(rng, m.Pix)
		img = m
	case "Gray16":
		m := image.NewGray16(pr)
		fillBytes(rng, m.Pix)
		img = m
	case "Alpha":
		m := image.NewAlpha(pr)
		fillBytes(rng, m.Pix)
		img = m
	case "Alpha16":
		m := image.NewAlpha16(pr)
		fillBytes(rng, m.Pix)
		img = m
	case "CMYK":
		m := image.NewCMYK(pr)
		fillBytes(rng, m.Pix)
		img = m
	case "Paletted":
		pal := make(color.Palette, 1+rng.Intn(255))
		for i := range pal {
			v := rng.U64()
			if i%3 == 0 {
				pal[i] = color.NRGBA{R: uint8(v), G: uint8(v >> 8), B: uint8(v >> 16), A: uint8(v >> 24)}
			} else {
				pal[i] = color.RGBA64{R: uint16(v), G: uint16(v >> 16), B: uint16(v >> 32), A: 65535}
			}
		}
		m := image.NewPaletted(pr, pal)
		for i := range m.Pix {
			m.Pix[i] = uint8(rng.Intn(len(pal)))
		}
		img = m
	case "NYCbCrA":
		m := image.NewNYCbCrA(pr, image.YCbCrSubsampleRatio420)
		fillBytes(rng, m.Y)
		fillBytes(rng, m.Cb)
		fillBytes(rng, m.Cr)
		fillBytes(rng, m.A)
		img = m
	case "opaque", "opaqueNRGBA":
		m := image.NewNRGBA64(pr)
		fillBytes(rng, m.Pix)
		if sub {
			return opaqueSrc{m.SubImage(r)}
		}
		return opaqueSrc{m}
	case "override", "override64":
		// a caller's type that embeds a standard image (so that its methods other than At are the
		// standard image's own) and overrides At: what the image shows is what At returns
		if kind == "override" {
			m := image.NewNRGBA(pr)
			fillBytes(rng, m.Pix)
			if sub {
				return mirroredNRGBA{m.SubImage(r).(*image.NRGBA)}
			}
			return mirroredNRGBA{m}
		}
		m := image.NewRGBA64(pr)
		fillBytes(rng, m.Pix)
		if sub {
			return mirroredRGBA64{m.SubImage(r).(*image.RGBA64)}
		}
		return mirroredRGBA64{m}
	case "Uniform":
		v := rng.U64()
		u := image.NewUniform(color.NRGBA64{R: uint16(v), G: uint16(v >> 16), B: uint16(v >> 32), A: uint16(v >> 48)})
		return uniformIn{u, r}
	default:
		if ratio, ok := ycbcrRatios[kind]; ok {
			m := image.NewYCbCr(pr, ratio)
			fillBytes(rng, m.Y)
			fillBytes(rng, m.Cb)
			fillBytes(rng, m.Cr)
			img = m
		} else {
			panic("unknown image kind " + kind)
		}
	}
	if sub {
		return img.(subImager).SubImage(r)
	}
	return img
}

// mirroredNRGBA / mirroredRGBA64 show their embedded image mirrored left to right.
type mirroredNRGBA struct{ *image.NRGBA }

func (m mirroredNRGBA) At(x, y int) color.Color {
	return m.NRGBA.NRGBAAt(m.Rect.Min.X+m.Rect.Max.X-1-x, y)
}

type mirroredRGBA64 struct{ *image.RGBA64 }

func (m mirroredRGBA64) At(x, y int) color.Color {
	return m.RGBA64.RGBA64At(m.Rect.Min.X+m.Rect.Max.X-1-x, y)
}

// uniformIn is an image backed by a Uniform but with finite bounds.
type uniformIn struct {
	u *image.Uniform
	r image.Rectangle
}

func (u uniformIn) ColorModel() color.Model { return u.u.ColorModel() }
func (u uniformIn) Bounds() image.Rectangle { return u.r }
func (u uniformIn) At(x, y int) color.Color { return u.u.At(x, y) }

// concrete destination images ------------------------------------------------

func newConcrete(kind string, r image.Rectangle) draw.Image {
	switch kind {
	case "RGBA64":
		return image.NewRGBA64(r)
	case "RGBA":
		return image.NewRGBA(r)
	case "NRGBA":
		return image.NewNRGBA(r)
	case "NRGBA64":
		return image.NewNRGBA64(r)
	}
	panic("unknown destination kind " + kind)
}

func pixOf(img image.Image) []uint8 {
	switch m := img.(type) {
	case *image.RGBA64:
		return m.Pix
	case *image.RGBA:
		return m.Pix
	case *image.NRGBA:
		return m.Pix
	case *image.NRGBA64:
		return m.Pix
	case *image.Gray:
		return m.Pix
	case *image.Gray16:
		return m.Pix
	case *image.CMYK:
		return m.Pix
	case *image.Alpha:
		return m.Pix
	case *image.Alpha16:
		return m.Pix
	case *image.Paletted:
		return m.Pix
	case opaqueDst:
		return pixOf(m.Image)
	case opaqueSrc:
		return pixOf(m.Image)
	}
	return nil
}

// cloneConcrete deep-copies a concrete RGBA64/RGBA/NRGBA/NRGBA64 image (same
// Rect and Stride, own Pix).
func cloneConcrete(img draw.Image) draw.Image {
	switch m := img.(type) {
	case *image.RGBA64:
		c := *m
		c.Pix = append([]uint8(nil), m.Pix...)
		return &c
	case *image.RGBA:
		c := *m
		c.Pix = append([]uint8(nil), m.Pix...)
		return &c
	case *image.NRGBA:
		c := *m
		c.Pix = append([]uint8(nil), m.Pix...)
		return &c
	case *image.NRGBA64:
		c := *m
		c.Pix = append([]uint8(nil), m.Pix...)
		return &c
	}
	panic("cloneConcrete: unsupported type")
}

// snapshot returns an independent image with the same At() over the same
// bounds (used as the model's view of the source before the call).
func snapshot(img image.Image) image.Image {
	b := img.Bounds()
	switch m := img.(type) {
	case *image.YCbCr:
		c := *m
		c.Y = append([]uint8(nil), m.Y...)
		c.Cb = append([]uint8(nil), m.Cb...)
		c.Cr = append([]uint8(nil), m.Cr...)
		return &c
	case *image.NYCbCrA:
		c := *m
		c.Y = append([]uint8(nil), m.Y...)
		c.Cb = append([]uint8(nil), m.Cb...)
		c.Cr = append([]uint8(nil), m.Cr...)
		c.A = append([]uint8(nil), m.A...)
		return &c
	case *image.Paletted:
		c := *m
		c.Pix = append([]uint8(nil), m.Pix...)
		c.Palette = append(color.Palette(nil), m.Palette...)
		return &c
	case *image.Gray:
		c := *m
		c.Pix = append([]uint8(nil), m.Pix...)
		return &c
	case *image.Gray16:
		c := *m
		c.Pix = append([]uint8(nil), m.Pix...)
		return &c
	case *image.CMYK:
		c := *m
		c.Pix = append([]uint8(nil), m.Pix...)
		return &c
	case *image.Alpha:
		c := *m
		c.Pix = append([]uint8(nil), m.Pix...)
		return &c
	case *image.Alpha16:
		c := *m
		c.Pix = append([]uint8(nil), m.Pix...)
		return &c
	case *image.RGBA64, *image.RGBA, *image.NRGBA, *image.NRGBA64:
		return cloneConcrete(m.(draw.Image))
	case opaqueSrc:
		return opaqueSrc{snapshot(m.Image)}
	case uniformIn:
		return m
	}
	// generic fallback: copy through At into NRGBA64 is lossy for some models, so keep colours
	cp := &colorGrid{r: b, c: make([]color.Color, b.Dx()*b.Dy()), model: img.ColorModel()}
	for y := b.Min.Y; y < b.Max.Y; y++ {
		for x := b.Min.X; x < b.Max.X; x++ {
			cp.c[(y-b.Min.Y)*b.Dx()+(x-b.Min.X)] = img.At(x, y)
		}
	}
	return cp
}

type colorGrid struct {
	r     image.Rectangle
	c     []color.Color
	model color.Model
}

func (g *colorGrid) ColorModel() color.Model { return g.model }
func (g *colorGrid) Bounds() image.Rectangle { return g.r }
func (g *colorGrid) At(x, y int) color.Color {
	if !(image.Point{x, y}).In(g.r) {
		return g.model.Convert(color.Transparent)
	}
	return g.c[(y-g.r.Min.Y)*g.r.Dx()+(x-g.r.Min.X)]
}

func sameColor(a, b color.Color) bool {
	r1, g1, b1, a1 := a.RGBA()
	r2, g2, b2, a2 := b.RGBA()
	return r1 == r2 && g1 == g2 && b1 == b2 && a1 == a2
}

// imagesEqualAt compares two images pixel by pixel over b.
func imagesEqualAt(a, b image.Image, r image.Rectangle) (bool, image.Point) {
	for y := r.Min.Y; y < r.Max.Y; y++ {
		for x := r.Min.X; x < r.Max.X; x++ {
			if !sameColor(a.At(x, y), b.At(x, y)) {
				return false, image.Point{x, y}
			}
		}
	}
	return true, image.Point{}
}
