//go:build all || c07

package props

import (
	"bufio"
	"bytes"
	"encoding/base64"
	"encoding/json"
	"errors"
	"fmt"
	"io"
	"os"
	"runtime"
	"strings"
	"sync/atomic"
	"time"

	"verifharness/internal/core"
	"verifharness/internal/imggen"
	"verifharness/internal/src"
)

// C07 — the returned stream replays the whole input.

type c07Case struct {
	Seed     string `json:"seed_file"`
	File     string `json:"input_base64"`
	Cut      int    `json:"cut"`      // bytes the source delivers before its terminal condition
	Terminal string `json:"terminal"` // eof | error | data+eof | data+error
	Schedule string `json:"schedule"` // all | 1 | 2 | 3 | 7 | 4095 | 4096 | 4097 | random
	Loader   string `json:"loader"`
	ReadBuf  int    `json:"readout_buffer"`
	RngSeed  uint64 `json:"schedule_seed"`
	// ErrKind: which error value the source fails with ("" = a private injected error)
	ErrKind string `json:"source_error,omitempty"`
	// Drain: how the returned stream is consumed: "" = Read calls; "copy@k" = k bytes with Read, the
	// rest with io.Copy (which uses the stream's WriteTo when it has one)
	Drain string `json:"drain,omitempty"`
	// Bufio: the source handed to Load is itself a *bufio.Reader of this size over the monitored source
	Bufio int `json:"source_is_bufio_reader_of_size,omitempty"`
	// Seeker: the source is an io.ReadSeeker positioned Seeker bytes into a longer stream
	// ("bytes.Reader" or "os.File"); only the bytes from that position on are the input
	Seeker     string `json:"seekable_source,omitempty"`
	SeekPrefix int    `json:"bytes_before_the_input,omitempty"`
	// Deferred: the read-out happened after `Deferred` further loads had been made
	Deferred int `json:"deferred_behind_loads,omitempty"`
}

func c07Source(data []byte, cs c07Case) *src.Source {
	s := src.New(data[:cs.Cut])
	if strings.Contains(cs.Terminal, "error") {
		s = src.New(data).FaultWith(int64(cs.Cut), c07Err(cs.ErrKind))
	}
	if strings.HasPrefix(cs.Terminal, "data+") {
		s.DataWithEnd()
	}
	switch cs.Schedule {
	case "all":
	case "zn1", "zn7", "zn64", "zn4096":
		// a polling source: every other Read returns (0, nil), the others deliver up to n bytes
		var n int
		fmt.Sscanf(cs.Schedule, "zn%d", &n)
		s.Sizes(n).ZeroNil(2)
	case "random":
		rg := core.NewRNG(int64(cs.RngSeed>>1), "c07sched")
		s.Random(23, rg.Intn)
	default:
		var n int
		fmt.Sscanf(cs.Schedule, "%d", &n)
		s.Sizes(n)
	}
	return s
}

// lenSource delivers head, then rest; Len() reports what is left of head only.
type lenSource struct {
	head *bytes.Buffer
	rest io.Reader
}

func (l *lenSource) Len() int { return l.head.Len() }
func (l *lenSource) Read(p []byte) (int, error) {
	if l.head.Len() > 0 {
		return l.head.Read(p)
	}
	return l.rest.Read(p)
}

type c07Loaded struct {
	cs   c07Case
	res  loadResult
	src  *src.Source
	data []byte
	// the metadata was dropped (and a collection forced) right after the load
	mdDropped, mdWasOK bool
}

func c07Load(data []byte, cs c07Case) c07Loaded {
	if cs.Seeker != "" {
		// a seekable reader handed over at a non-zero position: the input is what follows
		prefix := bytes.Repeat([]byte("PREFIX--"), (cs.SeekPrefix+7)/8)[:cs.SeekPrefix]
		whole := append(append([]byte{}, prefix...), data[:cs.Cut]...)
		var rd io.Reader
		if cs.Seeker == "os.File" {
			f, err := os.CreateTemp(core.WorkDir("C07"), "seek")
			if err == nil {
				_, _ = f.Write(whole)
				_, _ = f.Seek(int64(cs.SeekPrefix), io.SeekStart)
				name := f.Name()
				rd = f
				defer func() { _ = os.Remove(name) }()
				l := c07Loaded{cs: cs, res: loadWith(cs.Loader, rd), src: src.New(nil), data: data}
				// drain now: the file is removed when this function returns
				if l.res.Stream != nil {
					func() {
						defer func() {
							if p := recover(); p != nil {
								l.res.Panic = fmt.Sprintf("reading the returned stream panicked: %v", p)
							}
						}()
						got, rerr, _ := src.ReadAllChunks(l.res.Stream, cs.ReadBuf, int64(len(whole))+1<<16)
						l.res.Stream = &replayed{bytes.NewReader(got), rerr}
					}()
				}
				_ = f.Close()
				return l
			}
		}
		if cs.Seeker == "os.Pipe" {
			// the read end of a pipe: an *os.File (so it has Seek, Stat ...) on which seeking fails
			pr, pw, err := os.Pipe()
			if err == nil {
				go func() {
					_, _ = pw.Write(data[:cs.Cut])
					_ = pw.Close()
				}()
				l := c07Loaded{cs: cs, res: loadWith(cs.Loader, pr), src: src.New(nil), data: data}
				if l.res.Stream != nil {
					func() {
						defer func() {
							if p := recover(); p != nil {
								l.res.Panic = fmt.Sprintf("reading the returned stream panicked: %v", p)
							}
						}()
						got, rerr, _ := src.ReadAllChunks(l.res.Stream, cs.ReadBuf, int64(cs.Cut)+1<<16)
						l.res.Stream = &replayed{bytes.NewReader(got), rerr}
					}()
				}
				_ = pr.Close()
				return l
			}
		}
		switch cs.Seeker {
		case "strings.Reader":
			sr := strings.NewReader(string(whole))
			_, _ = sr.Seek(int64(cs.SeekPrefix), io.SeekStart)
			return c07Loaded{cs: cs, res: loadWith(cs.Loader, sr), src: src.New(nil), data: data}
		case "bufio.Reader": // a buffered reader from which the caller has already taken the prefix byte by byte
			bb := bufio.NewReaderSize(bytes.NewReader(whole), 64)
			for i := 0; i < cs.SeekPrefix; i++ {
				_, _ = bb.ReadByte()
			}
			return c07Loaded{cs: cs, res: loadWith(cs.Loader, bb), src: src.New(nil), data: data}
		case "limited:-1", "limited:0":
			// an io.LimitedReader whose limit is negative (a ContentLength of -1 handed to io.LimitReader)
			// or zero: a valid reader that delivers nothing
			var n int64
			fmt.Sscanf(cs.Seeker, "limited:%d", &n)
			return c07Loaded{cs: cs, res: loadWith(cs.Loader, io.LimitReader(bytes.NewReader(data), n)), src: src.New(nil), data: data}
		case "len-source":
			// a prefetch wrapper: the first bytes sit in a buffer whose length it reports through Len(),
			// the rest is still to come from the connection behind it
			k := cs.SeekPrefix % (cs.Cut + 1)
			ls := &lenSource{head: bytes.NewBuffer(append([]byte{}, data[:k]...)), rest: c07Source(data[k:], c07Case{Cut: cs.Cut - k, Terminal: "eof", Schedule: "7"})}
			return c07Loaded{cs: cs, res: loadWith(cs.Loader, ls), src: src.New(nil), data: data}
		}
		br := bytes.NewReader(whole)
		_, _ = br.Seek(int64(cs.SeekPrefix), io.SeekStart)
		return c07Loaded{cs: cs, res: loadWith(cs.Loader, br), src: src.New(nil), data: data}
	}
	s := c07Source(data, cs)
	if cs.Bufio > 0 {
		return c07Loaded{cs: cs, res: loadWith(cs.Loader, bufio.NewReaderSize(s, cs.Bufio)), src: s, data: data}
	}
	return c07Loaded{cs: cs, res: loadWith(cs.Loader, s), src: s, data: data}
}

// replayed carries an already drained stream (bytes, then its terminal error).
type replayed struct {
	r   *bytes.Reader
	err error
}

func (p *replayed) Read(b []byte) (int, error) {
	n, err := p.r.Read(b)
	if err == io.EOF && p.err != nil {
		return n, p.err
	}
	return n, err
}

// c07Readout drains the returned stream and compares with what the source delivered.
func c07Readout(l c07Loaded) (kind, msg string, mdOK bool) {
	cs := l.cs
	if l.res.Panic != nil {
		return "panic", fmt.Sprintf("%s.Load panicked (cut %d of %s, %s, schedule %s): %v", cs.Loader, cs.Cut, cs.Seed, cs.Terminal, cs.Schedule, l.res.Panic), false
	}
	if l.res.Stream == nil {
		return "nil-stream", fmt.Sprintf("%s.Load returned a nil stream (cut %d of %s, %s)", cs.Loader, cs.Cut, cs.Seed, cs.Terminal), false
	}
	mdOK = l.res.Err == nil && l.res.MD != nil
	if l.mdDropped {
		mdOK = l.mdWasOK
	}
	var got []byte
	var rerr error
	var bounded bool
	func() {
		defer func() {
			if p := recover(); p != nil {
				kind, msg = "panic", fmt.Sprintf("reading the stream returned by %s.Load panicked: %v", cs.Loader, p)
			}
		}()
		if strings.HasPrefix(cs.Drain, "zero-reads@") {
			// a consumer that now and then calls Read with an empty buffer (legal: returns 0, nil or the
			// pending error) between reads of k bytes
			var k int
			fmt.Sscanf(cs.Drain, "zero-reads@%d", &k)
			if k < 1 {
				k = 1
			}
			buf := make([]byte, k)
			bounded = true
			limit := int64(len(l.data)) + 1<<16
			for calls := 0; ; calls++ {
				if calls%3 == 0 {
					if n0, e0 := l.res.Stream.Read(buf[:0]); n0 != 0 {
						kind, msg = "bytes", fmt.Sprintf("Read with an empty buffer returned %d bytes", n0)
						return
					} else if e0 != nil && e0 != io.EOF {
						rerr = e0
						return
					}
				}
				n, e := l.res.Stream.Read(buf)
				got = append(got, buf[:n]...)
				if int64(len(got)) > limit || calls > 4*len(l.data)+1000 {
					bounded = false
					return
				}
				if e != nil {
					if e != io.EOF {
						rerr = e
					}
					return
				}
			}
		}
		if strings.HasPrefix(cs.Drain, "bytes-then-read@") {
			// a consumer that uses ReadByte when the stream offers it (as bufio-style parsers do) for
			// the first k bytes and in between, and Read for the rest
			var k int
			fmt.Sscanf(cs.Drain, "bytes-then-read@%d", &k)
			br, ok := l.res.Stream.(io.ByteReader)
			bounded = true
			limit := int64(len(l.data)) + 1<<16
			buf := make([]byte, 512)
			for turn := 0; ; turn++ {
				if ok && turn%2 == 0 {
					for i := 0; i < k; i++ {
						b, e := br.ReadByte()
						if e != nil {
							if e != io.EOF {
								rerr = e
							}
							return
						}
						got = append(got, b)
					}
				}
				n, e := l.res.Stream.Read(buf)
				got = append(got, buf[:n]...)
				if int64(len(got)) > limit || turn > 8*len(l.data)+1000 {
					bounded = false
					return
				}
				if e != nil {
					if e != io.EOF {
						rerr = e
					}
					return
				}
			}
		}
		if strings.HasPrefix(cs.Drain, "copy@") {
			var k int
			fmt.Sscanf(cs.Drain, "copy@%d", &k)
			head := make([]byte, k)
			n, herr := io.ReadFull(l.res.Stream, head)
			got = append(got, head[:n]...)
			bounded = true
			if herr == nil {
				rest := &boundedBuf{limit: int64(len(l.data)) + 1<<16}
				_, rerr = io.Copy(rest, l.res.Stream) // uses the stream's WriteTo if it has one
				got = append(got, rest.b...)
				if rest.over {
					bounded = false
				}
				if rerr == errBoundedBuf {
					rerr = nil
				}
			} else if herr != io.EOF && herr != io.ErrUnexpectedEOF {
				rerr = herr
			}
			return
		}
		got, rerr, bounded = src.ReadAllChunks(l.res.Stream, cs.ReadBuf, int64(len(l.data))+1<<16)
	}()
	if kind != "" {
		return
	}
	want := l.data[:cs.Cut]
	if !bounded {
		return "unbounded", fmt.Sprintf("%s: stream did not terminate after %d bytes (input cut at %d)", cs.Loader, len(got), cs.Cut), mdOK
	}
	if !bytes.Equal(got, want) {
		return "bytes", fmt.Sprintf("%s.Load(%s cut at %d, %s, schedule %s): stream yields %d bytes that %s; source delivered %d bytes; metadata ok=%v err=%v",
			cs.Loader, cs.Seed, cs.Cut, cs.Terminal, cs.Schedule, len(got), firstDiff(got, want), len(want), mdOK, l.res.Err), mdOK
	}
	if strings.Contains(cs.Terminal, "error") {
		if want := c07Err(cs.ErrKind); !errors.Is(rerr, want) || (cs.ErrKind == "wrapped io.EOF" && rerr == nil) {
			return "error-lost", fmt.Sprintf("%s.Load(%s, source fails after %d bytes): stream ended with %v instead of surfacing the source's error", cs.Loader, cs.Seed, cs.Cut, rerr), mdOK
		}
	} else if rerr != nil {
		return "spurious-error", fmt.Sprintf("%s.Load(%s cut at %d): stream ended with error %v although the source ended cleanly", cs.Loader, cs.Seed, cs.Cut, rerr), mdOK
	}
	if l.src.CallsAfterEnd > 64 {
		return "polling", fmt.Sprintf("%s: %d Read calls after the source had ended", cs.Loader, l.src.CallsAfterEnd), mdOK
	}
	return "", "ok", mdOK
}

func c07CutClass(t imggen.Truth, cut, total int) string {
	for _, f := range t.Fields {
		if cut > f.Off && cut < f.Off+f.Len {
			if f.Kind == "sig" {
				return "inside-signature"
			}
			return "inside-field"
		}
	}
	for _, f := range t.Fields {
		if cut == f.Off || cut == f.Off+f.Len {
			return "on-boundary"
		}
	}
	if t.NeedEnd > 0 && cut > t.NeedEnd {
		return "beyond-needed"
	}
	if cut == total {
		return "complete"
	}
	return "inside-payload"
}

func runC07(r *core.Run) {
	r.Rule = "for each seed file (generated PNG/JPEG/WebP with and without profiles, the repository's small files, garbage, empty) every prefix length x 4 loaders x terminal {EOF, sticky I/O error, final data together with EOF, final data together with the error} x delivery schedule {all-at-once, 1 byte, seeded random; thorough adds 2,3,7,4095,4096,4097 and mutated seeds}; the stream is drained with buffers of 1, 7 or 32768 bytes, immediately or after up to 3 further loads (deferred read-out, so that recycled buffers show); non-trivial = distinct (loader, seed, cut class, terminal, schedule, metadata-success) other than cuts beyond the needed data with successful metadata"
	r.Assumptions = []string{"the source is sticky: once it has failed it keeps returning the same error", "faults enter only through the io.Reader handed to Load"}
	if strings.HasPrefix(r.Variant, "bounded") {
		// small inputs at the limits of what the formats allow (255 ICC chunks, all present; 255 chunks
		// of 255 announced; chunk numbers 255 of 255 first): each load is a matter of microseconds, and
		// the parent treats a child that has not answered within its bound as a loader that never returned
		var files []genFile
		for _, total := range []int{255, 254, 128, 127} {
			for _, order := range []string{"ascending", "descending"} {
				var segs []imggen.JPEGSeg
				var prof []byte
				for i := 1; i <= total; i++ {
					k := i
					if order == "descending" {
						k = total + 1 - i
					}
					segs = append(segs, imggen.ICCChunkSeg(k, total, []byte{byte(k)}))
				}
				for i := 1; i <= total; i++ {
					prof = append(prof, byte(i))
				}
				b, t := imggen.JPEGSpec{Precision: 8, W: 5, H: 7, Comps: imggen.StdComps(1, 1, 1), Before: segs, ICC: prof, ICCState: "ok", Entropy: []byte{1}}.Build()
				files = append(files, genFile{fmt.Sprintf("jpeg with %d one-byte ICC chunks, %s", total, order), b, t})
				b2, t2 := imggen.JPEGSpec{Precision: 8, W: 5, H: 7, Comps: imggen.StdComps(1, 1, 1), After: segs, ICC: prof, ICCState: "ok", Entropy: []byte{1}}.Build()
				files = append(files, genFile{fmt.Sprintf("jpeg with %d one-byte ICC chunks after SOF, %s", total, order), b2, t2})
			}
		}
		var n int64
		for _, f := range files {
			for _, loader := range []string{"jpegmeta", "autometa"} {
				fmt.Fprintf(os.Stderr, "bounded: %s through %s\n", f.Name, loader)
				for _, cut := range []int{len(f.Bytes), len(f.Bytes) - 3, len(f.Bytes) / 2} {
					cs := c07Case{Seed: f.Name, Cut: cut, Terminal: "eof", Schedule: "all", Loader: loader, ReadBuf: 7}
					n++
					if kind, msg, _ := c07Readout(c07Load(f.Bytes, cs)); kind != "" {
						cs.File = base64.StdEncoding.EncodeToString(f.Bytes)
						r.Violate("prefix", loader+"/"+kind+"/bounded", msg, cs)
					}
				}
			}
		}
		// 400 files with 400 different profiles, one after the other in this one process (a table of
		// profiles seen so far that fills up shows only from its capacity on)
		rg := core.NewRNG(r.Seed, "C07", "bounded-many")
		for i := 0; i < 400; i++ {
			prof := append([]byte(fmt.Sprintf("profile number %d ", i)), rg.Bytes(40+i%50)...)
			var f genFile
			switch i % 3 {
			case 0:
				b, t := imggen.PNGSpec{W: 5, H: 7, Depth: 8, ColorType: 2, ICC: &imggen.PNGICC{Name: "m", Profile: prof, Level: 6}, IDAT: []byte{1}}.Build()
				f = genFile{fmt.Sprintf("png with profile #%d of 400", i), b, t}
			case 1:
				b, t := imggen.JPEGSpec{Precision: 8, W: 5, H: 7, Comps: imggen.StdComps(1, 1, 1), Before: []imggen.JPEGSeg{imggen.ICCChunkSeg(1, 1, prof)}, ICC: prof, ICCState: "ok", Entropy: []byte{1}}.Build()
				f = genFile{fmt.Sprintf("jpeg with profile #%d of 400", i), b, t}
			default:
				b, t := imggen.WebPSpec{Kind: "VP8X", W: 5, H: 7, ICC: prof, Payload: []byte{1, 2, 3}}.Build()
				f = genFile{fmt.Sprintf("webp with profile #%d of 400", i), b, t}
			}
			loader := []string{loaderFor(f.Truth.Format), "autometa"}[i%2]
			fmt.Fprintf(os.Stderr, "bounded: %s through %s\n", f.Name, loader)
			cs := c07Case{Seed: f.Name, Cut: len(f.Bytes), Terminal: "eof", Schedule: "all", Loader: loader, ReadBuf: 7}
			n++
			if kind, msg, _ := c07Readout(c07Load(f.Bytes, cs)); kind != "" {
				cs.File = base64.StdEncoding.EncodeToString(f.Bytes)
				r.Violate("prefix", loader+"/"+kind+"/bounded", msg, cs)
			}
		}
		r.AddEvals(n)
		return
	}
	if strings.HasPrefix(r.Variant, "markers") {
		// a fresh process in which eight goroutines at once load streams with marker codes, chunk names
		// and FourCCs nothing in the process has met before (every code twice, by two goroutines), and
		// drain the returned streams: whatever the loaders remember about what they have seen must not
		// break a load ("no loader panics" includes faults no recover() can catch - those end this child)
		var inputs [][]byte
		for code := 1; code < 0xFF; code++ {
			inputs = append(inputs, []byte{0xFF, 0xD8, 0xFF, byte(code), 0x00, 0x04, 0xAB, 0xCD, 0xFF, byte(code), 0x00, 0x02, 0xFF, 0xD9})
		}
		for i := 0; i < 200; i++ {
			cc := []byte{byte('A' + i%26), byte('a' + (i/26)%26), byte('A' + (i*7)%26), byte('a' + (i*3)%26)}
			png := append(append([]byte{}, imggen.PNGSig...), 0, 0, 0, 1)
			png = append(append(png, cc...), 0x55, 1, 2, 3, 4)
			inputs = append(inputs, png)
			webp := append([]byte("RIFF\x20\x00\x00\x00WEBP"), cc...)
			webp = append(webp, 4, 0, 0, 0, 1, 2, 3, 4)
			inputs = append(inputs, webp)
			// an extended-format header that promises a profile, followed by a chunk that is something
			// else - with a name of printable and of unprintable bytes
			odd := [][]byte{cc, {0x01, 'A', 'B', byte(i)}, {0xFF, 0xFF, 0xFF, byte(i)}, {0, 0, 0, 0}, {'A', 'B', 0x7F, 'C'}, {0x80 + byte(i%100), 'x', 'y', 'z'}}[i%6]
			vx, _ := imggen.WebPSpec{Kind: "VP8X", W: 5, H: 7, Flags: 0x20, FlagsRaw: true, Payload: []byte{1, 2, 3}}.Build()
			if k := bytes.Index(vx, []byte("VP8 ")); k > 0 {
				v2 := append([]byte{}, vx...)
				copy(v2[k:k+4], odd)
				inputs = append(inputs, v2)
			}
		}
		var bad atomic.Int64
		firstUseBurst(8, false, func(g int) {
			for k := range inputs {
				in := inputs[(k+(g/2)*61)%len(inputs)]
				for _, loader := range loaderNames {
					res := loadWith(loader, bytes.NewReader(in))
					if res.Panic != nil {
						if bad.Add(1) == 1 {
							r.Violate("prefix", loader+"/panic/concurrent-new-codes", fmt.Sprintf("%s.Load panicked on % x while eight goroutines load streams with codes new to the process: %v", loader, in, res.Panic), c07Case{Loader: loader, File: base64.StdEncoding.EncodeToString(in), Cut: len(in), Terminal: "eof", Schedule: "all", ReadBuf: 7})
						}
						continue
					}
					if res.Stream == nil {
						continue
					}
					got, _, _ := src.ReadAllChunks(res.Stream, 7, int64(len(in))+4096)
					if !bytes.Equal(got, in) && bad.Add(1) == 1 {
						r.Violate("prefix", loader+"/bytes/concurrent-new-codes", fmt.Sprintf("%s.Load of % x (eight goroutines loading streams with codes new to the process): stream yields % x", loader, in, got), c07Case{Loader: loader, File: base64.StdEncoding.EncodeToString(in), Cut: len(in), Terminal: "eof", Schedule: "all", ReadBuf: 7})
					}
				}
			}
		})
		r.AddEvals(int64(8 * len(inputs) * len(loaderNames)))
		return
	}
	seeds := append(smallSeeds(r.Seed), hostileSpecials()...)
	for _, s := range smallSeeds(r.Seed) {
		if s.Truth.Format != "" && len(s.Bytes) > 0 && !strings.HasPrefix(s.Name, "real:") {
			seeds = append(seeds, genFile{s.Name + "+trailer", append(append([]byte{}, s.Bytes...), []byte("--- 36 bytes that follow the image ---")...), s.Truth})
			// bytes in front of the image (line ends, NULs, fill bytes, a byte-order mark): whether or
			// not a loader is lenient about them, the stream starts with them
			lead := [][]byte{[]byte("\r\n"), {0, 0, 0}, {0xFF, 0xFF}, []byte("\xef\xbb\xbf"), []byte(" \n\t")}[len(seeds)%5]
			seeds = append(seeds, genFile{s.Name + fmt.Sprintf("+leader%x", lead), append(append([]byte{}, lead...), s.Bytes...), imggen.Truth{Format: s.Truth.Format}})
		}
	}
	if r.Thorough() {
		rng := core.NewRNG(r.Seed, "C07", "mut")
		base := len(seeds)
		for i := 0; i < 200; i++ {
			s := seeds[rng.Intn(base)]
			if len(s.Bytes) == 0 {
				continue
			}
			m := mutateBytes(rng, s.Bytes, s.Truth.Fields)
			seeds = append(seeds, genFile{fmt.Sprintf("mut%d:%s", i, s.Name), m, imggen.Truth{Format: s.Truth.Format}})
		}
	}
	// large real files: structural boundaries +/- 1 (segment starts found by a light scan)
	type job struct {
		seed genFile
		cuts []int
	}
	var jobs []job
	for _, s := range seeds {
		if len(s.Bytes) > 8192 {
			continue
		}
		cuts := make([]int, len(s.Bytes)+1)
		for i := range cuts {
			cuts[i] = i
		}
		jobs = append(jobs, job{s, cuts})
	}
	for _, rf := range realFiles() {
		if len(rf.Bytes) <= 2048 {
			continue
		}
		cs := map[int]bool{}
		for _, b := range structuralBoundaries(rf.Format, rf.Bytes) {
			for d := -1; d <= 1; d++ {
				if b+d >= 0 && b+d <= len(rf.Bytes) {
					cs[b+d] = true
				}
			}
		}
		var cuts []int
		for c := range cs {
			cuts = append(cuts, c)
		}
		sortInts(cuts)
		if !r.Thorough() && len(cuts) > 60 {
			cuts = cuts[:60]
		}
		jobs = append(jobs, job{genFile{"real:" + rf.Name, rf.Bytes, imggen.Truth{Format: rf.Format, NeedEnd: 0}}, cuts})
	}
	schedules := []string{"all", "1", "random"}
	if r.Thorough() {
		schedules = append(schedules, "2", "3", "7", "4095", "4096", "4097")
	}
	terminals := []string{"eof", "error", "data+eof", "data+error"}
	type unit struct {
		j    int
		cut  int
		load string
	}
	var units []unit
	for ji, j := range jobs {
		for _, c := range j.cuts {
			for _, l := range loaderNames {
				units = append(units, unit{ji, c, l})
			}
		}
	}
	truths := map[string]imggen.Truth{}
	for _, j := range jobs {
		truths[j.seed.Name] = j.seed.Truth
	}
	// further source kinds, on a sample of the cuts: other error values, seekable sources at an offset
	type extraUnit struct {
		j, cut          int
		load, kind, arg string
	}
	var extras []extraUnit
	{
		rg := core.NewRNG(r.Seed, "C07", "extras")
		for ji, j := range jobs {
			if len(j.seed.Bytes) > 8192 {
				// polling sources over the larger files: hundreds to thousands of empty reads in all,
				// never two in a row
				for k := 0; k < 3; k++ {
					cut := j.cuts[rg.Intn(len(j.cuts))]
					if k == 0 {
						cut = len(j.seed.Bytes)
					}
					for _, l := range loaderNames {
						extras = append(extras, extraUnit{ji, cut, l, "sched", core.Pick(rg, []string{"zn64", "zn7", "zn4096"})})
					}
				}
				continue
			}
			for k := 0; k < 24; k++ {
				cut := j.cuts[rg.Intn(len(j.cuts))]
				if k < 3 {
					cut = len(j.seed.Bytes)
				}
				for _, l := range loaderNames {
					extras = append(extras,
						extraUnit{ji, cut, l, "err", core.Pick(rg, []string{"io.ErrUnexpectedEOF", "wrapped io.ErrUnexpectedEOF", "wrapped io.EOF", "io.ErrClosedPipe", "EINTR", "EAGAIN", "os.ErrDeadlineExceeded"})},
						extraUnit{ji, cut, l, "seek", "bytes.Reader"})
					if k%8 == 0 {
						extras = append(extras, extraUnit{ji, cut, l, "seek", "os.File"}, extraUnit{ji, cut, l, "seek", "os.Pipe"})
					}
					if k%4 == 1 {
						// readers that have nothing (more) to give when they are handed over, and a source
						// that reports the length of its buffered part only
						extras = append(extras, extraUnit{ji, 0, l, "seek", core.Pick(rg, []string{"bytes.Reader", "strings.Reader", "bufio.Reader"})},
							extraUnit{ji, cut, l, "seek", core.Pick(rg, []string{"strings.Reader", "bufio.Reader"})},
							extraUnit{ji, cut, l, "seek", "len-source"},
							extraUnit{ji, 0, l, "seek", core.Pick(rg, []string{"limited:-1", "limited:0"})})
					}
					extras = append(extras, extraUnit{ji, cut, l, "sched", core.Pick(rg, []string{"zn1", "zn7", "zn64"})})
					extras = append(extras, extraUnit{ji, cut, l, "drain", fmt.Sprintf("copy@%d", rg.Intn(64))}, extraUnit{ji, cut, l, "bufio", core.Pick(rg, []string{"16", "4096", "65536"})},
						extraUnit{ji, cut, l, "drain", fmt.Sprintf("zero-reads@%d", core.Pick(rg, []int{1, 5, 4096}))},
						extraUnit{ji, cut, l, "drain", fmt.Sprintf("bytes-then-read@%d", core.Pick(rg, []int{1, 9, 4500}))})
				}
			}
		}
	}
	outcomes := map[string]int64{}
	var omu = make(chan map[string]int64, 64)
	nshards := 64
	core.ParallelFor(nshards, 16, func(sh int) {
		rg := core.NewRNG(r.Seed, "C07", fmt.Sprint(sh))
		local := map[string]int64{}
		var pending []c07Loaded
		flush := func() {
			// read out in a rotated order so that streams are drained while newer ones exist
			for k := range pending {
				l := pending[(k+1)%len(pending)]
				l.cs.Deferred = len(pending) - 1
				kind, msg, mdOK := c07Readout(l)
				cls := c07CutClass(truths[l.cs.Seed], l.cs.Cut, len(l.data))
				if !(cls == "beyond-needed" && mdOK) {
					r.NT(fmt.Sprintf("%s|%s|%s|%s|%s|%v", l.cs.Loader, l.cs.Seed, cls, l.cs.Terminal, l.cs.Schedule, mdOK))
				}
				local[fmt.Sprintf("%s/md=%v", l.cs.Terminal, mdOK)]++
				if kind != "" {
					w := l.cs
					w.File = base64.StdEncoding.EncodeToString(l.data)
					r.Violate("prefix", l.cs.Loader+"/"+kind+"/"+strings.SplitN(l.cs.Seed, ":", 2)[0], msg, w)
				}
			}
			r.AddEvals(int64(len(pending)))
			pending = pending[:0]
		}
		for ui := sh; ui < len(units); ui += nshards {
			u := units[ui]
			j := jobs[u.j]
			for _, term := range terminals {
				if (term == "data+eof" || term == "data+error") && u.cut == 0 {
					continue
				}
				for _, sc := range schedules {
					if len(j.seed.Bytes) > 8192 && sc == "1" && u.cut > 20000 {
						continue
					}
					cs := c07Case{Seed: j.seed.Name, Cut: u.cut, Terminal: term, Schedule: sc, Loader: u.load, ReadBuf: []int{1, 7, 32768}[rg.Intn(3)], RngSeed: rg.U64()}
					if cs.ReadBuf == 1 && u.cut > 20000 {
						cs.ReadBuf = 7
					}
					pending = append(pending, c07Load(j.seed.Bytes, cs))
					if ui%509 == 7 {
						// the caller lets go of the metadata, keeps the stream, and the collector runs before
						// the next loads: whatever the metadata object owned is not the stream's to lose
						pending[len(pending)-1].mdWasOK = pending[len(pending)-1].res.Err == nil && pending[len(pending)-1].res.MD != nil
						pending[len(pending)-1].mdDropped = true
						pending[len(pending)-1].res.MD = nil
						runtime.GC()
						runtime.Gosched()
						runtime.GC()
					}
					if len(pending) >= 1+rg.Intn(4) {
						flush()
					}
				}
			}
		}
		for ei := sh; ei < len(extras); ei += nshards {
			e := extras[ei]
			j := jobs[e.j]
			cs := c07Case{Seed: j.seed.Name, Cut: e.cut, Terminal: "eof", Schedule: core.Pick(rg, []string{"all", "1", "random"}), Loader: e.load, ReadBuf: []int{1, 7, 32768}[rg.Intn(3)], RngSeed: rg.U64()}
			if e.kind == "err" {
				cs.Terminal, cs.ErrKind = core.Pick(rg, []string{"error", "data+error"}), e.arg
				if e.cut == 0 {
					cs.Terminal = "error"
				}
			} else if e.kind == "sched" {
				cs.Schedule = e.arg
				if rg.Intn(3) == 0 {
					cs.Terminal = core.Pick(rg, []string{"error", "data+eof", "data+error"})
					if e.cut == 0 {
						cs.Terminal = "error"
					}
				}
			} else if e.kind == "drain" {
				cs.Drain = e.arg
			} else if e.kind == "bufio" {
				fmt.Sscanf(e.arg, "%d", &cs.Bufio)
			} else {
				cs.Seeker, cs.SeekPrefix, cs.Schedule = e.arg, 1+rg.Intn(40), "all"
			}
			pending = append(pending, c07Load(j.seed.Bytes, cs))
			if len(pending) >= 1+rg.Intn(4) {
				flush()
			}
		}
		if len(pending) > 0 {
			flush()
		}
		omu <- local
	})
	close(omu)
	for m := range omu {
		for k, v := range m {
			outcomes[k] += v
		}
	}
	// Nested use: the stream returned by one Load is partly read and then handed to another Load
	// (that is what chaining loaders by hand looks like); the second stream must replay exactly the
	// unread rest.
	{
		var nested []struct {
			j, k   int
			l1, l2 string
		}
		rg := core.NewRNG(r.Seed, "C07", "nested")
		for ji, j := range jobs {
			if len(j.seed.Bytes) == 0 || len(j.seed.Bytes) > 8192 {
				continue
			}
			for t := 0; t < 12; t++ {
				nested = append(nested, struct {
					j, k   int
					l1, l2 string
				}{ji, rg.Intn(len(j.seed.Bytes) + 1), core.Pick(rg, loaderNames), core.Pick(rg, loaderNames)})
			}
		}
		core.ParallelFor(len(nested), 16, func(i int) {
			n := nested[i]
			data := jobs[n.j].seed.Bytes
			first := loadWith(n.l1, src.New(data))
			r.AddEvals(1)
			if first.Panic != nil || first.Stream == nil {
				return // reported by the plain stage
			}
			head := make([]byte, n.k)
			got1, _ := io.ReadFull(first.Stream, head)
			second := loadWith(n.l2, first.Stream)
			cs := c07Case{Seed: jobs[n.j].seed.Name, Cut: len(data), Terminal: "eof", Schedule: "all", Loader: n.l1 + " then " + n.l2, ReadBuf: 4096, Deferred: -n.k - 1, File: base64.StdEncoding.EncodeToString(data)}
			if second.Panic != nil || second.Stream == nil {
				r.Violate("nested", "nested/panic-or-nil", fmt.Sprintf("%s.Load on the stream returned by %s.Load (after reading %d bytes of it): panic=%v nil-stream=%v", n.l2, n.l1, got1, second.Panic, second.Stream == nil), cs)
				return
			}
			rest, rerr, bounded := src.ReadAllChunks(second.Stream, 4096, int64(len(data))+1<<16)
			want := data[got1:]
			if !bounded || rerr != nil || !bytes.Equal(head[:got1], data[:got1]) || !bytes.Equal(rest, want) {
				r.Violate("nested", "nested/bytes", fmt.Sprintf("%s.Load, read %d bytes, %s.Load on the rest of that stream: the second stream yields %d bytes that %s (expected the %d unread bytes), err %v", n.l1, got1, n.l2, len(rest), firstDiff(rest, want), len(want), rerr), cs)
			}
		})
		r.Obs("nested_load_cases", len(nested))
	}
	// an input larger than any internal limit a loader might have (9 MiB), valid and unrecognisable
	{
		big := make([]byte, 9<<20+123)
		core.NewRNG(r.Seed, "C07", "big").Fill(big)
		for _, pre := range [][]byte{nil, jobs[0].seed.Bytes} {
			data := append(append([]byte{}, pre...), big...)
			for _, l := range loaderNames {
				cs := c07Case{Seed: "9MiB", Cut: len(data), Terminal: "eof", Schedule: "all", Loader: l, ReadBuf: 32768}
				kind, msg, _ := c07Readout(c07Load(data, cs))
				r.AddEvals(1)
				if kind != "" {
					r.Violate("prefix", l+"/"+kind+"/9MiB", msg, map[string]any{"note": "input = optional valid file + 9 MiB of seeded bytes (VERIF_SEED)", "prefix_seed": jobs[0].seed.Name, "loader": l})
				}
			}
		}
	}
	// a JPEG with 24 MiB of 0xFF fill bytes between SOI and the frame header (legal: any number of
	// fill bytes may precede a marker), and the same run without anything after it
	{
		run := bytes.Repeat([]byte{0xFF}, 24<<20)
		tailj := []byte{0xFF, 0xC0, 0, 11, 8, 0, 5, 0, 7, 1, 1, 0x11, 0, 0xFF, 0xDA, 0, 8, 1, 1, 0, 0, 63, 0, 1, 2, 0xFF, 0xD9}
		for vi, data := range [][]byte{append(append([]byte{0xFF, 0xD8}, run...), tailj...), append([]byte{0xFF, 0xD8}, run...)} {
			for _, l := range []string{"jpegmeta", "autometa"} {
				cs := c07Case{Seed: "24MiB-fill-bytes", Cut: len(data), Terminal: "eof", Schedule: "all", Loader: l, ReadBuf: 32768}
				kind, msg, _ := c07Readout(c07Load(data, cs))
				r.AddEvals(1)
				if kind != "" {
					r.Violate("prefix", l+"/"+kind+"/fill-bytes", msg, map[string]any{"note": "input = FF D8, 24 MiB of FF, then (variant 0) a frame header and scan", "variant": vi, "loader": l})
				}
			}
		}
	}
	// a 20 000-byte stream consumed through ReadByte (when offered) and Read in turn, from a source that is not a ByteReader
	{
		rg := core.NewRNG(r.Seed, "C07", "bytewise")
		body := rg.Bytes(20000)
		for _, pre := range [][]byte{[]byte("RIFF\x24\x4e\x00\x00WEBPVP8 "), {0x89, 'P', 'N', 'G'}, {0xFF, 0xD8, 0xFF}} {
			data := append(append([]byte{}, pre...), body...)
			for _, l := range loaderNames {
				cs := c07Case{Seed: "20000-bytes", Cut: len(data), Terminal: "eof", Schedule: "random", Loader: l, ReadBuf: 512, Drain: "bytes-then-read@4500", RngSeed: 7}
				kind, msg, _ := c07Readout(c07Load(data, cs))
				r.AddEvals(1)
				if kind != "" {
					r.Violate("prefix", l+"/"+kind+"/bytewise", msg, map[string]any{"note": "20000 seeded bytes behind a format signature, drained by ReadByte x 4500 / Read(512) in turn", "loader": l})
				}
			}
		}
	}
	// needed structures behind, or consisting of, several MiB (up to 17 MiB consumed before the
	// metadata is complete): complete, and cut inside the big structure
	{
		big := bigFiles(r.Seed)
		core.ParallelFor(len(big), 4, func(i int) {
			f := big[i]
			for _, l := range []string{loaderFor(f.Truth.Format), "autometa"} {
				for _, cut := range []int{len(f.Bytes), len(f.Bytes) / 2} {
					cs := c07Case{Seed: f.Name, Cut: cut, Terminal: []string{"eof", "error"}[(i+cut)%2], Schedule: "all", Loader: l, ReadBuf: 32768}
					kind, msg, _ := c07Readout(c07Load(f.Bytes, cs))
					r.AddEvals(1)
					if kind != "" {
						r.Violate("prefix", l+"/"+kind+"/big", msg, map[string]any{"note": "input = bigFiles(VERIF_SEED)[i] of harness/props/corpus.go", "i": i, "name": f.Name, "loader": l, "cut": cut})
					}
				}
			}
		})
		r.Obs("multi_megabyte_files", len(big))
	}
	if r.Variant == "" {
		for _, v := range []string{"markers@8", "markers@2", "markers@16"} {
			r.RunVariantChild(v, 5*time.Minute, false)
		}
		r.Obs("fresh_process_variants", []string{"markers@8", "markers@2", "markers@16", "bounded@2"})
		// the bounded child: no answer within three minutes (for 48 loads of files under 3 KiB) is a
		// loader that did not return
		{
			so, se, code, timedOut, err := core.RunSelfChild(3*time.Minute, []string{fmt.Sprintf("VERIF_SEED=%d", r.Seed), "VERIF_TIER=" + r.Tier, "GOMAXPROCS=2"}, r.Prop, "bounded@2")
			switch {
			case err != nil:
				r.Inconclusive(fmt.Sprintf("variant bounded@2: cannot run child: %v", err))
			case r.MergeChildOutput(so, "bounded@2", false):
			case timedOut:
				last := ""
				for _, line := range strings.Split(string(se), "\n") {
					if strings.HasPrefix(line, "bounded: ") {
						last = line[len("bounded: "):]
					}
				}
				r.Violate("prefix", "never-returned/bounded", fmt.Sprintf("a load had not returned after three minutes; the child was in: %s", last), c07Case{Seed: last, Terminal: "eof", Schedule: "all"})
			case bytes.Contains(se, []byte("panic:")) || bytes.Contains(se, []byte("fatal error:")):
				r.Violate("variant", "crash [bounded@2]", fmt.Sprintf("child process for variant bounded@2 died (exit %d):\n%s", code, truncate(string(se), 2500)), map[string]any{"variant": "bounded@2"})
			default:
				r.Inconclusive(fmt.Sprintf("variant bounded@2: child exit %d without result", code))
			}
		}
	}
	r.Obs("outcomes_terminal_x_metadata_success", outcomes)
	r.Obs("seed_files", len(jobs))
	r.Obs("load_units", len(units))
	r.Sample(c07Case{Seed: jobs[0].seed.Name, Cut: 57, Terminal: "data+error", Schedule: "random", Loader: "autometa", ReadBuf: 7})
	r.Sample(c07Case{Seed: jobs[len(jobs)-1].seed.Name, Cut: jobs[len(jobs)-1].cuts[len(jobs[len(jobs)-1].cuts)/2], Terminal: "error", Schedule: "1", Loader: "jpegmeta", ReadBuf: 32768})
}

// structuralBoundaries scans a real file for chunk / segment starts.
func structuralBoundaries(format string, b []byte) []int {
	var out []int
	switch format {
	case "PNG":
		out = append(out, 0, 8)
		for i := 8; i+8 <= len(b); {
			l := int(b[i])<<24 | int(b[i+1])<<16 | int(b[i+2])<<8 | int(b[i+3])
			out = append(out, i, i+4, i+8)
			i += 12 + l
			if l < 0 || i > len(b) {
				break
			}
			out = append(out, i-4)
		}
	case "JPEG":
		out = append(out, 0, 2)
		for i := 2; i+4 <= len(b) && b[i] == 0xFF; {
			l := int(b[i+2])<<8 | int(b[i+3])
			out = append(out, i, i+2, i+4)
			if b[i+1] == 0xDA {
				out = append(out, i+2+l)
				break
			}
			i += 2 + l
		}
	case "WebP":
		out = append(out, 0, 4, 8, 12)
		for i := 12; i+8 <= len(b); {
			l := int(b[i+4]) | int(b[i+5])<<8 | int(b[i+6])<<16 | int(b[i+7])<<24
			out = append(out, i, i+4, i+8)
			i += 8 + l + l%2
			if l < 0 {
				break
			}
		}
	}
	out = append(out, len(b))
	return out
}

// mutateBytes applies a few structure-aware mutations (see C09 for the full mutator).
func mutateBytes(rng *core.RNG, b []byte, fields []imggen.Field) []byte {
	m := append([]byte{}, b...)
	for k := 0; k < 1+rng.Intn(3); k++ {
		switch rng.Intn(4) {
		case 0:
			if len(fields) > 0 {
				f := fields[rng.Intn(len(fields))]
				for i := 0; i < f.Len && f.Off+i < len(m); i++ {
					m[f.Off+i] = byte(rng.Intn(256))
				}
			}
		case 1:
			if len(m) > 0 {
				m[rng.Intn(len(m))] ^= 1 << uint(rng.Intn(8))
			}
		case 2:
			if len(m) > 4 {
				i := rng.Intn(len(m) - 1)
				j := i + 1 + rng.Intn(len(m)-i-1)
				m = append(m[:i], m[j:]...)
			}
		case 3:
			if len(m) > 4 {
				i := rng.Intn(len(m) - 1)
				j := i + 1 + rng.Intn(min(64, len(m)-i-1))
				dup := append([]byte{}, m[i:j]...)
				m = append(m[:j], append(dup, m[j:]...)...)
			}
		}
	}
	return m
}

func replayC07(stage string, raw json.RawMessage) (bool, string, error) {
	var cs c07Case
	if err := json.Unmarshal(raw, &cs); err != nil {
		return false, "", err
	}
	data, err := base64.StdEncoding.DecodeString(cs.File)
	if err != nil {
		return false, "", err
	}
	if cs.Cut > len(data) {
		return false, "", fmt.Errorf("cut beyond input")
	}
	if cs.Deferred < 0 { // nested loads: "<l1> then <l2>", -Deferred-1 bytes read in between
		parts := strings.SplitN(cs.Loader, " then ", 2)
		if len(parts) != 2 {
			return false, "", fmt.Errorf("bad nested case")
		}
		k := -cs.Deferred - 1
		first := loadWith(parts[0], src.New(data))
		if first.Stream == nil {
			return true, "nil stream", nil
		}
		head := make([]byte, k)
		got1, _ := io.ReadFull(first.Stream, head)
		second := loadWith(parts[1], first.Stream)
		if second.Panic != nil || second.Stream == nil {
			return true, fmt.Sprintf("panic=%v nil-stream=%v", second.Panic, second.Stream == nil), nil
		}
		rest, rerr, _ := src.ReadAllChunks(second.Stream, 4096, int64(len(data))+1<<16)
		bad := rerr != nil || !bytes.Equal(rest, data[got1:])
		return bad, fmt.Sprintf("second stream yields %d bytes, expected %d", len(rest), len(data)-got1), nil
	}
	// reproduce deferred read-out: make the same load, then `Deferred` further loads, then read
	l := c07Load(data, cs)
	var others []c07Loaded
	for i := 0; i < cs.Deferred; i++ {
		o := cs
		o.RngSeed += uint64(i + 1)
		others = append(others, c07Load(data, o))
	}
	kind, msg, _ := c07Readout(l)
	for _, o := range others {
		if k2, m2, _ := c07Readout(o); kind == "" && k2 != "" {
			kind, msg = k2, m2
		}
	}
	return kind != "", msg, nil
}

var _ = io.EOF

func init() {
	core.Register(&core.Property{ID: "C07", Level: "fault_enumeration", Run: runC07, Replay: replayC07, Child: variantChild("C07", "fault_enumeration", runC07)})
}
