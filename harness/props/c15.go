//go:build all || c15

package props

import (
	"bufio"
	"bytes"
	"encoding/json"
	"fmt"
	"image"
	"image/color"
	"image/color/palette"
	"image/draw"
	"os"
	"reflect"
	"strings"
	"time"

	"github.com/mandykoh/prism"

	"verifharness/internal/core"
)

// C15 — image type conversion helpers equal draw.Draw(Src).

type c15Cell struct {
	Helper  string `json:"helper"` // ToNRGBA ToRGBA ToRGBA64
	Src     string `json:"src"`
	Sub     bool   `json:"src_is_subimage"`
	W       int    `json:"w"`
	H       int    `json:"h"`
	OX      int    `json:"origin_x"`
	OY      int    `json:"origin_y"`
	Par     int    `json:"parallelism"`
	Seed    uint64 `json:"content_seed"`
	Content int    `json:"content_mode,omitempty"`
	Band    bool   `json:"full_width_band,omitempty"`
	Odd     bool   `json:"odd_stride,omitempty"`    // hand-built source whose stride is not a multiple of its pixel size
	Corner  int    `json:"parent_corner,omitempty"` // 4: the source is the bottom-right corner of its parent, 5: the top-left corner
	Full    string `json:"full,omitempty"`          // thorough: "ycbcr24" = all 2^24 YCbCr triples, "nrgba16" = all (c,a) pairs
}

var c15SrcKinds = []string{"NRGBA", "RGBA", "NRGBA64", "RGBA64", "YCbCr444", "YCbCr422", "YCbCr420", "YCbCr440", "YCbCr411", "YCbCr410", "NYCbCrA", "Gray", "Gray16", "Alpha", "Alpha16", "CMYK", "Paletted", "Uniform", "opaque"}
var c15Helpers = []string{"ToNRGBA", "ToRGBA", "ToRGBA64"}
var c15Sizes = [][2]int{{0, 0}, {1, 1}, {1, 9}, {11, 1}, {7, 5}, {33, 17}}
var c15Origins = [][2]int{{0, 0}, {-3, -2}, {3, 2}, {6, 5}}

func c15HandWritten(helper, src string) bool {
	switch helper {
	case "ToNRGBA":
		return len(src) > 5 && src[:5] == "YCbCr"
	case "ToRGBA":
		return src == "RGBA64"
	case "ToRGBA64":
		return src == "NRGBA" || src == "RGBA" || (len(src) > 5 && src[:5] == "YCbCr")
	}
	return false
}

func c15Identity(helper, src string) bool {
	return helper == "To"+src
}

func c15Source(c c15Cell) image.Image {
	rng := core.NewRNG(int64(c.Seed), "C15cell")
	switch c.Full {
	case "ycbcr24":
		m := image.NewYCbCr(image.Rect(0, 0, 4096, 4096), image.YCbCrSubsampleRatio444)
		for i := 0; i < 1<<24; i++ {
			m.Y[i], m.Cb[i], m.Cr[i] = uint8(i), uint8(i>>8), uint8(i>>16)
		}
		return m
	case "nrgba16":
		m := image.NewNRGBA(image.Rect(0, 0, 256, 256))
		for i := 0; i < 1<<16; i++ {
			c0, a := uint8(i), uint8(i>>8)
			m.Pix[4*i], m.Pix[4*i+1], m.Pix[4*i+2], m.Pix[4*i+3] = c0, 255-c0, c0^0x55, a
		}
		return m
	case "rgba16":
		m := image.NewRGBA(image.Rect(0, 0, 256, 256))
		for i := 0; i < 1<<16; i++ {
			c0, a := uint8(i), uint8(i>>8)
			m.Pix[4*i], m.Pix[4*i+1], m.Pix[4*i+2], m.Pix[4*i+3] = c0, 255-c0, c0^0x55, a
		}
		return m
	}
	r := image.Rect(c.OX, c.OY, c.OX+c.W, c.OY+c.H)
	if c.Full == "neg" {
		// a 32 x 32 image centred on the origin, whole or a window of it
		pr := image.Rect(-16, -16, 16, 16)
		var img image.Image
		if c.Src == "NYCbCrA" {
			m := image.NewNYCbCrA(pr, image.YCbCrSubsampleRatio420)
			rng.Fill(m.Y)
			rng.Fill(m.Cb)
			rng.Fill(m.Cr)
			rng.Fill(m.A)
			img = m
		} else {
			m := image.NewYCbCr(pr, ycbcrRatios[c.Src])
			rng.Fill(m.Y)
			rng.Fill(m.Cb)
			rng.Fill(m.Cr)
			img = m
		}
		if c.Sub {
			return img.(subImager).SubImage(r)
		}
		return img
	}
	if c.Full == "far" {
		kind := c.Src
		if strings.HasPrefix(kind, "YCbCr") {
			// keep the chroma offset arithmetic of the standard library inside the planes: even origin
			r = image.Rect(c.OX&^1, c.OY&^1, c.OX&^1+c.W, c.OY&^1+c.H)
		}
		pr := r
		if c.Sub {
			pr = image.Rect(r.Min.X-2, r.Min.Y-2, r.Max.X+4, r.Max.Y+2)
		}
		var img image.Image
		if ratio, ok := ycbcrRatios[kind]; ok {
			m := image.NewYCbCr(pr, ratio)
			rng.Fill(m.Y)
			rng.Fill(m.Cb)
			rng.Fill(m.Cr)
			img = m
		} else {
			switch kind {
			case "Gray":
				m := image.NewGray(pr)
				rng.Fill(m.Pix)
				img = m
			case "Gray16":
				m := image.NewGray16(pr)
				rng.Fill(m.Pix)
				img = m
			case "Alpha":
				m := image.NewAlpha(pr)
				rng.Fill(m.Pix)
				img = m
			case "CMYK":
				m := image.NewCMYK(pr)
				rng.Fill(m.Pix)
				img = m
			case "Paletted":
				m := image.NewPaletted(pr, palette.Plan9)
				rng.Fill(m.Pix)
				img = m
			default:
				d := newConcrete(kind, pr)
				fillBytes(rng, pixOf(d))
				img = d
			}
		}
		if c.Sub {
			return img.(subImager).SubImage(r)
		}
		return img
	}
	if strings.HasPrefix(c.Full, "ratio:") {
		var n int
		fmt.Sscanf(c.Full, "ratio:%d", &n)
		pr := r
		if c.Sub {
			pr = image.Rect(r.Min.X-2, r.Min.Y-2, r.Max.X+4, r.Max.Y+2)
		}
		m := image.NewYCbCr(pr, image.YCbCrSubsampleRatio444)
		rng.Fill(m.Y)
		rng.Fill(m.Cb)
		rng.Fill(m.Cr)
		m.SubsampleRatio = image.YCbCrSubsampleRatio(n)
		if c.Sub {
			return m.SubImage(r)
		}
		return m
	}
	if strings.HasPrefix(c.Full, "nilpal:") {
		var n int
		fmt.Sscanf(c.Full, "nilpal:%d", &n)
		pal := make(color.Palette, n)
		used := n/2 + 1
		if used > n {
			used = n
		}
		for i := 0; i < used; i++ {
			v := rng.U64()
			pal[i] = color.NRGBA{R: uint8(v), G: uint8(v >> 8), B: uint8(v >> 16), A: uint8(v >> 24)}
		}
		pr := r
		if c.Sub {
			pr = image.Rect(r.Min.X-2, r.Min.Y-1, r.Max.X+3, r.Max.Y+2)
		}
		m := image.NewPaletted(pr, pal)
		for i := range m.Pix {
			m.Pix[i] = uint8(rng.Intn(used))
		}
		if c.Sub {
			return m.SubImage(r)
		}
		return m
	}
	if strings.HasPrefix(c.Full, "pal:") {
		var n int
		fmt.Sscanf(c.Full, "pal:%d", &n)
		pal := make(color.Palette, n)
		for i := range pal {
			v := rng.U64()
			pal[i] = color.NRGBA{R: uint8(v), G: uint8(v >> 8), B: uint8(v >> 16), A: uint8(v >> 24)}
			if i%3 == 0 {
				pal[i] = color.RGBA64{R: uint16(v) & uint16(v>>48), G: uint16(v>>16) & uint16(v>>48), B: uint16(v>>32) & uint16(v>>48), A: uint16(v >> 48)}
			}
		}
		pr := r
		if c.Sub {
			pr = image.Rect(r.Min.X-2, r.Min.Y-1, r.Max.X+3, r.Max.Y+2)
		}
		m := image.NewPaletted(pr, pal)
		for i := range m.Pix {
			m.Pix[i] = uint8(rng.Intn(256))
			if n < 256 {
				m.Pix[i] = uint8(rng.Intn(n))
			}
		}
		if c.Sub {
			return m.SubImage(r)
		}
		return m
	}
	mode := 0
	if c.Sub {
		mode = 1
	}
	if c.Band {
		mode = 2
	}
	if c.Odd {
		mode = 3
	}
	if c.Corner != 0 {
		mode = c.Corner
	}
	return newSourceMode(c.Src, r, mode, c.Content, rng)
}

// c15Run runs one cell; the cells at far coordinates under a generous bound (a 9 x 12 image takes
// microseconds: two minutes without a result is reported as a conversion that does not return).
func c15Run(c c15Cell) (bad bool, msg string) {
	if c.Full != "far" {
		return c15RunCell(c)
	}
	type res struct {
		bad bool
		msg string
	}
	ch := make(chan res, 1)
	go func() {
		b, m := c15RunCell(c)
		ch <- res{b, m}
	}()
	select {
	case x := <-ch:
		return x.bad, x.msg
	case <-time.After(2 * time.Minute):
		return true, fmt.Sprintf("cell %+v: the conversion of a 9 x 12 image had not returned after two minutes", c)
	}
}

func c15RunCell(c c15Cell) (bad bool, msg string) {
	defer func() {
		if p := recover(); p != nil {
			bad, msg = true, fmt.Sprintf("panic in cell %+v: %v", c, p)
		}
	}()
	src := c15Source(c)
	if c.Full == "neg" || c.Full == "far" || strings.HasPrefix(c.Full, "ratio:") || strings.HasPrefix(c.Full, "nilpal:") {
		// only where the standard library itself can read every pixel of the image
		if !func() (ok bool) {
			defer func() { _ = recover() }()
			bb := src.Bounds()
			for y := bb.Min.Y; y < bb.Max.Y; y++ {
				for x := bb.Min.X; x < bb.Max.X; x++ {
					_ = src.At(x, y)
				}
			}
			return true
		}() {
			return false, "the standard library cannot read this image"
		}
	}
	snap := snapshot(src)
	b := src.Bounds()
	var got image.Image
	var want draw.Image
	switch c.Helper {
	case "ToNRGBA":
		got = prism.ConvertImageToNRGBA(src, c.Par)
		want = image.NewNRGBA(b)
	case "ToRGBA":
		got = prism.ConvertImageToRGBA(src, c.Par)
		want = image.NewRGBA(b)
	case "ToRGBA64":
		got = prism.ConvertImageToRGBA64(src, c.Par)
		want = image.NewRGBA64(b)
	default:
		return false, "unknown helper"
	}
	if got == nil || isNilImage(got) {
		return true, fmt.Sprintf("cell %+v: helper returned nil", c)
	}
	if got.Bounds() != b {
		return true, fmt.Sprintf("cell %+v: result bounds %v, input bounds %v", c, got.Bounds(), b)
	}
	draw.Draw(want, b, snap, b.Min, draw.Src)
	if ok, p := imagesEqualAt(got, want, b); !ok {
		return true, fmt.Sprintf("cell %+v: pixel %v is %v, draw.Draw(Src) gives %v (input %v)", c, p, rgba64Of(got.At(p.X, p.Y)), rgba64Of(want.At(p.X, p.Y)), snap.At(p.X, p.Y))
	}
	// ... and in the target type's own representation (a non-premultiplied pixel with alpha 0
	// still carries colour bytes, which draw.Draw keeps or drops in a definite way)
	for y := b.Min.Y; y < b.Max.Y; y++ {
		for x := b.Min.X; x < b.Max.X; x++ {
			if g, w := fmt.Sprint(got.At(x, y)), fmt.Sprint(want.At(x, y)); g != w {
				return true, fmt.Sprintf("cell %+v: pixel (%d,%d) is stored as %s, draw.Draw(Src) stores %s (input %v)", c, x, y, g, w, snap.At(x, y))
			}
		}
	}
	if ok, p := imagesEqualAt(src, snap, b); !ok {
		return true, fmt.Sprintf("cell %+v: input pixel %v was modified", c, p)
	}
	if pm, ok := src.(*image.Paletted); ok {
		if sm, ok2 := snap.(*image.Paletted); ok2 && !reflect.DeepEqual(pm.Palette, sm.Palette) {
			return true, fmt.Sprintf("cell %+v: the input's palette was modified", c)
		}
	}
	// byte-wise too: a non-premultiplied pixel with alpha 0 can be rewritten without changing its colour value
	pa, pb := planesOf(src), planesOf(snap)
	for k := range pa {
		if k < len(pb) && !bytes.Equal(pa[k], pb[k]) {
			return true, fmt.Sprintf("cell %+v: the input's pixel buffer (plane %d) was modified", c, k)
		}
	}
	if c15Identity(c.Helper, c.Src) {
		same := false
		switch g := got.(type) {
		case *image.NRGBA:
			s, ok := src.(*image.NRGBA)
			same = ok && s == g
		case *image.RGBA:
			s, ok := src.(*image.RGBA)
			same = ok && s == g
		case *image.RGBA64:
			s, ok := src.(*image.RGBA64)
			same = ok && s == g
		}
		if !same {
			return true, fmt.Sprintf("cell %+v: input already of the target type was not returned as the same instance", c)
		}
	}
	return false, "ok"
}

func isNilImage(i image.Image) bool {
	switch g := i.(type) {
	case *image.NRGBA:
		return g == nil
	case *image.RGBA:
		return g == nil
	case *image.RGBA64:
		return g == nil
	}
	return false
}

func rgba64Of(c color.Color) color.RGBA64 {
	r, g, b, a := c.RGBA()
	return color.RGBA64{R: uint16(r), G: uint16(g), B: uint16(b), A: uint16(a)}
}

func c15Cells(seed int64, thorough, race bool) []c15Cell {
	rng := core.NewRNG(seed, "C15", "cells")
	var cells []c15Cell
	for _, h := range c15Helpers {
		for _, sk := range c15SrcKinds {
			isY := (len(sk) > 5 && sk[:5] == "YCbCr") || sk == "NYCbCrA"
			for _, sz := range c15Sizes {
				for _, o := range c15Origins {
					if isY && (o[0] < 0 || o[1] < 0) {
						o = [2]int{1, 4} // YCbCr only at non-negative coordinates (see imgkit.newSource)
					}
					for _, sub := range []bool{false, true} {
						if sub && (sk == "Uniform") {
							continue
						}
						for _, par := range []int{1, 2, 3, 7, 16, sz[1] + 5} {
							if race && (par == 1 || !c15HandWritten(h, sk) || sz[1] < 5) {
								continue
							}
							cells = append(cells, c15Cell{Helper: h, Src: sk, Sub: sub, W: sz[0], H: sz[1], OX: o[0], OY: o[1], Par: par, Seed: rng.U64()})
						}
					}
				}
			}
		}
	}
	// constant contents (all zero / all 0xFF planes), runs of equal pixels, full-width bands
	for _, h := range c15Helpers {
		for _, sk := range c15SrcKinds {
			if sk == "Uniform" {
				continue
			}
			for _, content := range []int{1, 2, 3} {
				for _, par := range []int{1, 2, 3, 7} {
					if race && (par == 1 || !c15HandWritten(h, sk)) {
						continue
					}
					cells = append(cells, c15Cell{Helper: h, Src: sk, Sub: content == 1, Band: content == 3, W: 9, H: 8, OX: 2, OY: 4, Par: par, Content: content, Seed: rng.U64()})
				}
			}
		}
	}
	// hand-built sources with an odd stride; sub-images that end in the parent's last row at x > 0;
	// images of more than 256 rows at parallelisms above 256; more than 65 536 pixels
	if !race {
		for _, h := range c15Helpers {
			for _, sk := range c15SrcKinds {
				if sk == "Uniform" {
					continue
				}
				cells = append(cells,
					c15Cell{Helper: h, Src: sk, Odd: true, W: 7, H: 6, OX: 1, OY: 2, Par: 1 + len(cells)%3, Seed: rng.U64()},
					c15Cell{Helper: h, Src: sk, Odd: true, W: 7, H: 6, OX: 1, OY: 2, Par: 2, Content: 3, Seed: rng.U64()},
					c15Cell{Helper: h, Src: sk, W: 5, H: 700, OX: 2, OY: 0, Par: []int{257, 300, 705, 1000}[len(cells)%4], Seed: rng.U64()},
					c15Cell{Helper: h, Src: sk, Sub: true, W: 300, H: 231, OX: 0, OY: 0, Par: 7, Seed: rng.U64()},
					c15Cell{Helper: h, Src: sk, Sub: true, Corner: 4, W: 3, H: 3, OX: 2, OY: 2, Par: 1 + len(cells)%3, Seed: rng.U64()},
					c15Cell{Helper: h, Src: sk, Sub: true, Corner: 5, W: 6, H: 4, OX: 0, OY: 0, Par: 2, Seed: rng.U64()},
					c15Cell{Helper: h, Src: sk, Sub: true, W: 4, H: 4, OX: 1, OY: 1, Par: 1 + len(cells)%2, Content: 5, Seed: rng.U64()},
					c15Cell{Helper: h, Src: sk, Sub: true, Corner: 4, W: 5, H: 3, OX: 1, OY: 0, Par: 3, Content: 5, Seed: rng.U64()},
					c15Cell{Helper: h, Src: sk, Sub: true, W: 4, H: 5, OX: 1, OY: 1, Par: 2, Content: 6, Seed: rng.U64()},
					c15Cell{Helper: h, Src: sk, Sub: true, Corner: 5, W: 6, H: 4, OX: 0, OY: 0, Par: 1, Content: 6, Seed: rng.U64()},
					c15Cell{Helper: h, Src: sk, W: 7, H: 3, OX: 0, OY: 0, Par: 3, Content: 6, Seed: rng.U64()})
			}
		}
	}
	// empty images with one non-zero dimension; every (rows, parallelism) pair up to 48 x 70 on
	// two-pixel-wide images; rows wider than 65 536 and 131 072 pixels (16-bit offsets wrap there)
	if !race {
		for hi, h := range c15Helpers {
			for si, sk := range c15SrcKinds {
				if sk == "Uniform" {
					continue
				}
				cells = append(cells,
					c15Cell{Helper: h, Src: sk, W: 0, H: 5, OX: 1, OY: 2, Par: 2 + si%3, Seed: rng.U64()},
					c15Cell{Helper: h, Src: sk, W: 5, H: 0, OX: 1, OY: 2, Par: 2 + si%3, Seed: rng.U64()},
					c15Cell{Helper: h, Src: sk, Sub: true, W: 0, H: 3, OX: 2, OY: 2, Par: 7, Seed: rng.U64()})
				if (si+hi)%3 == 0 || c15HandWritten(h, sk) {
					cells = append(cells, c15Cell{Helper: h, Src: sk, W: 70001, H: 2, OX: 0, OY: 0, Par: 2, Seed: rng.U64()})
				}
				if c15HandWritten(h, sk) && len(sk) > 5 && sk[:5] == "YCbCr" {
					cells = append(cells, c15Cell{Helper: h, Src: sk, W: 140003, H: 3, OX: 0, OY: 0, Par: 3, Seed: rng.U64()})
				}
			}
			for wi, w := range []int{63, 64, 65, 255, 256, 257, 511, 512, 513, 1024} {
				sk := []string{"NRGBA", "RGBA64", "RGBA", "YCbCr444", "NRGBA64", "Gray16"}[(wi+hi)%6]
				cells = append(cells, c15Cell{Helper: h, Src: sk, W: w, H: 3, OX: 0, OY: 1, Par: 1 + wi%3, Seed: rng.U64()})
			}
			for rows := 1; rows <= 48; rows++ {
				for par := 1; par <= 70; par++ {
					sk := []string{"NRGBA", "RGBA", "YCbCr420", "NRGBA64", "RGBA64", "Gray"}[(rows+par)%6]
					cells = append(cells, c15Cell{Helper: h, Src: sk, W: 2, H: rows, OX: 0, OY: 1, Par: par, Seed: uint64(rows*1000 + par)})
				}
			}
		}
	}
	// widths and heights at and around 4096, 8192 and 65536 (sizes at which an implementation might
	// cut its work into spans)
	if !race {
		for _, h := range c15Helpers {
			for k, sk := range []string{"RGBA64", "NRGBA", "RGBA", "NRGBA64", "YCbCr420", "Gray", "Paletted"} {
				for j, sz := range [][2]int{{4096, 2}, {8192, 1}, {4095, 2}, {4097, 1}, {12288, 1}, {65536, 1}, {2, 4096}, {1, 65537}} {
					if (k+j)%2 == 1 && sk != "RGBA64" {
						continue
					}
					cells = append(cells, c15Cell{Helper: h, Src: sk, Sub: (k+j)%3 == 0, W: sz[0], H: sz[1], OX: 0, OY: 2, Par: 1 + (k+j)%4, Seed: rng.U64()})
				}
			}
		}
	}
	// chroma-subsampled images that reach into negative coordinates (as a whole, with even origin, and
	// as interior windows at odd negative coordinates), and palettes of more than 256 entries (legal:
	// a pixel can only name the first 256)
	if !race {
		for _, h := range c15Helpers {
			for _, sk := range []string{"YCbCr444", "YCbCr422", "YCbCr420", "YCbCr440", "YCbCr411", "YCbCr410", "NYCbCrA"} {
				for k, win := range [][4]int{{-16, -16, 16, 16}, {-7, -5, 9, 11}, {-13, -11, -2, -3}, {-5, -9, 4, 1}, {-1, -1, 3, 3}, {-15, 2, -6, 14}} {
					cells = append(cells, c15Cell{Helper: h, Src: sk, Full: "neg", Sub: k > 0, OX: win[0], OY: win[1], W: win[2] - win[0], H: win[3] - win[1], Par: 1 + (k*3)%7, Seed: rng.U64()})
				}
			}
			// images far from the origin (coordinates beyond the 32-bit range), every concrete source kind
			for k, sk := range []string{"NRGBA", "RGBA", "NRGBA64", "RGBA64", "Gray", "Gray16", "Alpha", "CMYK", "Paletted", "YCbCr444", "YCbCr420"} {
				for j, org := range [][2]int{{0, -(1 << 32) - 2}, {(1 << 32) + 6, 4}, {-(1 << 31) - 8, (1 << 31) + 2}, {1 << 40, -(1 << 40)}} {
					cells = append(cells, c15Cell{Helper: h, Src: sk, Full: "far", Sub: (k+j)%2 == 1, OX: org[0], OY: org[1], W: 9, H: 12, Par: 1 + (k+2*j)%6, Seed: rng.U64()})
				}
			}
			// palettes with slots that were never filled in (nil) beyond the indices the pixels use, and
			// YCbCr images whose subsample ratio is none of the six defined ones (the standard library
			// reads those as 4:4:4)
			for k := 0; k < 4; k++ {
				cells = append(cells, c15Cell{Helper: h, Src: "Paletted", Full: fmt.Sprintf("nilpal:%d", []int{16, 200, 256, 3}[k]), Sub: k%2 == 1, OX: 2, OY: 1, W: 23, H: 14, Par: 1 + k, Seed: rng.U64()})
				cells = append(cells, c15Cell{Helper: h, Src: "YCbCr444", Full: fmt.Sprintf("ratio:%d", []int{6, -1, 7, 100}[k]), Sub: k%2 == 1, OX: 2, OY: 1, W: 23, H: 14, Par: 1 + k, Seed: rng.U64()})
			}
			for k, n := range []int{257, 258, 300, 512, 1000, 256, 255} {
				cells = append(cells, c15Cell{Helper: h, Src: "Paletted", Full: fmt.Sprintf("pal:%d", n), Sub: k%2 == 1, OX: 2, OY: 1, W: 23, H: 14, Par: 1 + k%5, Seed: rng.U64()})
			}
		}
	}
	if thorough && !race {
		for _, h := range c15Helpers {
			cells = append(cells,
				c15Cell{Helper: h, Src: "YCbCr444", Full: "ycbcr24", Par: 16},
				c15Cell{Helper: h, Src: "NRGBA", Full: "nrgba16", Par: 5},
				c15Cell{Helper: h, Src: "RGBA", Full: "rgba16", Par: 3})
			for _, sk := range c15SrcKinds {
				if sk == "Uniform" {
					continue
				}
				for k := 0; k < 8000; k++ {
					cells = append(cells, c15Cell{Helper: h, Src: sk, Sub: rng.Bool(), W: rng.Range(1, 70), H: rng.Range(1, 70), OX: rng.Range(0, 40), OY: rng.Range(0, 40), Par: rng.Range(1, 40), Seed: rng.U64()})
				}
			}
		}
	}
	return cells
}

func runC15(r *core.Run) {
	r.Rule = "3 helpers x 19 input kinds x 6 sizes x 4 origins x {whole image, sub-image with stride > width} x parallelism {1,2,3,7,16,rows+5}, seeded contents with extremes, each result compared per pixel with draw.Draw(Src); bounds, instance identity for the target type, input unchanged; hand-written paths repeated under the race detector; thorough adds all 2^24 YCbCr triples, all 8-bit (c,a) pairs and random geometries. non-trivial = distinct cells with non-zero origin or sub-image or a hand-written conversion path, and at least one pixel"
	r.Assumptions = []string{"image/draw is the reference"}
	cells := c15Cells(r.Seed, r.Thorough(), false)
	if strings.HasPrefix(r.Variant, "plain") {
		var sub []c15Cell
		for i, c := range cells {
			if c.Par > 1 && i%5 == 0 && c.W*c.H < 5000 {
				sub = append(sub, c)
			}
		}
		cells = sub
	}
	hw := int64(0)
	core.ParallelFor(len(cells), 16, func(i int) {
		c := cells[i]
		bad, msg := c15Run(c)
		r.AddEvals(1)
		if (c.OX != 0 || c.OY != 0 || c.Sub || c15HandWritten(c.Helper, c.Src)) && (c.W*c.H > 0 || c.Full != "") {
			r.NT(fmt.Sprintf("%s|%s|%v|%v|%d|%dx%d@%d,%d|%d|%s", c.Helper, c.Src, c.Sub, c.Band, c.Content, c.W, c.H, c.OX, c.OY, c.Par, c.Full))
		}
		if bad {
			r.Violate("cell", c.Helper+"<-"+c.Src, msg, c)
		}
	})
	for _, c := range cells {
		if c15HandWritten(c.Helper, c.Src) {
			hw++
		}
	}
	if strings.HasPrefix(r.Variant, "plain") {
		return
	}
	if r.Variant == "" {
		vs := []string{"plain@1", "plain@2"}
		for _, v := range vs {
			r.RunVariantChild(v, 10*time.Minute, false)
		}
		r.Obs("fresh_process_environments", vs)
	}
	// sequences on one Paletted image: convert, change palette entries in place (palette cycling),
	// convert again - each conversion must reflect the palette as it is at that moment
	{
		rg := core.NewRNG(r.Seed, "C15", "palette-cycling")
		for k := 0; k < 60; k++ {
			img := newSource("Paletted", image.Rect(1, 2, 9, 7), false, rg).(*image.Paletted)
			helper := c15Helpers[k%3]
			for step := 0; step < 3; step++ {
				var got image.Image
				var want draw.Image
				switch helper {
				case "ToNRGBA":
					got, want = prism.ConvertImageToNRGBA(img, 1+k%4), image.NewNRGBA(img.Rect)
				case "ToRGBA":
					got, want = prism.ConvertImageToRGBA(img, 1+k%4), image.NewRGBA(img.Rect)
				default:
					got, want = prism.ConvertImageToRGBA64(img, 1+k%4), image.NewRGBA64(img.Rect)
				}
				draw.Draw(want, img.Rect, img, img.Rect.Min, draw.Src)
				r.AddEvals(1)
				if ok, p := imagesEqualAt(got, want, img.Rect); !ok {
					r.Violate("sequence", helper+"<-Paletted/after-palette-edit", fmt.Sprintf("%s of a Paletted image, conversion #%d after its palette had been edited in place: pixel %v is %v, draw.Draw gives %v", helper, step+1, p, rgba64Of(got.At(p.X, p.Y)), rgba64Of(want.At(p.X, p.Y))), map[string]any{"helper": helper, "step": step, "sequence_seed": r.Seed, "k": k})
					break
				}
				// rotate the palette and overwrite an entry, in place
				first := img.Palette[0]
				copy(img.Palette, img.Palette[1:])
				img.Palette[len(img.Palette)-1] = first
				v := rg.U64()
				img.Palette[rg.Intn(len(img.Palette))] = color.NRGBA{R: uint8(v), G: uint8(v >> 8), B: uint8(v >> 16), A: uint8(v >> 24)}
			}
		}
	}
	r.Obs("cells", len(cells))
	r.Obs("cells_on_hand_written_paths", hw)
	r.Sample(cells[len(cells)/4])
	r.Sample(cells[len(cells)/2])
	work := core.WorkDir("C15")
	defer os.RemoveAll(work)
	tier := "quick"
	if r.Thorough() {
		tier = "thorough"
	}
	out, reports, _, timedOut, err := core.RunRaceChild(work, "c15", []string{fmt.Sprintf("VERIF_SEED=%d", r.Seed), "GOMAXPROCS=3"}, 20*time.Minute, "C15", tier)
	if timedOut {
		r.Inconclusive("race pass watchdog fired")
	} else if err != nil {
		r.Inconclusive("race pass: " + err.Error())
	}
	n := c15ParseChild(r, out)
	r.Obs("race_pass_cells", n)
	r.Obs("race_reports", len(reports))
	c10Races(r, reports, "C15")
}

func c15ParseChild(r *core.Run, out []byte) int64 {
	var n int64
	done := false
	for _, line := range splitLines(out) {
		switch {
		case len(line) > 6 && line[:6] == "CELLS ":
			fmt.Sscanf(line, "CELLS %d", &n)
			done = true
		case len(line) > 9 && line[:9] == "MISMATCH ":
			var v struct {
				Cell c15Cell
				Msg  string
			}
			if json.Unmarshal([]byte(line[9:]), &v) == nil {
				r.Violate("cell", v.Cell.Helper+"<-"+v.Cell.Src, v.Msg+" (under -race)", v.Cell)
			}
		}
	}
	if !done {
		r.Inconclusive("race pass child did not finish its matrix")
	}
	r.AddEvals(n)
	return n
}

func splitLines(b []byte) []string {
	var out []string
	start := 0
	for i, c := range b {
		if c == '\n' {
			out = append(out, string(b[start:i]))
			start = i + 1
		}
	}
	if start < len(b) {
		out = append(out, string(b[start:]))
	}
	return out
}

func childC15(args []string) int {
	if len(args) > 0 && strings.HasPrefix(args[0], "plain") {
		return variantChild("C15", "exploration", runC15)(args)
	}
	thorough := len(args) > 0 && args[0] == "thorough"
	cells := c15Cells(core.Seed(), thorough, true)
	w := bufio.NewWriter(os.Stdout)
	defer w.Flush()
	type res struct {
		c   c15Cell
		msg string
	}
	results := make(chan res, 64)
	go func() {
		core.ParallelFor(len(cells), 8, func(i int) {
			if bad, msg := c15Run(cells[i]); bad {
				results <- res{cells[i], msg}
			}
		})
		close(results)
	}()
	for x := range results {
		b, _ := json.Marshal(map[string]any{"Cell": x.c, "Msg": x.msg})
		fmt.Fprintf(w, "MISMATCH %s\n", b)
	}
	fmt.Fprintf(w, "CELLS %d\n", len(cells))
	return 0
}

func replayC15(stage string, raw json.RawMessage) (bool, string, error) {
	if stage == "race" {
		return false, "", fmt.Errorf("race reports are replayed by re-running the check (./check C15 quick)")
	}
	var c c15Cell
	if err := json.Unmarshal(raw, &c); err != nil {
		return false, "", err
	}
	bad, msg := c15Run(c)
	return bad, msg, nil
}

func init() {
	core.Register(&core.Property{ID: "C15", Level: "exploration", Run: runC15, Replay: replayC15, Child: childC15})
}
