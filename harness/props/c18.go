//go:build all || c18

package props

import (
	"bytes"
	"encoding/binary"
	"encoding/json"
	"fmt"
	"io"
	"strings"
	"sync"

	"verifharness/internal/core"
	"verifharness/internal/imggen"
	"verifharness/internal/src"
)

// C18 — metadata is read without consuming the image body.

type c18Case struct {
	Format    string `json:"format"`
	Variant   string `json:"variant"`   // bitstream / layout variant
	Placement string `json:"placement"` // none | after-header | after-ancillary | after-sof
	ICCSize   int    `json:"icc_size"`
	Payload   int64  `json:"payload_bytes"`
	Loader    string `json:"loader"`
	Schedule  string `json:"schedule"`
	Seed      uint64 `json:"content_seed"`
}

type c18File struct {
	head    []byte // materialised part (everything before the pixel payload)
	tailLen int64
	tailF   func(off int64) byte
	needEnd int
	truth   imggen.Truth
}

func c18Tail(format string) func(off int64) byte {
	// deterministic body bytes; never 0xFF so that no JPEG marker appears in it
	return func(off int64) byte { return byte((off*131)^(off>>7)) & 0x7F }
}

// c18Build makes the file for a case: a real head from the generators with the
// length fields patched to announce `Payload` more bytes, which are generated lazily.
func c18Build(cs c18Case) c18File {
	rng := core.NewRNG(int64(cs.Seed>>1), "c18")
	var icc []byte
	if cs.Placement != "none" {
		icc = profileBytes(rng, cs.ICCSize, 2)
	}
	bigAnc := 200 << 10
	f := c18File{tailLen: cs.Payload, tailF: c18Tail(cs.Format)}
	switch cs.Format {
	case "PNG":
		// every colour type; for indexed colour the PLTE (and tRNS) chunks follow whatever stands
		// between the profile and IDAT
		td := [][2]uint8{{6, 8}, {3, 8}, {2, 16}, {3, 2}, {0, 8}, {4, 8}}[int(cs.Seed>>9)%6]
		s := pngSpecFor(uint32(10+rng.Intn(5000)), uint32(10+rng.Intn(5000)), td[0], td[1], 0, rng)
		plte := s.Post
		s.Post = nil
		if icc != nil {
			// every zlib level: the two header bytes differ (78 01 / 78 5E / 78 9C / 78 DA) and so does the stream
			s.ICC = &imggen.PNGICC{Name: latin1(rng, []int{1, 4, 78, 79}[int(cs.Seed>>3)%4]), Profile: icc, Level: []int{1, -2, 0, 2, 5, 6, 9, -1}[int(cs.Seed>>5)%8]}
		}
		anc := []imggen.PNGChunk{}
		for n := 0; n < bigAnc; n += 50000 {
			anc = append(anc, imggen.PNGChunk{Type: "zTXt", Data: append([]byte("k\x00\x00"), rng.Bytes(50000)...)})
		}
		if strings.HasPrefix(cs.Variant, "align") && s.ICC != nil {
			// one text chunk sized so that the compressed profile ends exactly at the given file offset:
			// 8 signature + 25 IHDR + (12 + L) tEXt + 8 iCCP header + name + 2 + stream
			var target int
			fmt.Sscanf(cs.Variant, "align%d", &target)
			s.ICC.Name, s.ICC.Level = "al", 0
			stream := imggen.Deflate(icc, 0)
			s.ICC.RawStream = stream
			l := target - (8 + 25 + 12 + 8 + len(s.ICC.Name) + 2 + len(stream))
			if l < 2 {
				l = 2
			}
			anc = []imggen.PNGChunk{{Type: "tEXt", Data: append([]byte("k\x00"), rng.Bytes(l-2)...)}}
		}
		if cs.Variant == "emptychunks" { // ancillary chunks without data (length field 0), alone and between others
			anc = []imggen.PNGChunk{{Type: "prVt"}, {Type: "tEXt", Data: append([]byte("k\x00"), rng.Bytes(300)...)}, {Type: "emPt"}, {Type: "prVt"}, {Type: "tIME", Data: []byte{0x07, 0xe8, 2, 29, 12, 34, 56}}, {Type: "prVt"}}
		}
		if cs.Variant == "cicp-ancillary" {
			// a cICP chunk (coding-independent code points) in front of the profile - both may be present -
			// and the large ancillary chunks between the profile and IDAT
			s.Pre = []imggen.PNGChunk{{Type: "cICP", Data: []byte{1, 13, 0, 1}}}
			s.Post = append(s.Post, anc...)
		}
		if cs.Variant == "hugechunk" { // one chunk of 16 MiB + 5 bytes (a length that needs the fourth byte of the field), then a small one
			anc = []imggen.PNGChunk{{Type: "tEXt", Data: append([]byte("k\x00"), rng.Bytes(16<<20+3)...)}, {Type: "tIME", Data: []byte{0x07, 0xe8, 2, 29, 12, 34, 56}}}
		}
		if cs.Variant == "bigchunk" { // one chunk of 700 KiB, then a small one
			anc = []imggen.PNGChunk{{Type: "tEXt", Data: append([]byte("k\x00"), rng.Bytes(700<<10)...)}, {Type: "tIME", Data: []byte{0x07, 0xe8, 2, 29, 12, 34, 56}}}
		}
		switch cs.Placement {
		case "after-ancillary":
			s.Pre = anc
		case "none":
			if cs.Variant == "ancillary" || cs.Variant == "bigchunk" || cs.Variant == "hugechunk" || cs.Variant == "emptychunks" {
				s.Pre = anc
			}
		case "after-header":
			if cs.Variant == "ancillary" {
				s.Post = append(s.Post, anc...) // ancillary data between the profile and IDAT: not needed
			}
			if cs.Variant == "emptychunks" {
				s.Pre = anc[:1]
			}
		}
		s.Post = append(s.Post, plte...)
		s.IDAT = nil
		s.NoIEND = true
		b, t := s.Build()
		// b ends with: length(0) "IDAT" crc; patch the length, drop the crc: payload+crc+IEND come lazily
		head := b[:len(b)-4]
		binary.BigEndian.PutUint32(head[len(head)-8:], uint32(cs.Payload))
		f.head, f.truth, f.needEnd = head, t, t.NeedEnd
		f.tailLen = cs.Payload + 4 + 12
	case "JPEG":
		ncomp := []int{3, 3, 1, 4}[int(cs.Seed>>11)%4] // colour, grey and four-component (CMYK / YCCK) frames
		s := imggen.JPEGSpec{Progressive: strings.HasPrefix(cs.Variant, "progressive"), Precision: 8, W: 10 + rng.Intn(9000), H: 10 + rng.Intn(9000), Comps: imggen.StdComps(ncomp, 2, 2)}
		if ncomp != 3 {
			s.Comps = imggen.StdComps(ncomp, 1, 1)
		}
		if cs.Variant == "dnl" { // zero lines in the frame header: the height comes later in a DNL segment (T.81 B.2.5)
			s.H = 0
		}
		var segs []imggen.JPEGSeg
		if icc != nil {
			n := (len(icc) + 65518) / 65519
			if strings.HasSuffix(cs.Variant, "-255chunks") && len(icc) >= 255 {
				n = 255
			}
			if strings.Contains(cs.Variant, "-mpf") {
				// APP2 segments that are not ICC chunks (multi-picture format, FlashPix) ahead of the profile
				segs = append(segs, imggen.JPEGSeg{Marker: 0xE2, Payload: append([]byte("MPF\x00MM\x00\x2a\x00\x00\x00\x08\x00\x07"), rng.Bytes(40)...), Name: "APP2-MPF"},
					imggen.JPEGSeg{Marker: 0xE2, Payload: append([]byte("FPXR\x00\x00\x01\x00\x00\x00\x00\x00\x00\x63\x09"), rng.Bytes(20)...), Name: "APP2-FPXR"},
					imggen.JPEGSeg{Marker: 0xE2, Payload: []byte("MPF\x00"), Name: "APP2-stub"})
			}
			inter := strings.HasSuffix(cs.Variant, "-interleaved")
			if inter && n < 3 && len(icc) >= 3 {
				n = 3
			}
			for k, part := range imggen.SplitICC(icc, n) {
				if inter && k > 0 {
					// other segments between the chunks of the profile (they need not be adjacent)
					switch k % 3 {
					case 0:
						segs = append(segs, imggen.JPEGSeg{Marker: 0xFE, Payload: rng.Bytes(1 + rng.Intn(40)), Name: "COM"})
					case 1:
						segs = append(segs, imggen.JPEGSeg{Marker: 0xE1, Payload: append([]byte("Exif\x00\x00"), tiffExif(rng)...), Name: "APP1"})
					case 2:
						segs = append(segs, imggen.JPEGSeg{Marker: 0xE2, Payload: append([]byte("MPF\x00"), rng.Bytes(30)...), Name: "APP2-other"}, imggen.JPEGSeg{Marker: 0xED, Payload: []byte("Photoshop 3.0\x00"), Name: "APP13"})
					}
				}
				segs = append(segs, imggen.ICCChunkSeg(k+1, n, part))
			}
			s.ICC, s.ICCState = icc, "ok"
		}
		var anc []imggen.JPEGSeg
		for n := 0; n < bigAnc; n += 60000 {
			anc = append(anc, imggen.JPEGSeg{Marker: 0xE1, Payload: append([]byte("Exif\x00\x00"), rng.Bytes(60000)...), Name: "APP1big"})
		}
		lead := append([]imggen.JPEGSeg{{Marker: 0xE0, Payload: []byte("JFIF\x00\x01\x02\x00\x00\x01\x00\x01\x00\x00"), Name: "APP0"}}, imggen.RealTables()...)
		switch cs.Placement {
		case "none":
			s.Before = lead
			if cs.Variant == "ancillary" {
				s.Before = append(lead, anc...)
			}
		case "after-header":
			s.Before = append(lead[:1:1], append(segs, lead[1:]...)...)
			// large segments between SOF and SOS are not needed once SOF and the profile are known
			s.After = []imggen.JPEGSeg{{Marker: 0xFE, Payload: rng.Bytes(65533), Name: "COMbig"}, {Marker: 0xFE, Payload: rng.Bytes(65533), Name: "COMbig"}}
		case "after-ancillary":
			s.Before = append(append(lead, anc...), segs...)
		case "after-sof":
			s.Before = lead
			if len(segs) > 1 { // stored out of sequence: the set is complete before its highest-numbered chunk is the last to arrive
				segs = append(segs[1:len(segs):len(segs)], segs[0])
			}
			s.After = append([]imggen.JPEGSeg{{Marker: 0xFE, Payload: []byte("x"), Name: "COM"}}, segs...)
			s.After = append(s.After, imggen.JPEGSeg{Marker: 0xFE, Payload: rng.Bytes(65533), Name: "COMbig"}, imggen.JPEGSeg{Marker: 0xE1, Payload: rng.Bytes(65533), Name: "APP1big"})
		}
		s.NoEOI = true
		b, t := s.Build()
		f.head, f.truth, f.needEnd = b, t, t.NeedEnd
		f.tailLen = cs.Payload + 2
		tf := f.tailF
		total := int64(len(b)) + f.tailLen
		f.tailF = func(off int64) byte {
			if off == total-2 {
				return 0xFF
			}
			if off == total-1 {
				return 0xD9
			}
			return tf(off)
		}
	case "WebP":
		kind := cs.Variant
		s := imggen.WebPSpec{W: uint32(10 + rng.Intn(9000)), H: uint32(10 + rng.Intn(9000))}
		switch kind {
		case "VP8", "VP8L":
			s.Kind = kind
			b, t := s.Build()
			// patch chunk size and RIFF size to announce the payload
			hdr := 10
			if kind == "VP8L" {
				hdr = 5
			}
			binary.LittleEndian.PutUint32(b[16:], uint32(int64(hdr)+cs.Payload))
			binary.LittleEndian.PutUint32(b[4:], uint32(int64(len(b))-8+cs.Payload))
			f.head, f.truth, f.needEnd = b, t, t.NeedEnd
		default: // VP8X followed by <variant> bitstream chunk(s)
			s.Kind = "VP8X"
			s.Flags = uint8(rng.Intn(256))
			s.ICC = icc
			b, t := s.Build()
			var extra bytes.Buffer
			tag := "VP8 "
			switch kind {
			case "VP8X+VP8L":
				tag = "VP8L"
			case "VP8X+ALPH+VP8":
				extra.WriteString("ALPH")
				extra.Write([]byte{20, 0, 0, 0})
				extra.Write(rng.Bytes(20))
			case "VP8X+ANIM":
				extra.WriteString("ANIM")
				extra.Write([]byte{6, 0, 0, 0, 0, 0, 0, 0, 0, 0})
				tag = "ANMF"
			}
			extra.WriteString(tag)
			var sz [4]byte
			binary.LittleEndian.PutUint32(sz[:], uint32(cs.Payload))
			extra.Write(sz[:])
			b = append(b, extra.Bytes()...)
			binary.LittleEndian.PutUint32(b[4:], uint32(int64(len(b))-8+cs.Payload))
			f.head, f.truth, f.needEnd = b, t, t.NeedEnd
		}
	}
	return f
}

func (f c18File) source(schedule string, seed uint64) *src.Source {
	s := src.New(f.head)
	if f.tailLen > 0 {
		s.WithTail(f.tailLen, f.tailF)
	}
	rg := core.NewRNG(int64(seed>>1), "c18sched")
	switch schedule {
	case "all":
	case "4096":
		s.Sizes(4096)
	case "1":
		s.Sizes(1)
	case "random":
		s.Random(9000, rg.Intn)
	}
	return s
}

// seekableSource is a counting source that also implements io.Seeker (as *os.File and
// *bytes.Reader do); bytes pulled are counted wherever they are read from.
type seekableSource struct {
	all    []byte
	tailN  int64
	tailF  func(int64) byte
	pos    int64
	pulled int64
}

func (s *seekableSource) size() int64 { return int64(len(s.all)) + s.tailN }
func (s *seekableSource) Read(p []byte) (int, error) {
	if s.pos >= s.size() {
		return 0, io.EOF
	}
	n := int64(len(p))
	if n > s.size()-s.pos {
		n = s.size() - s.pos
	}
	for i := int64(0); i < n; i++ {
		o := s.pos + i
		if o < int64(len(s.all)) {
			p[i] = s.all[o]
		} else {
			p[i] = s.tailF(o)
		}
	}
	s.pos += n
	s.pulled += n
	return int(n), nil
}
func (s *seekableSource) Seek(off int64, whence int) (int64, error) {
	switch whence {
	case io.SeekStart:
		s.pos = off
	case io.SeekCurrent:
		s.pos += off
	case io.SeekEnd:
		s.pos = s.size() + off
	}
	if s.pos < 0 {
		s.pos = 0
	}
	return s.pos, nil
}

var c18HistoryOnce sync.Once
var c18History [][]byte

func c18HistoryFiles() [][]byte {
	c18HistoryOnce.Do(func() {
		plain, _ := imggen.JPEGSpec{Precision: 8, W: 31, H: 17, Comps: imggen.StdComps(3, 2, 2), Entropy: []byte{1, 2, 3}}.Build()
		prog, _ := imggen.JPEGSpec{Progressive: true, Precision: 8, W: 9, H: 8, Comps: imggen.StdComps(1, 1, 1), Before: []imggen.JPEGSeg{imggen.ICCChunkSeg(1, 1, bytes.Repeat([]byte("h"), 200))}, Entropy: []byte{1}}.Build()
		png, _ := imggen.PNGSpec{W: 7, H: 9, Depth: 8, ColorType: 2, IDAT: []byte{1}}.Build()
		vp8l, _ := imggen.WebPSpec{Kind: "VP8L", W: 12, H: 34, Payload: []byte{1, 2, 3, 4}}.Build()
		c18History = [][]byte{plain, png, vp8l, prog, plain}
	})
	return c18History
}

func c18Check(cs c18Case) (kind, msg string, over int64) {
	f := c18Build(cs)
	var res loadResult
	var pulled int64
	if cs.Seed&8 != 0 && f.needEnd > 40 && f.needEnd <= len(f.head) {
		// history: loads of the same file that break off part-way (inside the profile, inside a
		// header) happen first - whatever a loader keeps between calls must not remember them
		for _, cut := range []int{f.needEnd / 2, f.needEnd - 5, f.needEnd * 3 / 4} {
			_ = loadWith(cs.Loader, bytes.NewReader(f.head[:cut]))
			_ = loadWith(cs.Loader, src.New(f.head).FaultAt(int64(cut)))
		}
	}
	if cs.Seed&16 != 0 {
		// history: complete small files of the other formats go through every loader first (a JPEG
		// without a profile is read up to its start of scan, a profiled one up to its frame header ...)
		for _, other := range c18HistoryFiles() {
			for _, l := range loaderNames {
				_ = loadWith(l, bytes.NewReader(other))
			}
		}
	}
	if cs.Seed&32 != 0 && cs.Payload <= 1<<20 {
		// history: the very same file has been loaded completely before (what a loader remembers of a
		// file it has seen must not change how far it reads the next time)
		_ = loadWith(cs.Loader, f.source("all", cs.Seed))
	}
	if cs.Schedule == "bytes.Reader" || cs.Schedule == "bytes.Buffer" {
		// the whole file in memory, handed over as the standard in-memory readers (they have Len(),
		// Size(), WriteTo ...): what is pulled is what is gone from the reader afterwards
		all := make([]byte, 0, int64(len(f.head))+f.tailLen)
		all = append(all, f.head...)
		for off := int64(len(f.head)); off < int64(len(f.head))+f.tailLen; off++ {
			all = append(all, f.tailF(off))
		}
		if cs.Schedule == "bytes.Reader" {
			br := bytes.NewReader(all)
			res = loadWith(cs.Loader, br)
			pulled = int64(len(all) - br.Len())
		} else {
			bb := bytes.NewBuffer(all)
			res = loadWith(cs.Loader, bb)
			pulled = int64(len(all) - bb.Len())
		}
	} else if cs.Schedule == "seekable" {
		ss := &seekableSource{all: f.head, tailN: f.tailLen, tailF: f.tailF}
		res = loadWith(cs.Loader, ss)
		pulled = ss.pulled
	} else {
		s := f.source(cs.Schedule, cs.Seed)
		res = loadWith(cs.Loader, s)
		pulled = s.Pulled
	}
	if res.Panic != nil {
		return "panic", fmt.Sprintf("%+v: Load panicked: %v", cs, res.Panic), 0
	}
	whole := summarise(res)
	if !whole.OK {
		return "rejected", fmt.Sprintf("%+v: Load failed on a well-formed file: %s", cs, whole.ErrText), 0
	}
	t := f.truth
	if whole.W != t.W || whole.H != t.H || (t.ICCState == "ok" && (whole.ICCErr || !bytes.Equal(whole.icc, t.ICC))) || (t.ICCState == "none" && (whole.HasICC || whole.ICCErr)) {
		return "wrong-metadata", fmt.Sprintf("%+v: got %s, generator truth %dx%d icc %d bytes (%s)", cs, sumStr(whole), t.W, t.H, len(t.ICC), t.ICCState), 0
	}
	over = pulled - int64(f.needEnd)
	if over > 65536 {
		return "over-read", fmt.Sprintf("%+v: Load pulled %d bytes from the source; the last structure it needs ends at %d (%d bytes of read-ahead, limit 65536; file is %d bytes)", cs, pulled, f.needEnd, over, int64(len(f.head))+f.tailLen), over
	}
	// second clause: the file truncated just after that point loads identically
	if f.needEnd <= len(f.head) {
		for _, how := range []string{"bytes.Reader", "data+eof", "4096+data+eof", "random17"} {
			var rd io.Reader = bytes.NewReader(f.head[:f.needEnd])
			if how != "bytes.Reader" {
				rd = c08Source(f.head[:f.needEnd], how, cs.Seed)
			}
			cut := summarise(loadWith(cs.Loader, rd))
			if !cut.same(whole) {
				return "truncated-differs", fmt.Sprintf("%+v: whole file gives %s, file truncated after the last needed structure (%d bytes, delivered as %s) gives %s", cs, sumStr(whole), f.needEnd, how, sumStr(cut)), over
			}
		}
	}
	return "", "ok", over
}

func c18Cases(seed int64, thorough bool) []c18Case {
	rng := core.NewRNG(seed, "C18")
	payloads := []int64{0, 1, 4 << 10, 64 << 10, 1 << 20, 64 << 20}
	iccSizes := []int{500, 100 << 10, 3 << 20}
	scheds := []string{"all", "4096", "1", "random", "seekable", "bytes.Reader", "bytes.Buffer"}
	var out []c18Case
	add := func(format, variant, placement string, icc int) {
		for _, p := range payloads {
			for _, loader := range []string{loaderFor(format), "autometa"} {
				for _, sc := range scheds {
					if sc == "1" && icc > 200<<10 && !thorough && p != 1<<20 {
						continue
					}
					if (sc == "bytes.Reader" || sc == "bytes.Buffer") && p != 1<<20 && p != 64<<10 {
						continue // the in-memory readers take the 64 KiB and 1 MiB payloads
					}
					out = append(out, c18Case{format, variant, placement, icc, p, loader, sc, rng.U64()})
				}
			}
		}
	}
	for _, v := range []string{"plain", "ancillary"} {
		add("PNG", v, "none", 0)
		for _, n := range iccSizes {
			add("PNG", v, "after-header", n)
		}
	}
	for _, n := range iccSizes {
		add("PNG", "plain", "after-ancillary", n)
	}
	// compact profiles: the whole iCCP chunk (name, method, stream, CRC) is shorter than 80 bytes
	for _, n := range []int{1, 9, 40} {
		add("PNG", "plain", "after-header", n)
		add("JPEG", "baseline", "after-header", n)
		add("WebP", "VP8X+VP8", "after-header", n)
	}
	// the compressed profile ends within a few bytes of a multiple of the loaders' 4096-byte read-ahead
	for d := -7; d <= 6; d++ {
		for _, mult := range []int{1, 2} {
			for _, loader := range []string{"pngmeta", "autometa"} {
				for _, sc := range []string{"all", "4096", "seekable"} {
					out = append(out, c18Case{"PNG", fmt.Sprintf("align%+d", mult*4096+d), "after-ancillary", 700, 64 << 10, loader, sc, rng.U64()})
				}
			}
		}
	}
	for _, loader := range []string{"pngmeta", "autometa"} {
		for _, sc := range []string{"all", "4096", "seekable"} {
			out = append(out, c18Case{"PNG", "hugechunk", "none", 0, 1 << 20, loader, sc, rng.U64()}, c18Case{"PNG", "hugechunk", "after-ancillary", 500, 1 << 20, loader, sc, rng.U64()})
		}
	}
	add("PNG", "bigchunk", "none", 0)
	add("PNG", "bigchunk", "after-ancillary", 500)
	add("PNG", "bigchunk", "after-ancillary", 100<<10)
	add("PNG", "emptychunks", "none", 0)
	add("PNG", "emptychunks", "after-ancillary", 500)
	add("PNG", "emptychunks", "after-header", 500)
	for _, pl := range []string{"after-header", "after-ancillary", "after-sof"} {
		add("JPEG", "baseline-interleaved", pl, 900)
		add("JPEG", "progressive-interleaved", pl, 150<<10)
	}
	add("PNG", "cicp-ancillary", "after-header", 500)
	add("PNG", "cicp-ancillary", "after-header", 100<<10)
	for _, pl := range []string{"after-header", "after-ancillary", "after-sof"} {
		add("JPEG", "baseline-mpf", pl, 900)
		add("JPEG", "progressive-mpf-interleaved", pl, 150<<10)
	}
	add("JPEG", "dnl", "none", 0)
	add("JPEG", "dnl", "after-header", 500)
	for _, v := range []string{"baseline", "progressive"} {
		add("JPEG", v, "none", 0)
		add("JPEG", "ancillary", "none", 0)
		for _, n := range iccSizes {
			add("JPEG", v, "after-header", n)
			add("JPEG", v, "after-ancillary", n)
			add("JPEG", v, "after-sof", n)
		}
	}
	// profiles of more than 4 MiB (more than 64 APP2 chunks), and 255 small chunks
	addBig := func(format, variant, placement string, icc int) {
		for _, p := range []int64{0, 1 << 20} {
			for _, loader := range []string{loaderFor(format), "autometa"} {
				for _, sc := range []string{"all", "4096", "seekable"} {
					out = append(out, c18Case{format, variant, placement, icc, p, loader, sc, rng.U64()})
				}
			}
		}
	}
	addBig("PNG", "ancillary", "after-header", 5<<20)
	addBig("PNG", "plain", "after-ancillary", 4<<20+4097)
	addBig("JPEG", "baseline", "after-header", 5<<20)
	addBig("JPEG", "progressive", "after-sof", 4<<20+4097)
	addBig("JPEG", "baseline-255chunks", "after-header", 30000)
	addBig("JPEG", "baseline-255chunks", "after-sof", 255)
	addBig("JPEG", "baseline-255chunks", "after-ancillary", 100<<10)
	addBig("WebP", "VP8X+VP8", "after-header", 5<<20+1)
	for _, v := range []string{"VP8", "VP8L", "VP8X+VP8", "VP8X+VP8L", "VP8X+ALPH+VP8", "VP8X+ANIM"} {
		add("WebP", v, "none", 0)
	}
	for _, v := range []string{"VP8X+VP8", "VP8X+VP8L", "VP8X+ALPH+VP8"} {
		for _, n := range iccSizes {
			add("WebP", v, "after-header", n)
		}
		for _, n := range []int{501, 4097} { // odd sizes: pad byte follows
			add("WebP", v, "after-header", n)
		}
	}
	if thorough {
		// seeded variety of sizes
		for i := 0; i < 24000; i++ {
			format := []string{"PNG", "JPEG", "WebP"}[i%3]
			variant := map[string][]string{"PNG": {"plain", "ancillary"}, "JPEG": {"baseline", "progressive"}, "WebP": {"VP8", "VP8L", "VP8X+VP8", "VP8X+VP8L", "VP8X+ALPH+VP8"}}[format]
			v := core.Pick(rng, variant)
			place := core.Pick(rng, []string{"none", "after-header", "after-ancillary", "after-sof"})
			if format != "JPEG" && place == "after-sof" {
				place = "after-header"
			}
			if format == "WebP" && (place == "after-ancillary" || v == "VP8" || v == "VP8L") {
				place = "none"
			}
			if format == "WebP" && place != "none" && (v == "VP8" || v == "VP8L") {
				place = "none"
			}
			out = append(out, c18Case{format, v, place, 1 + rng.Intn(400000), int64(rng.Intn(8 << 20)), core.Pick(rng, []string{loaderFor(format), "autometa"}), core.Pick(rng, scheds), rng.U64()})
		}
	}
	return out
}

func runC18(r *core.Run) {
	r.Rule = "generated well-formed PNG / JPEG / WebP files whose pixel payload (0 B .. 64 MiB) is produced lazily by a counting source that fills any request; profile absent, directly after the header, after 200 KiB of ancillary data, or (JPEG) after SOF; profile sizes 500 B, 100 KiB, 3 MiB; large unneeded segments after the needed structures; specific and auto loader; schedules all-at-once / 4096 / 1 / random. Bytes pulled when Load returns must not exceed the end of the last needed structure + 65536, and the file truncated there must load identically. non-trivial = distinct (format, variant, placement, payload >= 1 MiB, loader, schedule)"
	r.Assumptions = []string{"needed structures: PNG IHDR (+ iCCP, else up to the IDAT chunk header); JPEG SOF and the last ICC chunk, else up to the SOS header; WebP the 30/25/30-byte header or the ICCP payload", "the lazily generated payload carries no valid chunk CRC; no loader can observe that without reading it"}
	cases := c18Cases(r.Seed, r.Thorough())
	maxOver := map[string]int64{}
	overs := make([]int64, len(cases))
	core.ParallelFor(len(cases), 12, func(i int) {
		cs := cases[i]
		kind, msg, over := c18Check(cs)
		overs[i] = over
		r.AddEvals(1)
		if cs.Payload >= 1<<20 {
			r.NT(fmt.Sprintf("%s|%s|%s|%s|%s", cs.Format, cs.Variant, cs.Placement, cs.Loader, cs.Schedule))
		}
		if kind != "" {
			r.Violate("file", cs.Format+"/"+cs.Loader+"/"+kind+"/"+cs.Variant+"/"+cs.Placement, msg, cs)
		}
	})
	for i, cs := range cases {
		k := cs.Format + "/" + cs.Loader
		if overs[i] > maxOver[k] {
			maxOver[k] = overs[i]
		}
	}
	r.Obs("max_bytes_pulled_beyond_needed_end", maxOver)
	r.Obs("cases", len(cases))
	r.Sample(cases[len(cases)/5])
	r.Sample(cases[len(cases)/2])
}

func replayC18(stage string, raw json.RawMessage) (bool, string, error) {
	var cs c18Case
	if err := json.Unmarshal(raw, &cs); err != nil {
		return false, "", err
	}
	k, m, _ := c18Check(cs)
	return k != "", m, nil
}

func init() {
	core.Register(&core.Property{ID: "C18", Level: "exploration", Run: runC18, Replay: replayC18})
}
