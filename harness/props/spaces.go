// Package props holds one driver + oracle per property (see DESIGN.md §3).
package props

import (
	"image"
	"image/color"
	"image/draw"

	"github.com/mandykoh/prism/adobergb"
	"github.com/mandykoh/prism/ciexyy"
	"github.com/mandykoh/prism/ciexyz"
	"github.com/mandykoh/prism/displayp3"
	"github.com/mandykoh/prism/linear"
	"github.com/mandykoh/prism/prophotorgb"
	"github.com/mandykoh/prism/srgb"

	"verifharness/internal/refcolor"
)

// libSpace gathers the public API of one RGB space package behind one shape so
// that drivers can iterate over the four spaces. Everything here is the
// library's public surface; nothing internal is touched.
type libSpace struct {
	Name string
	Ref  refcolor.Space

	// per-component codecs (nil for displayp3, which has none of its own)
	From8  func(uint8) float32
	From16 func(uint16) float32
	To8    func(float32) uint8
	To16   func(float32) uint16

	FromNRGBA   func(color.NRGBA) (linear.RGB, float32)
	FromRGBA    func(color.RGBA) (linear.RGB, float32)
	FromEncoded func(color.Color) (linear.RGB, float32)
	FromLinearC func(color.Color) (linear.RGB, float32)
	ToNRGBA     func(linear.RGB, float32) color.NRGBA
	ToRGBA      func(linear.RGB, float32) color.RGBA
	ToRGBA64    func(linear.RGB, float32) color.RGBA64
	ToXYZ       func(linear.RGB) ciexyz.Color
	FromXYZ     func(ciexyz.Color) linear.RGB

	Linearise      func(color.Color) color.RGBA64
	Encode         func(color.Color) color.RGBA64
	LineariseImage func(draw.Image, image.Image, int)
	EncodeImage    func(draw.Image, image.Image, int)

	PR, PG, PB, White func() ciexyy.Color
}

var libSpaces = []*libSpace{
	{
		Name: "srgb", Ref: refcolor.SRGB,
		From8: srgb.From8Bit, From16: srgb.From16Bit, To8: srgb.To8Bit, To16: srgb.To16Bit,
		FromNRGBA:   func(c color.NRGBA) (linear.RGB, float32) { x, a := srgb.ColorFromNRGBA(c); return x.RGB, a },
		FromRGBA:    func(c color.RGBA) (linear.RGB, float32) { x, a := srgb.ColorFromRGBA(c); return x.RGB, a },
		FromEncoded: func(c color.Color) (linear.RGB, float32) { x, a := srgb.ColorFromEncodedColor(c); return x.RGB, a },
		FromLinearC: func(c color.Color) (linear.RGB, float32) { x, a := srgb.ColorFromLinearColor(c); return x.RGB, a },
		ToNRGBA:     func(c linear.RGB, a float32) color.NRGBA { return srgb.Color{RGB: c}.ToNRGBA(a) },
		ToRGBA:      func(c linear.RGB, a float32) color.RGBA { return srgb.Color{RGB: c}.ToRGBA(a) },
		ToRGBA64:    func(c linear.RGB, a float32) color.RGBA64 { return srgb.Color{RGB: c}.ToRGBA64(a) },
		ToXYZ:       func(c linear.RGB) ciexyz.Color { return srgb.ColorFromLinear(c.R, c.G, c.B).ToXYZ() },
		FromXYZ:     func(c ciexyz.Color) linear.RGB { return srgb.ColorFromXYZ(c).RGB },
		Linearise:   srgb.LineariseColor, Encode: srgb.EncodeColor,
		LineariseImage: srgb.LineariseImage, EncodeImage: srgb.EncodeImage,
		PR: func() ciexyy.Color { return srgb.PrimaryRed }, PG: func() ciexyy.Color { return srgb.PrimaryGreen },
		PB: func() ciexyy.Color { return srgb.PrimaryBlue }, White: func() ciexyy.Color { return srgb.StandardWhitePoint },
	},
	{
		Name: "adobergb", Ref: refcolor.AdobeRGB,
		From8: adobergb.From8Bit, From16: adobergb.From16Bit, To8: adobergb.To8Bit, To16: adobergb.To16Bit,
		FromNRGBA:   func(c color.NRGBA) (linear.RGB, float32) { x, a := adobergb.ColorFromNRGBA(c); return x.RGB, a },
		FromRGBA:    func(c color.RGBA) (linear.RGB, float32) { x, a := adobergb.ColorFromRGBA(c); return x.RGB, a },
		FromEncoded: func(c color.Color) (linear.RGB, float32) { x, a := adobergb.ColorFromEncodedColor(c); return x.RGB, a },
		FromLinearC: func(c color.Color) (linear.RGB, float32) { x, a := adobergb.ColorFromLinearColor(c); return x.RGB, a },
		ToNRGBA:     func(c linear.RGB, a float32) color.NRGBA { return adobergb.Color{RGB: c}.ToNRGBA(a) },
		ToRGBA:      func(c linear.RGB, a float32) color.RGBA { return adobergb.Color{RGB: c}.ToRGBA(a) },
		ToRGBA64:    func(c linear.RGB, a float32) color.RGBA64 { return adobergb.Color{RGB: c}.ToRGBA64(a) },
		ToXYZ:       func(c linear.RGB) ciexyz.Color { return adobergb.ColorFromLinear(c.R, c.G, c.B).ToXYZ() },
		FromXYZ:     func(c ciexyz.Color) linear.RGB { return adobergb.ColorFromXYZ(c).RGB },
		Linearise:   adobergb.LineariseColor, Encode: adobergb.EncodeColor,
		LineariseImage: adobergb.LineariseImage, EncodeImage: adobergb.EncodeImage,
		PR: func() ciexyy.Color { return adobergb.PrimaryRed }, PG: func() ciexyy.Color { return adobergb.PrimaryGreen },
		PB: func() ciexyy.Color { return adobergb.PrimaryBlue }, White: func() ciexyy.Color { return adobergb.StandardWhitePoint },
	},
	{
		Name: "prophotorgb", Ref: refcolor.ProPhoto,
		From8: prophotorgb.From8Bit, From16: prophotorgb.From16Bit, To8: prophotorgb.To8Bit, To16: prophotorgb.To16Bit,
		FromNRGBA: func(c color.NRGBA) (linear.RGB, float32) { x, a := prophotorgb.ColorFromNRGBA(c); return x.RGB, a },
		FromRGBA:  func(c color.RGBA) (linear.RGB, float32) { x, a := prophotorgb.ColorFromRGBA(c); return x.RGB, a },
		FromEncoded: func(c color.Color) (linear.RGB, float32) {
			x, a := prophotorgb.ColorFromEncodedColor(c)
			return x.RGB, a
		},
		FromLinearC: func(c color.Color) (linear.RGB, float32) {
			x, a := prophotorgb.ColorFromLinearColor(c)
			return x.RGB, a
		},
		ToNRGBA:   func(c linear.RGB, a float32) color.NRGBA { return prophotorgb.Color{RGB: c}.ToNRGBA(a) },
		ToRGBA:    func(c linear.RGB, a float32) color.RGBA { return prophotorgb.Color{RGB: c}.ToRGBA(a) },
		ToRGBA64:  func(c linear.RGB, a float32) color.RGBA64 { return prophotorgb.Color{RGB: c}.ToRGBA64(a) },
		ToXYZ:     func(c linear.RGB) ciexyz.Color { return prophotorgb.ColorFromLinear(c.R, c.G, c.B).ToXYZ() },
		FromXYZ:   func(c ciexyz.Color) linear.RGB { return prophotorgb.ColorFromXYZ(c).RGB },
		Linearise: prophotorgb.LineariseColor, Encode: prophotorgb.EncodeColor,
		LineariseImage: prophotorgb.LineariseImage, EncodeImage: prophotorgb.EncodeImage,
		PR: func() ciexyy.Color { return prophotorgb.PrimaryRed }, PG: func() ciexyy.Color { return prophotorgb.PrimaryGreen },
		PB: func() ciexyy.Color { return prophotorgb.PrimaryBlue }, White: func() ciexyy.Color { return prophotorgb.StandardWhitePoint },
	},
	{
		Name: "displayp3", Ref: refcolor.DisplayP3,
		FromNRGBA:   func(c color.NRGBA) (linear.RGB, float32) { x, a := displayp3.ColorFromNRGBA(c); return x.RGB, a },
		FromRGBA:    func(c color.RGBA) (linear.RGB, float32) { x, a := displayp3.ColorFromRGBA(c); return x.RGB, a },
		FromEncoded: func(c color.Color) (linear.RGB, float32) { x, a := displayp3.ColorFromEncodedColor(c); return x.RGB, a },
		FromLinearC: func(c color.Color) (linear.RGB, float32) { x, a := displayp3.ColorFromLinearColor(c); return x.RGB, a },
		ToNRGBA:     func(c linear.RGB, a float32) color.NRGBA { return displayp3.Color{RGB: c}.ToNRGBA(a) },
		ToRGBA:      func(c linear.RGB, a float32) color.RGBA { return displayp3.Color{RGB: c}.ToRGBA(a) },
		ToRGBA64:    func(c linear.RGB, a float32) color.RGBA64 { return displayp3.Color{RGB: c}.ToRGBA64(a) },
		ToXYZ:       func(c linear.RGB) ciexyz.Color { return displayp3.ColorFromLinear(c.R, c.G, c.B).ToXYZ() },
		FromXYZ:     func(c ciexyz.Color) linear.RGB { return displayp3.ColorFromXYZ(c).RGB },
		Linearise:   displayp3.LineariseColor, Encode: displayp3.EncodeColor,
		LineariseImage: displayp3.LineariseImage, EncodeImage: displayp3.EncodeImage,
		PR: func() ciexyy.Color { return displayp3.PrimaryRed }, PG: func() ciexyy.Color { return displayp3.PrimaryGreen },
		PB: func() ciexyy.Color { return displayp3.PrimaryBlue }, White: func() ciexyy.Color { return displayp3.StandardWhitePoint },
	},
}

func spaceByName(n string) *libSpace {
	for _, s := range libSpaces {
		if s.Name == n {
			return s
		}
	}
	return nil
}
