package props

import (
	"image/color"
	"os"
	"runtime"
	"strings"
	"sync"
	"sync/atomic"

	"github.com/mandykoh/prism/linear"

	"verifharness/internal/core"
)

// Fresh-process variants. Lazily built tables and any other process-level
// state can only be exercised in their first-use order once per process, so
// properties whose behaviour could depend on that order re-run their quick
// workload in child processes that start with a different prelude:
//
//	decfirst   every decode entry point of every space is called before anything else
//	encfirst   every encode entry point of every space is called before anything else
//	rev        the spaces are visited in reverse order
//
// (combinable with '+', e.g. "encfirst+rev").
func applyVariant(variant string) {
	if i := strings.LastIndex(variant, "@"); i >= 0 {
		variant = variant[:i] // GOMAXPROCS is set through the environment by the parent
	}
	for _, v := range strings.Split(variant, "+") {
		switch v {
		case "rev":
			for i, j := 0, len(libSpaces)-1; i < j; i, j = i+1, j-1 {
				libSpaces[i], libSpaces[j] = libSpaces[j], libSpaces[i]
			}
		case "decfirst":
			for _, s := range libSpaces {
				if s.From16 != nil {
					_ = s.From16(12345)
					_ = s.From8(99)
				}
				_, _ = s.FromEncoded(color.RGBA64{R: 1, G: 2, B: 3, A: 65535})
				_, _ = s.FromNRGBA(color.NRGBA{R: 1, G: 2, B: 3, A: 255})
				_ = s.Linearise(color.NRGBA{R: 9, G: 8, B: 7, A: 200})
			}
		case "encfirst":
			for _, s := range libSpaces {
				if s.To16 != nil {
					_ = s.To16(0.25)
					_ = s.To8(0.25)
				}
				_ = s.ToRGBA64(linear.RGB{R: 0.1, G: 0.2, B: 0.3}, 1)
				_ = s.ToNRGBA(linear.RGB{R: 0.1, G: 0.2, B: 0.3}, 1)
				_ = s.Encode(color.RGBA64{R: 1, G: 2, B: 3, A: 65535})
			}
		}
	}
}

func init() { core.ApplyVariant = applyVariant }

// variantChild wraps a property's Run function as a child body.
func variantChild(prop, level string, run func(*core.Run)) func(args []string) int {
	return func(args []string) int {
		if len(args) < 1 {
			return 2
		}
		tier := os.Getenv("VERIF_TIER")
		if tier == "" {
			tier = "quick"
		}
		// a variant child always runs the quick workload: the variants explore
		// process state, the thorough tier explores inputs
		r := core.NewRun(prop, "quick", level)
		r.Variant = args[0]
		func() {
			defer func() {
				if p := recover(); p != nil {
					r.Violate("variant", "panic", "panic escaped in fresh-process variant: "+strings.TrimSpace(toString(p)), map[string]any{"variant": args[0]})
				}
			}()
			applyVariant(args[0])
			run(r)
		}()
		r.EmitChildResult()
		return 0
	}
}

func toString(p any) string {
	if e, ok := p.(error); ok {
		return e.Error()
	}
	if s, ok := p.(string); ok {
		return s
	}
	return "panic"
}

// firstUseBurst runs f(g) on n goroutines released together; with stagger the goroutines arrive a
// little after one another (so that some reach a lazily initialised facility while another
// goroutine is still initialising it, instead of all queueing on the same sync.Once).
func firstUseBurst(n int, stagger bool, f func(g int)) {
	var wg sync.WaitGroup
	start := make(chan struct{})
	for g := 0; g < n; g++ {
		wg.Add(1)
		go func(g int) {
			defer wg.Done()
			<-start
			if stagger {
				for spin := 0; spin < g*1500; spin++ {
					runtime.Gosched()
				}
			}
			f(g)
		}(g)
	}
	close(start)
	wg.Wait()
}

// burstVariants are the fresh-process children that exist only to put the very first use of the
// library's lazily built state under contention, many times, with different degrees of parallelism.
var burstVariants = []string{"burst@2", "burst+stagger@2", "burst@4", "burst+stagger@4", "burst@16", "burst+stagger@16", "burst+stagger@3", "burst@8"}

func isBurst(variant string) bool { return strings.HasPrefix(variant, "burst") }

// firstUsePhases runs f(g, phase) for phase = 0..phases-1 on n goroutines with a spin barrier in
// front of every phase, so that the n calls of a phase arrive almost simultaneously.
func firstUsePhases(n, phases int, f func(g, phase int)) {
	arrive := make([]atomic.Int32, phases)
	var wg sync.WaitGroup
	for g := 0; g < n; g++ {
		wg.Add(1)
		go func(g int) {
			defer wg.Done()
			for ph := 0; ph < phases; ph++ {
				arrive[ph].Add(1)
				for int(arrive[ph].Load()) < n {
					runtime.Gosched()
				}
				f(g, ph)
			}
		}(g)
	}
	wg.Wait()
}
