package props

import (
	"bytes"
	"image"
	"image/color"
	"io"
	"os"
	"runtime"
	"strings"
	"sync"
	"sync/atomic"

	"github.com/mandykoh/prism"
	"github.com/mandykoh/prism/ciexyy"
	"github.com/mandykoh/prism/ciexyz"
	"github.com/mandykoh/prism/linear"
	"github.com/mandykoh/prism/meta/icc"

	"verifharness/internal/core"
	"verifharness/internal/imggen"
)

// Fresh-process variants. Lazily built tables and any other process-level
// state can only be exercised in their first-use order once per process, so
// properties whose behaviour could depend on that order re-run their quick
// workload in child processes that start with a different prelude:
//
//	decfirst   every decode entry point of every space is called before anything else
//	encfirst   every encode entry point of every space is called before anything else
//	rev        the spaces are visited in reverse order (rot<k>: rotated by k)
//	genfirst   the generic primaries-to-matrix generator has been called with every space's primaries
//	           and other whites before any space converts anything
//	warm       every other facility of the library (both table widths of every space, colour
//	           constructors, image transforms, XYZ, adaptation, Lab, the loaders and
//	           the ICC reader) has been used before the property's own workload starts: state
//	           shared between facilities, or a table preferred "once it exists", shows here
//
// (combinable with '+', e.g. "encfirst+rev").
func applyVariant(variant string) {
	if i := strings.LastIndex(variant, "@"); i >= 0 {
		variant = variant[:i] // GOMAXPROCS is set through the environment by the parent
	}
	for _, v := range strings.Split(variant, "+") {
		switch v {
		case "rot1", "rot2", "rot3":
			k := int(v[3] - '0')
			libSpaces = append(libSpaces[k%len(libSpaces):], libSpaces[:k%len(libSpaces)]...)
		case "rev":
			for i, j := 0, len(libSpaces)-1; i < j; i, j = i+1, j-1 {
				libSpaces[i], libSpaces[j] = libSpaces[j], libSpaces[i]
			}
		case "decfirst":
			for _, s := range libSpaces {
				if s.From16 != nil {
					_ = s.From16(12345)
					_ = s.From8(99)
				}
				_, _ = s.FromEncoded(color.RGBA64{R: 1, G: 2, B: 3, A: 65535})
				_, _ = s.FromNRGBA(color.NRGBA{R: 1, G: 2, B: 3, A: 255})
				_ = s.Linearise(color.NRGBA{R: 9, G: 8, B: 7, A: 200})
			}
		case "warm":
			warmEverything()
		case "genfirst":
			// the generic matrix generator is used first, with every space's primaries but other whites
			// (last of all a white that is not the space's own): a result remembered by the primaries
			// alone would then be what a space derives its own matrices from
			for _, s := range libSpaces {
				other := ciexyy.D50
				if s.White() == ciexyy.D50 {
					other = ciexyy.D65
				}
				// another white first and another white last, the space's own in between: wrong for a
				// memo that keeps the first result for these primaries, and for one that keeps the last
				for _, w := range []ciexyy.Color{other, s.White(), {X: 1.0 / 3, Y: 1.0 / 3, YY: 1}} {
					_ = ciexyz.TransformToXYZForXYYPrimaries(s.PR(), s.PG(), s.PB(), w)
					_ = ciexyz.TransformFromXYZForXYYPrimaries(s.PR(), s.PG(), s.PB(), w)
				}
			}
		case "imgfirst":
			// the image transforms (with several workers) are the first thing the process asks of a space
			for _, s := range libSpaces {
				src := image.NewRGBA64(image.Rect(0, 0, 16, 16))
				for i := range src.Pix {
					src.Pix[i] = uint8(i*29 + 3)
				}
				for i := 6; i < len(src.Pix); i += 8 {
					src.Pix[i], src.Pix[i+1] = 0xff, 0xff
				}
				s.LineariseImage(image.NewNRGBA64(src.Rect), src, 4)
				s.EncodeImage(image.NewRGBA64(src.Rect), src, 4)
			}
		case "encfirst":
			for _, s := range libSpaces {
				if s.To16 != nil {
					_ = s.To16(0.25)
					_ = s.To8(0.25)
				}
				_ = s.ToRGBA64(linear.RGB{R: 0.1, G: 0.2, B: 0.3}, 1)
				_ = s.ToNRGBA(linear.RGB{R: 0.1, G: 0.2, B: 0.3}, 1)
				_ = s.Encode(color.RGBA64{R: 1, G: 2, B: 3, A: 65535})
			}
		}
	}
}

// warmEverything uses every public facility once, results discarded.
func warmEverything() {
	defer func() { _ = recover() }() // a panic here is some other property's finding, not this prelude's
	xs := []float32{0, 1, 0.5, 0.003, 0.75, 2, -1}
	img := image.NewNRGBA64(image.Rect(0, 0, 5, 4))
	for i := range img.Pix {
		img.Pix[i] = uint8(i*37 + 11)
	}
	for _, s := range libSpaces {
		for _, x := range xs {
			if s.To16 != nil {
				_, _ = s.To16(x), s.To8(x)
			}
			_ = s.ToRGBA64(linear.RGB{R: x, G: 1 - x, B: x / 2}, 1)
			_ = s.ToNRGBA(linear.RGB{R: x, G: 1 - x, B: x / 2}, 0.5)
			_ = s.ToRGBA(linear.RGB{R: x, G: 1 - x, B: x / 2}, 0.25)
			xyz := s.ToXYZ(linear.RGB{R: x, G: 0.5, B: 1 - x})
			_ = s.FromXYZ(xyz)
			lab := xyz.ToLAB(ciexyz.D50)
			_ = ciexyz.ColorFromLAB(lab, ciexyz.D65)
		}
		for _, c := range []uint16{0, 65535, 32768, 32767, 1, 257, 65534} {
			if s.From16 != nil {
				_, _ = s.From16(c), s.From8(uint8(c>>8))
			}
			_, _ = s.FromEncoded(color.RGBA64{R: c, G: c / 2, B: c / 3, A: 65535})
			_, _ = s.FromEncoded(color.NRGBA64{R: c, G: c / 2, B: c / 3, A: 40000})
			_, _ = s.FromLinearC(color.NRGBA64{R: c, G: c / 2, B: c / 3, A: 40000})
			_, _ = s.FromNRGBA(color.NRGBA{R: uint8(c), G: uint8(c >> 8), B: 3, A: 200})
			_, _ = s.FromRGBA(color.RGBA{R: uint8(c >> 9), G: uint8(c >> 10), B: 3, A: 200})
			_ = s.Linearise(color.NRGBA64{R: c, G: c, B: 7, A: 65535})
			_ = s.Encode(color.NRGBA64{R: c, G: c, B: 7, A: 65535})
		}
		for _, par := range []int{1, 3} {
			s.LineariseImage(image.NewRGBA64(img.Rect), img, par)
			s.EncodeImage(image.NewNRGBA(img.Rect), img, par)
			s.EncodeImage(image.NewRGBA64(img.Rect), img, par)
		}
		_ = ciexyz.TransformFromXYZForXYYPrimaries(s.PR(), s.PG(), s.PB(), s.White())
		_ = ciexyz.TransformToXYZForXYYPrimaries(s.PR(), s.PG(), s.PB(), s.White())
	}
	for _, w := range [][2]ciexyz.Color{{ciexyz.D50, ciexyz.D65}, {ciexyz.D65, ciexyz.D50}, {ciexyz.D65, {X: 1.09, Y: 1, Z: 0.35}}} {
		ad := ciexyz.AdaptBetweenXYZWhitePoints(w[0], w[1])
		_ = ad.Apply(ciexyz.Color{X: 0.3, Y: 0.4, Z: 0.5})
	}
	_ = ciexyz.AdaptBetweenXYYWhitePoints(ciexyy.D50, ciexyy.D65).Apply(ciexyz.D50)
	_ = prism.ConvertImageToNRGBA(img, 2)
	_ = prism.ConvertImageToRGBA(img, 2)
	_ = prism.ConvertImageToRGBA64(img, 2)
	// the loaders and the profile reader, on one small well-formed file of each format
	rg := core.NewRNG(7, "warm")
	prof := structuredProfile(rg, 2)
	pb, _ := imggen.PNGSpec{W: 3, H: 2, Depth: 8, ColorType: 2, ICC: &imggen.PNGICC{Name: "w", Profile: prof, Level: 6}, IDAT: []byte{1}}.Build()
	var segs []imggen.JPEGSeg
	for i, part := range imggen.SplitICC(prof, 2) {
		segs = append(segs, imggen.ICCChunkSeg(i+1, 2, part))
	}
	jb, _ := imggen.JPEGSpec{Precision: 8, W: 3, H: 2, Comps: imggen.StdComps(1, 1, 1), Before: segs}.Build()
	wb, _ := imggen.WebPSpec{Kind: "VP8X", W: 3, H: 2, ICC: prof, Payload: []byte{1, 2}}.Build()
	for _, b := range [][]byte{pb, jb, wb} {
		for _, l := range []string{"auto", "png", "jpeg", "webp"} {
			res := loadWith(l, bytes.NewReader(b))
			if res.MD != nil {
				if p, err := res.MD.ICCProfile(); err == nil && p != nil {
					_, _ = p.Description()
				}
			}
			if res.Stream != nil {
				_, _ = io.Copy(io.Discard, res.Stream)
			}
		}
	}
	if p, err := icc.NewProfileReader(bytes.NewReader(prof)).ReadProfile(); err == nil {
		_, _ = p.Description()
	}
}

func init() { core.ApplyVariant = applyVariant }

// variantChild wraps a property's Run function as a child body.
func variantChild(prop, level string, run func(*core.Run)) func(args []string) int {
	return func(args []string) int {
		if len(args) < 1 {
			return 2
		}
		tier := os.Getenv("VERIF_TIER")
		if tier == "" {
			tier = "quick"
		}
		// a variant child always runs the quick workload: the variants explore
		// process state, the thorough tier explores inputs
		r := core.NewRun(prop, "quick", level)
		r.Variant = args[0]
		func() {
			defer func() {
				if p := recover(); p != nil {
					r.Violate("variant", "panic", "panic escaped in fresh-process variant: "+strings.TrimSpace(toString(p)), map[string]any{"variant": args[0]})
				}
			}()
			applyVariant(args[0])
			run(r)
		}()
		r.EmitChildResult()
		return 0
	}
}

func toString(p any) string {
	if e, ok := p.(error); ok {
		return e.Error()
	}
	if s, ok := p.(string); ok {
		return s
	}
	return "panic"
}

// firstUseBurst runs f(g) on n goroutines released together; with stagger the goroutines arrive a
// little after one another (so that some reach a lazily initialised facility while another
// goroutine is still initialising it, instead of all queueing on the same sync.Once).
func firstUseBurst(n int, stagger bool, f func(g int)) {
	var wg sync.WaitGroup
	start := make(chan struct{})
	for g := 0; g < n; g++ {
		wg.Add(1)
		go func(g int) {
			defer wg.Done()
			<-start
			if stagger {
				for spin := 0; spin < g*1500; spin++ {
					runtime.Gosched()
				}
			}
			f(g)
		}(g)
	}
	close(start)
	wg.Wait()
}

// burstVariants are the fresh-process children that exist only to put the very first use of the
// library's lazily built state under contention, many times, with different degrees of parallelism.
var burstVariants = []string{"burst@2", "burst+stagger@2", "burst@4", "burst+stagger@4", "burst@16", "burst+stagger@16", "burst+stagger@3", "burst@8", "burst+fine5@8", "burst+fine40@16", "burst+fine200@4", "burst+fine15@16"}

// firstUseAuto releases n goroutines into f in the way the variant asks for: nanosecond-spaced
// arrivals ("fine<k>"), microsecond-spaced ("stagger", also the plain run), or all at once.
func firstUseAuto(variant string, n int, f func(g int)) {
	switch {
	case fineStep(variant) > 0:
		firstUseFine(n, fineStep(variant), f)
	case strings.Contains(variant, "stagger") || variant == "":
		firstUseBurst(n, true, f)
	default:
		firstUsePhases(n, 1, func(g, ph int) { f(g) })
	}
}

func isBurst(variant string) bool { return strings.HasPrefix(variant, "burst") }

// firstUsePhases runs f(g, phase) for phase = 0..phases-1 on n goroutines with a spin barrier in
// front of every phase, so that the n calls of a phase arrive almost simultaneously.
func firstUsePhases(n, phases int, f func(g, phase int)) {
	arrive := make([]atomic.Int32, phases)
	var wg sync.WaitGroup
	for g := 0; g < n; g++ {
		wg.Add(1)
		go func(g int) {
			defer wg.Done()
			for ph := 0; ph < phases; ph++ {
				arrive[ph].Add(1)
				for int(arrive[ph].Load()) < n {
					runtime.Gosched()
				}
				f(g, ph)
			}
		}(g)
	}
	wg.Wait()
}

var fineSink atomic.Int64

// firstUseFine releases n goroutines from a spin barrier and delays goroutine g by g*step
// iterations of an empty loop (about a nanosecond each) before it calls f: arrivals spread over
// tens to hundreds of nanoseconds, the time a first caller spends inside a lazy initialiser.
func firstUseFine(n, step int, f func(g int)) {
	var arrive atomic.Int32
	var wg sync.WaitGroup
	yield := runtime.GOMAXPROCS(0) < n
	for g := 0; g < n; g++ {
		wg.Add(1)
		go func(g int) {
			defer wg.Done()
			arrive.Add(1)
			for int(arrive.Load()) < n {
				if yield {
					runtime.Gosched()
				}
			}
			x := 0
			for i := 0; i < g*step; i++ {
				x += i ^ g
			}
			fineSink.Add(int64(x & 1))
			f(g)
		}(g)
	}
	wg.Wait()
}

// fineStep extracts k from a "...+fine<k>..." variant (0 when absent).
func fineStep(variant string) int {
	i := strings.Index(variant, "fine")
	if i < 0 {
		return 0
	}
	k := 0
	for _, c := range variant[i+4:] {
		if c < '0' || c > '9' {
			break
		}
		k = k*10 + int(c-'0')
	}
	return k
}
