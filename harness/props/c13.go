//go:build all || c13

package props

import (
	"encoding/json"
	"fmt"
	"math"
	"sort"
	"strings"
	"sync/atomic"
	"time"

	"github.com/mandykoh/prism/cielab"
	"github.com/mandykoh/prism/ciexyz"

	"verifharness/internal/core"
	"verifharness/internal/refcolor"
)

// C13 — CIE Lab matches the definition and round-trips.

type c13Case struct {
	Kind  string     `json:"kind"`
	White [3]float32 `json:"white"`
	In    [3]float32 `json:"in"`
	In2   [3]float32 `json:"in2,omitempty"`
}

func c13ToLab(c, w [3]float32) (lab cielab.Color, pan any) {
	defer func() {
		if p := recover(); p != nil {
			pan = p
		}
	}()
	return ciexyz.Color{X: c[0], Y: c[1], Z: c[2]}.ToLAB(ciexyz.Color{X: w[0], Y: w[1], Z: w[2]}), nil
}

func c13FromLab(l, w [3]float32) (c ciexyz.Color, pan any) {
	defer func() {
		if p := recover(); p != nil {
			pan = p
		}
	}()
	return ciexyz.ColorFromLAB(cielab.Color{L: l[0], A: l[1], B: l[2]}, ciexyz.Color{X: w[0], Y: w[1], Z: w[2]}), nil
}

func v64(a [3]float32) refcolor.Vec { return refcolor.Vec{float64(a[0]), float64(a[1]), float64(a[2])} }

// c13XYZ: forward accuracy, finiteness, round trip for one XYZ input.
func c13XYZ(in, w [3]float32) (kind, msg string, e1, e2 float64) {
	lab, pan := c13ToLab(in, w)
	if pan != nil {
		return "panic", fmt.Sprintf("ToLAB(%v, white %v) panicked: %v", in, w, pan), 0, 0
	}
	if !finite3(lab.L, lab.A, lab.B) {
		return "nonfinite", fmt.Sprintf("ToLAB(%v, white %v) = %v", in, w, lab), 0, 0
	}
	ref := refcolor.XYZToLab(v64(in), v64(w))
	got := [3]float64{float64(lab.L), float64(lab.A), float64(lab.B)}
	for i := 0; i < 3; i++ {
		d := math.Abs(got[i] - ref[i])
		if d > e1 {
			e1 = d
		}
		if !(d <= 1e-3) {
			return "forward", fmt.Sprintf("ToLAB(%v, white %v) = %v, CIE 1976 definition gives %v", in, w, lab, ref), e1, 0
		}
	}
	back, pan := c13FromLab([3]float32{lab.L, lab.A, lab.B}, w)
	if pan != nil {
		return "panic", fmt.Sprintf("ColorFromLAB(%v, white %v) panicked: %v", lab, w, pan), e1, 0
	}
	if !finite3(back.X, back.Y, back.Z) {
		return "nonfinite", fmt.Sprintf("ColorFromLAB(%v, white %v) = %v", lab, w, back), e1, 0
	}
	bk := [3]float32{back.X, back.Y, back.Z}
	for i := 0; i < 3; i++ {
		d := math.Abs(float64(bk[i]) - float64(in[i]))
		// "within 1e-5 at unit scale": the unit is the white. For whites of ordinary size that is 1;
		// for whites on another scale (Y = 100, 65535, 1e-6 ...) it is the white's own component.
		unit := 1.0
		if w[1] > 4 || w[1] < 0.2 {
			unit = math.Abs(float64(w[i]))
		}
		s := math.Max(unit, math.Abs(float64(in[i])))
		if d/s > e2 {
			e2 = d / s
		}
		if !(d <= 1e-5*s) {
			return "roundtrip", fmt.Sprintf("XYZ %v -> Lab %v -> XYZ %v with white %v (error %.3g)", in, lab, back, w, d), e1, e2
		}
	}
	return "", "ok", e1, e2
}

// c13Lab: ColorFromLAB against the definition for one Lab input.
func c13Lab(in, w [3]float32) (kind, msg string, e float64) {
	c, pan := c13FromLab(in, w)
	if pan != nil {
		return "panic", fmt.Sprintf("ColorFromLAB(%v, white %v) panicked: %v", in, w, pan), 0
	}
	if !finite3(c.X, c.Y, c.Z) {
		return "nonfinite", fmt.Sprintf("ColorFromLAB(%v, white %v) = %v", in, w, c), 0
	}
	ref := refcolor.LabToXYZ(v64(in), v64(w))
	got := [3]float64{float64(c.X), float64(c.Y), float64(c.Z)}
	for i := 0; i < 3; i++ {
		d := math.Abs(got[i] - ref[i])
		s := math.Max(1, math.Abs(ref[i]))
		if d/s > e {
			e = d / s
		}
		if !(d <= 1e-5*s) {
			return "inverse", fmt.Sprintf("ColorFromLAB(%v, white %v) = %v, definition gives %v", in, w, c, ref), e
		}
	}
	return "", "ok", e
}

var c13D50 = [3]float32{0.9642, 1.0, 0.8251}
var c13D65 = [3]float32{0.95047, 1.0, 1.08883}

func c13Whites(r *core.Run, n int) [][3]float32 {
	ws := [][3]float32{c13D50, c13D65}
	// the library's own constants as well, read at run time
	ws = append(ws, [3]float32{ciexyz.D50.X, ciexyz.D50.Y, ciexyz.D50.Z}, [3]float32{ciexyz.D65.X, ciexyz.D65.Y, ciexyz.D65.Z})
	rng := core.NewRNG(r.Seed, "C13", "whites")
	for i := 0; i < n; i++ {
		ws = append(ws, [3]float32{float32(rng.Uniform(0.25, 2)), float32(rng.Uniform(0.25, 2)), float32(rng.Uniform(0.25, 2))})
	}
	return ws
}

// sweep along one axis: returns ascending distinct float32 values for
// component `axis` such that value/white passes densely through the junction.
func c13JunctionValues(w float32) []float32 {
	const eps = 216.0 / 24389.0
	set := map[float32]bool{}
	for i := -10000; i <= 10000; i++ {
		set[float32((eps+float64(i)*1e-10)*float64(w))] = true
	}
	x := float32(eps * float64(w))
	up, dn := x, x
	for i := 0; i < 16; i++ {
		set[up], set[dn] = true, true
		up = math.Nextafter32(up, 10)
		dn = math.Nextafter32(dn, -10)
	}
	out := make([]float32, 0, len(set))
	for v := range set {
		out = append(out, v)
	}
	sort.Slice(out, func(i, j int) bool { return out[i] < out[j] })
	return out
}

func runC13(r *core.Run) {
	r.Rule = "XYZ lattice over [-0.5,2]^3 and Lab lattice over L[-10,110] a,b[-200,200] (64^3/48^3 quick, 256^3/256^3 thorough) x whites {D50, D65, library constants, seeded positive whites}, seeded random XYZ, junction sweeps of 20001 ratios through 216/24389 +/- 1e-6 per axis, monotone-in-Y sweeps, achromatic axis; non-trivial = distinct inputs with a ratio on each side of the junction or a negative component"
	r.Assumptions = []string{"CIE 1976 L*a*b* with eps=216/24389, kappa=24389/27 in refcolor", "domain as the property's quantifier states it"}
	nx, nl, nrand, nw := 64, 48, 1<<16, 1
	if r.Thorough() {
		nx, nl, nrand, nw = 256, 256, 500_000_000, 6
	}
	// the very first conversions of the process come from eight goroutines at once (a lazily built
	// cube-root or power table must not be observable), in both directions
	{
		probe := [][3]float32{{0.2, 0.3, 0.4}, {0.9, 1, 0.8}, {0.004, 0.002, 0.006}, {1.5, 1.2, 0.1}, {0.05, 0.5, 0.95}, {0.0089, 0.0088, 0.0072}}
		check := func(g int) {
			for k := range probe {
				in := probe[(k+g)%len(probe)]
				for _, w := range [][3]float32{c13D50, c13D65} {
					if kind, msg, _, _ := c13XYZ(in, w); kind != "" {
						r.Violate("xyz", kind+"/first-use", msg+" (among the first calls of the process, eight goroutines at once)", c13Case{Kind: kind, White: w, In: in})
					}
					ref := refcolor.XYZToLab(v64(in), v64(w))
					lab := [3]float32{float32(ref[0]), float32(ref[1]), float32(ref[2])}
					if kind, msg, _ := c13Lab(lab, w); kind != "" {
						r.Violate("lab", kind+"/first-use", msg+" (among the first calls of the process, eight goroutines at once)", c13Case{Kind: "inverse", White: w, In: lab})
					}
				}
			}
		}
		firstUseAuto(r.Variant, 8, check)
		r.AddEvals(8 * 6 * 4)
		if isBurst(r.Variant) {
			return
		}
	}
	if strings.Contains(r.Variant, "mutwhite") {
		// a program may assign to the exported variables ciexyz.D50 / ciexyz.D65 (they are plain
		// variables) and convert relative to them afterwards: the white passed is then simply another
		// positive white. Done in a process of its own; the variables are put back at the end.
		old50, old65 := ciexyz.D50, ciexyz.D65
		defer func() { ciexyz.D50, ciexyz.D65 = old50, old65 }()
		var n int64
		for _, nw := range [][2][3]float32{{{0.9, 1, 0.7}, {1, 1, 1}}, {{0.95047, 1, 1.08883}, {0.9642, 1, 0.8251}}, {{96.42, 100, 82.51}, {0.5, 0.5, 0.5}}, {{1.0985, 1, 0.35585}, {0.8, 0.9, 0.4}}} {
			ciexyz.D50 = ciexyz.Color{X: nw[0][0], Y: nw[0][1], Z: nw[0][2]}
			ciexyz.D65 = ciexyz.Color{X: nw[1][0], Y: nw[1][1], Z: nw[1][2]}
			for _, w := range [][3]float32{nw[0], nw[1]} {
				for _, in := range [][3]float32{w, {w[0] / 2, w[1] / 2, w[2] / 2}, {0.2, 0.3, 0.4}, {0.9642, 1, 0.8251}, {0.95047, 1, 1.08883}, {0.004, 0.002, 0.006}, {30, 40, 50}} {
					n++
					if kind, msg, _, _ := c13XYZ(in, w); kind != "" {
						r.Violate("xyz", kind+"/reassigned-constant", msg+fmt.Sprintf(" (ciexyz.D50 and ciexyz.D65 had been assigned %v and %v before)", nw[0], nw[1]), c13Case{Kind: kind, White: w, In: in})
					}
				}
				lab, _ := c13ToLab(w, w)
				if !(math.Abs(float64(lab.L)-100) <= 1e-3 && math.Abs(float64(lab.A)) <= 1e-3 && math.Abs(float64(lab.B)) <= 1e-3) {
					r.Violate("xyz", "white/reassigned-constant", fmt.Sprintf("white %v converted relative to itself gives %v (ciexyz.D50 and ciexyz.D65 had been assigned %v and %v before)", w, lab, nw[0], nw[1]), c13Case{Kind: "forward", White: w, In: w})
				}
			}
		}
		r.AddEvals(n)
		return
	}
	ws := c13Whites(r, nw)
	// whites and colours with a pattern in their components (two or three bitwise equal, a colour
	// component equal to the white's): a shortcut that reuses one term for another shows only here
	{
		pw := [][3]float32{{0.9, 1, 0.9}, {1, 1, 0.8}, {0.8, 1, 1}, {1, 1, 1}, {0.5, 0.5, 0.5}, {0.9642, 0.9642, 0.8251}, {1.2, 0.7, 1.2}, {100, 100, 82}, {95, 100, 95}}
		pc := [][3]float32{{0.3, 0.5, 0.5}, {0.5, 0.5, 0.3}, {0.5, 0.3, 0.5}, {0.5, 0.5, 0.5}, {0.3, 0.3, 0.3}, {0.004, 0.004, 0.3}, {0.3, 0.004, 0.004}, {0.004, 0.3, 0.004}, {0.9, 0.5, 0.9}, {1, 0.5, 0.25}, {0.0088, 0.0088, 0.0089}, {0.2, 0.4, 0.6}}
		var n int64
		for _, w := range pw {
			cols := append([][3]float32{}, pc...)
			// the white's own components, permuted and mixed with others; and the patterns on the white's scale
			cols = append(cols, [3]float32{w[0], w[1], w[2]}, [3]float32{w[2], w[1], w[0]}, [3]float32{w[0], 0.5 * w[1], w[2]}, [3]float32{w[1], w[1], w[1]}, [3]float32{0.3 * w[1], 0.5 * w[1], 0.5 * w[1]}, [3]float32{0.5 * w[1], 0.5 * w[1], 0.3 * w[1]})
			for _, in := range cols {
				n++
				if kind, msg, _, _ := c13XYZ(in, w); kind != "" {
					r.Violate("xyz", kind+"/patterned", msg, c13Case{Kind: kind, White: w, In: in})
				}
			}
		}
		r.AddEvals(n)
		r.NTCount(n)
		r.Obs("patterned_white_colour_cases", n)
	}
	// many goroutines convert at once, some repeating one colour (neutral colours: the three ratios are
	// equal), others running through different ones: a value remembered from the previous call must be
	// the caller's own
	{
		var n atomic.Int64
		var bad atomic.Int32
		iters := 60000
		if r.Thorough() {
			iters = 2000000
		}
		firstUseBurst(8, false, func(g int) {
			rg := core.NewRNG(r.Seed, "C13", "concurrent", fmt.Sprint(g))
			w := [][3]float32{c13D50, c13D65}[g%2]
			for i := 0; i < iters && bad.Load() == 0; i++ {
				var in [3]float32
				switch {
				case g < 2: // the white itself, over and over
					in = w
				case g < 4: // greys
					k := float32(i%97+1) / 97
					in = [3]float32{w[0] * k, w[1] * k, w[2] * k}
				default:
					in = [3]float32{float32(rg.Uniform(0, 1.2)), float32(rg.Uniform(0, 1.2)), float32(rg.Uniform(0, 1.2))}
				}
				lab, pan := c13ToLab(in, w)
				n.Add(1)
				if pan != nil {
					continue
				}
				ref := refcolor.XYZToLab(v64(in), v64(w))
				if !(math.Abs(float64(lab.L)-ref[0]) <= 1e-3 && math.Abs(float64(lab.A)-ref[1]) <= 1e-3 && math.Abs(float64(lab.B)-ref[2]) <= 1e-3) {
					if bad.Add(1) == 1 {
						r.Violate("xyz", "forward/concurrent", fmt.Sprintf("ToLAB(%v, white %v) = %v while eight goroutines convert at once; CIE 1976 definition gives %v", in, w, lab, ref), c13Case{Kind: "forward", White: w, In: in})
					}
				}
				if i%16 == 0 {
					back, _ := c13FromLab([3]float32{float32(ref[0]), float32(ref[1]), float32(ref[2])}, w)
					for k, b := range []float32{back.X, back.Y, back.Z} {
						if !(math.Abs(float64(b)-float64(in[k])) <= 2e-5*math.Max(1, float64(in[k]))) && bad.Add(1) == 1 {
							r.Violate("lab", "inverse/concurrent", fmt.Sprintf("ColorFromLAB(%v, white %v) = %v while eight goroutines convert at once; the colour was %v", ref, w, back, in), c13Case{Kind: "inverse", White: w, In: [3]float32{float32(ref[0]), float32(ref[1]), float32(ref[2])}})
						}
					}
				}
			}
		})
		r.AddEvals(n.Load())
		r.Obs("conversions_by_eight_goroutines_at_once", n.Load())
	}
	var maxFwd, maxRT, maxInv float64
	type acc struct{ f, rt, inv float64 }
	const eps = 216.0 / 24389.0
	isNT := func(in, w [3]float32) bool {
		below, above := false, false
		for i := 0; i < 3; i++ {
			if in[i] < 0 {
				return true
			}
			if float64(in[i])/float64(w[i]) > eps {
				above = true
			} else {
				below = true
			}
		}
		return below && above
	}
	rngj := core.NewRNG(r.Seed, "C13", "jitter")
	jit := float32(rngj.Uniform(0, 2.5/float64(nx)))
	for wi, w := range ws {
		w := w
		lat := nx
		if wi >= 2 && r.Thorough() {
			lat = 64 // the full 2^24 lattice for the two standard whites; 64^3 for the rest
		}
		accs := make([]acc, lat)
		core.ParallelFor(lat, 16, func(i int) {
			var nt int64
			for j := 0; j < lat; j++ {
				for k := 0; k < lat; k++ {
					in := [3]float32{-0.5 + 2.5*float32(i)/float32(lat-1) + jit, -0.5 + 2.5*float32(j)/float32(lat-1), -0.5 + 2.5*float32(k)/float32(lat-1) + jit/2}
					kind, msg, e1, e2 := c13XYZ(in, w)
					if kind != "" {
						r.Violate("xyz", kind, msg, c13Case{Kind: kind, White: w, In: in})
					}
					accs[i].f, accs[i].rt = math.Max(accs[i].f, e1), math.Max(accs[i].rt, e2)
					if isNT(in, w) {
						nt++
					}
				}
			}
			r.AddEvals(int64(lat * lat))
			r.NTCount(nt)
		})
		for _, a := range accs {
			maxFwd, maxRT = math.Max(maxFwd, a.f), math.Max(maxRT, a.rt)
		}
		ll := nl
		if wi >= 2 && r.Thorough() {
			ll = 48
		}
		accs = make([]acc, ll)
		core.ParallelFor(ll, 16, func(i int) {
			for j := 0; j < ll; j++ {
				for k := 0; k < ll; k++ {
					in := [3]float32{-10 + 120*float32(i)/float32(ll-1), -200 + 400*float32(j)/float32(ll-1), -200 + 400*float32(k)/float32(ll-1)}
					kind, msg, e := c13Lab(in, w)
					if kind != "" {
						r.Violate("lab", kind, msg, c13Case{Kind: kind, White: w, In: in})
					}
					accs[i].inv = math.Max(accs[i].inv, e)
				}
			}
			r.AddEvals(int64(ll * ll))
			r.NTCount(int64(ll * ll)) // every Lab lattice point is distinct; a,b != 0 almost everywhere
		})
		for _, a := range accs {
			maxInv = math.Max(maxInv, a.inv)
		}
		// white -> (100,0,0); multiples of the white -> a=b=0
		for m := 1; m <= 200; m++ {
			k := float32(m) / 100
			in := [3]float32{w[0] * k, w[1] * k, w[2] * k}
			lab, pan := c13ToLab(in, w)
			r.AddEvals(1)
			if pan != nil {
				r.Violate("achromatic", "panic", fmt.Sprint(pan), c13Case{Kind: "achromatic", White: w, In: in})
				continue
			}
			if math.Abs(float64(lab.A)) > 1e-3 || math.Abs(float64(lab.B)) > 1e-3 {
				r.Violate("achromatic", "achromatic", fmt.Sprintf("%v x white %v -> %v: a*, b* should be 0", k, w, lab), c13Case{Kind: "achromatic", White: w, In: in})
			}
			if m == 100 && (math.Abs(float64(lab.L)-100) > 1e-3) {
				r.Violate("achromatic", "white", fmt.Sprintf("white %v -> %v, want (100,0,0)", w, lab), c13Case{Kind: "achromatic", White: w, In: in})
			}
		}
		// junction sweeps per axis + continuity, and L monotone in Y
		slope := [3]float64{500 * (24389.0 / 27 / 116), 24389.0 / 27, 200 * (24389.0 / 27 / 116)}
		for axis := 0; axis < 3; axis++ {
			vals := c13JunctionValues(w[axis])
			var prev cielab.Color
			var prevV float32
			for vi, v := range vals {
				in := [3]float32{0.3 * w[0], 0.3 * w[1], 0.3 * w[2]}
				in[axis] = v
				kind, msg, e1, e2 := c13XYZ(in, w)
				r.AddEvals(1)
				r.NTHash(uint64(wi)<<40 | uint64(axis)<<36 | uint64(math.Float32bits(v)))
				maxFwd, maxRT = math.Max(maxFwd, e1), math.Max(maxRT, e2)
				if kind != "" {
					r.Violate("junction", kind, msg, c13Case{Kind: kind, White: w, In: in})
					continue
				}
				lab, _ := c13ToLab(in, w)
				if vi > 0 {
					dv := float64(v-prevV) / float64(w[axis])
					lim := 1e-3 + 1.01*slope[axis]*dv
					var jump float64
					switch axis {
					case 0:
						jump = math.Abs(float64(lab.A - prev.A))
					case 1:
						jump = math.Abs(float64(lab.L - prev.L))
					case 2:
						jump = math.Abs(float64(lab.B - prev.B))
					}
					if jump > lim {
						pin := in
						pin[axis] = prevV
						r.Violate("junction", "discontinuity", fmt.Sprintf("axis %d: Lab jumps by %.3g between %v and %v (white %v), local slope allows %.3g", axis, jump, prevV, v, w, lim), c13Case{Kind: "discontinuity", White: w, In: in, In2: pin})
					}
					if axis == 1 && lab.L < prev.L {
						pin := in
						pin[axis] = prevV
						r.Violate("junction", "L-monotone", fmt.Sprintf("L* decreases from %v to %v as Y goes %v -> %v (white %v)", prev.L, lab.L, prevV, v, w), c13Case{Kind: "L-monotone", White: w, In: in, In2: pin})
					}
				}
				prev, prevV = lab, v
			}
		}
		// L* non-decreasing in Y over the whole domain
		{
			var prevL float32 = float32(math.Inf(-1))
			var prevY float32
			steps := 100000
			for i := 0; i <= steps; i++ {
				y := float32(-0.5 + 2.5*float64(i)/float64(steps))
				in := [3]float32{0.4, y, 0.2}
				lab, pan := c13ToLab(in, w)
				r.AddEvals(1)
				if pan != nil {
					continue
				}
				if lab.L < prevL {
					r.Violate("monotone", "L-monotone", fmt.Sprintf("L* decreases from %v to %v as Y goes %v -> %v (white %v)", prevL, lab.L, prevY, y, w), c13Case{Kind: "L-monotone", White: w, In: in, In2: [3]float32{0.4, prevY, 0.2}})
				}
				prevL, prevY = lab.L, y
			}
		}
	}
	// components that are exactly zero (and exactly the white's), alone and in combination
	{
		vals := []float32{0, -0.25, 0.001, 0.3, 1, 2}
		var n int64
		for _, w := range ws {
			for _, a := range vals {
				for _, b := range vals {
					for _, c := range vals {
						for _, in := range [][3]float32{{a, b, c}, {a * w[0], b * w[1], c * w[2]}} {
							kind, msg, _, _ := c13XYZ(in, w)
							n++
							if kind != "" {
								r.Violate("xyz", kind+"/exact-zero", msg, c13Case{Kind: kind, White: w, In: in})
							}
						}
					}
				}
			}
		}
		r.AddEvals(n)
		r.NTCount(n / 2)
	}
	// near-neutral colours: a multiple of the white with one component nudged by a few parts in 1e5
	{
		var n int64
		for _, w := range ws {
			for m := 1; m <= 40; m++ {
				k := float32(m) / 32
				for _, d := range []float32{1e-5, 3e-5, 1e-4, 3e-4, -2e-5, -1e-4} {
					for axis := 0; axis < 3; axis++ {
						in := [3]float32{w[0] * k, w[1] * k, w[2] * k}
						in[axis] *= 1 + d
						kind, msg, _, _ := c13XYZ(in, w)
						n++
						if kind != "" {
							r.Violate("xyz", kind+"/near-neutral", msg, c13Case{Kind: kind, White: w, In: in})
						}
					}
				}
			}
		}
		r.AddEvals(n)
		r.NTCount(n)
	}
	// whites at other scales (Y = 100, 10.5, 0.01, 1000 ...): Lab depends on the ratios only, so the
	// same ratios against a scaled white must give the same Lab, and the scaled white itself (100, 0, 0)
	{
		rg := core.NewRNG(r.Seed, "C13", "scaled-whites")
		var n int64
		for _, k := range []float32{100, 10.5, 11, 9.99, 50, 255, 1000, 65535, 0.1, 0.01, 1e-3, 1e-6, 1e-10, 1e-14, 1e-18, 1e-21, 1e-24, 1e-27, 1e-30, 1e6, 1e12, 1e18, 1e24, 1e30, 0.5, 2, 0.25} {
			// ordinary whites and whites with a pattern in their components (all equal = illuminant E, two equal)
			for _, base := range [][3]float32{c13D50, c13D65, {float32(rg.Uniform(0.5, 1.5)), 1, float32(rg.Uniform(0.5, 1.5))}, {1, 1, 1}, {1, 1, 0.5}, {0.75, 1, 1}} {
				w := [3]float32{base[0] * k, base[1] * k, base[2] * k}
				ratios := [][3]float32{{1, 1, 1}, {0.5, 0.5, 0.5}, {0.18, 0.18, 0.18}, {0.004, 0.002, 0.006}, {0.0089, 0.0088, 0.0072}, {0, 0, 0}, {1.2, 0.8, 0.3}}
				for i := 0; i < 40; i++ {
					ratios = append(ratios, [3]float32{float32(rg.Uniform(-0.2, 1.5)), float32(rg.Uniform(-0.2, 1.5)), float32(rg.Uniform(-0.2, 1.5))})
				}
				for _, q := range ratios {
					in := [3]float32{q[0] * w[0], q[1] * w[1], q[2] * w[2]}
					kind, msg, _, _ := c13XYZ(in, w)
					n++
					if kind != "" {
						r.Violate("xyz", kind+"/scaled-white", msg, c13Case{Kind: kind, White: w, In: in})
						break
					}
				}
			}
		}
		r.AddEvals(n)
		r.NTCount(n)
	}
	// the ends of float32: huge positive components under ordinary whites (the exact Lab is about
	// 1e15 and representable: it must come back finite and proportionally right), and subnormal
	// whites with colours of the same size (finite results; the white itself is (100, 0, 0))
	{
		var n int64
		for _, w := range [][3]float32{c13D50, c13D65} {
			for _, big := range []float32{1e30, 1e36, 1e38, 3.4028235e38} {
				for _, in := range [][3]float32{{big, big, big}, {big, big / 2, big / 4}, {big / 3, big, 1}, {1, 0.5, big}, {big, 0, 0}} {
					lab, pan := c13ToLab(in, w)
					n++
					if pan != nil || !finite3(lab.L, lab.A, lab.B) {
						r.Violate("xyz", "nonfinite/extreme", fmt.Sprintf("ToLAB(%v, white %v) = %v (panic %v); the exact result is finite and far inside float32", in, w, lab, pan), c13Case{Kind: "nonfinite", White: w, In: in})
						continue
					}
					ref := refcolor.XYZToLab(v64(in), v64(w))
					got := [3]float64{float64(lab.L), float64(lab.A), float64(lab.B)}
					for i := 0; i < 3; i++ {
						if !(math.Abs(got[i]-ref[i]) <= 1e-3+2e-6*math.Max(math.Abs(ref[0]), math.Max(math.Abs(ref[1]), math.Abs(ref[2])))) {
							r.Violate("xyz", "forward/extreme", fmt.Sprintf("ToLAB(%v, white %v) = %v, CIE 1976 definition gives %v", in, w, lab, ref), c13Case{Kind: "forward", White: w, In: in})
							break
						}
					}
				}
			}
			for _, tiny := range []float32{1e-38, 5e-39, 1e-39, 1e-42, 1e-44} {
				ws := [3]float32{w[0] * tiny, w[1] * tiny, w[2] * tiny}
				if ws[0] == 0 || ws[1] == 0 || ws[2] == 0 {
					continue
				}
				for _, q := range [][3]float32{{1, 1, 1}, {0.5, 0.25, 0.75}, {0.01, 0.02, 0.005}} {
					in := [3]float32{ws[0] * q[0], ws[1] * q[1], ws[2] * q[2]}
					lab, pan := c13ToLab(in, ws)
					n++
					if pan != nil || !finite3(lab.L, lab.A, lab.B) {
						r.Violate("xyz", "nonfinite/subnormal-white", fmt.Sprintf("ToLAB(%v, white %v) = %v (panic %v)", in, ws, lab, pan), c13Case{Kind: "nonfinite", White: ws, In: in})
					} else if q == [3]float32{1, 1, 1} && !(math.Abs(float64(lab.L)-100) <= 1e-3 && math.Abs(float64(lab.A)) <= 1e-3 && math.Abs(float64(lab.B)) <= 1e-3) {
						r.Violate("xyz", "forward/subnormal-white", fmt.Sprintf("ToLAB(white, white %v) = %v, want (100, 0, 0)", ws, lab), c13Case{Kind: "forward", White: ws, In: in})
					}
				}
			}
		}
		r.AddEvals(n)
		r.NTCount(n)
	}
	// the same colour against different whites back to back (a "last conversion" memo keyed on the
	// colour alone shows only here)
	{
		rg := core.NewRNG(r.Seed, "C13", "alternate")
		var n int64
		for i := 0; i < 3000; i++ {
			in := [3]float32{float32(rg.Uniform(-0.2, 1.5)), float32(rg.Uniform(-0.2, 1.5)), float32(rg.Uniform(-0.2, 1.5))}
			if i%5 == 0 {
				in = ws[i%len(ws)]
			}
			for k := 0; k < 3; k++ {
				w := ws[(i+k)%len(ws)]
				kind, msg, _, _ := c13XYZ(in, w)
				n++
				if kind != "" {
					r.Violate("xyz", kind+"/alternating-whites", msg+" (the same colour had just been converted against another white)", c13Case{Kind: kind, White: w, In: in})
				}
				lab, _ := c13ToLab(in, w)
				l3 := [3]float32{lab.L, lab.A, lab.B}
				w2 := ws[(i+k+1)%len(ws)]
				if kind, msg, _ := c13Lab(l3, w2); kind != "" {
					r.Violate("lab", kind+"/alternating-whites", msg, c13Case{Kind: "inverse", White: w2, In: l3})
				}
			}
		}
		r.AddEvals(n)
		r.NTCount(n)
	}
	// seeded random XYZ
	shards := 64
	accs := make([]acc, shards)
	core.ParallelFor(shards, 16, func(sh int) {
		rg := core.NewRNG(r.Seed, "C13", "random", fmt.Sprint(sh))
		var nt int64
		for i := 0; i < nrand/shards; i++ {
			w := ws[rg.Intn(len(ws))]
			in := [3]float32{float32(rg.Uniform(-0.5, 2)), float32(rg.Uniform(-0.5, 2)), float32(rg.Uniform(-0.5, 2))}
			if i&7 == 0 { // concentrate an eighth near black, where the junction lives
				in = [3]float32{float32(rg.Uniform(-0.01, 0.03)), float32(rg.Uniform(-0.01, 0.03)), float32(rg.Uniform(-0.01, 0.03))}
			}
			kind, msg, e1, e2 := c13XYZ(in, w)
			if kind != "" {
				r.Violate("xyz", kind, msg, c13Case{Kind: kind, White: w, In: in})
			}
			accs[sh].f, accs[sh].rt = math.Max(accs[sh].f, e1), math.Max(accs[sh].rt, e2)
			if isNT(in, w) {
				nt++
			}
		}
		r.AddEvals(int64(nrand / shards))
		r.NTCount(nt)
	})
	for _, a := range accs {
		maxFwd, maxRT = math.Max(maxFwd, a.f), math.Max(maxRT, a.rt)
	}
	if r.Variant == "" {
		// the whole workload once more in the GOARCH=386 build of this monitor (see ./check)
		r.RunVariantChild("arch386@16", 30*time.Minute, false)
		r.Obs("arch386_child", "run")
		vs := append([]string{"warm@2", "mutwhite@2", "mutwhite@1"}, burstVariants...)
		for _, v := range vs {
			r.RunVariantChild(v, 5*time.Minute, false)
		}
		r.Obs("fresh_process_variants", vs)
	}
	r.Obs("max_forward_error_lab_units", maxFwd)
	r.Obs("max_roundtrip_error_scaled", maxRT)
	r.Obs("max_inverse_error_scaled", maxInv)
	r.Obs("whites", ws)
	lab, _ := c13ToLab([3]float32{0.4125, 0.2127, 0.0193}, c13D65)
	r.Sample(map[string]any{"xyz": []float32{0.4125, 0.2127, 0.0193}, "white": "D65", "lab": lab})
	lab2, _ := c13ToLab([3]float32{-0.1, 0.004, 1.7}, c13D50)
	r.Sample(map[string]any{"xyz": []float32{-0.1, 0.004, 1.7}, "white": "D50", "lab": lab2})
}

func replayC13(stage string, raw json.RawMessage) (bool, string, error) {
	var cs c13Case
	if err := json.Unmarshal(raw, &cs); err != nil {
		return false, "", err
	}
	switch cs.Kind {
	case "inverse":
		k, m, _ := c13Lab(cs.In, cs.White)
		return k != "", m, nil
	case "achromatic", "white":
		lab, pan := c13ToLab(cs.In, cs.White)
		if pan != nil {
			return true, fmt.Sprint(pan), nil
		}
		bad := math.Abs(float64(lab.A)) > 1e-3 || math.Abs(float64(lab.B)) > 1e-3
		if cs.In == cs.White {
			bad = bad || math.Abs(float64(lab.L)-100) > 1e-3
		}
		return bad, fmt.Sprintf("%v", lab), nil
	case "L-monotone":
		l1, _ := c13ToLab(cs.In, cs.White)
		l0, _ := c13ToLab(cs.In2, cs.White)
		return l1.L < l0.L, fmt.Sprintf("L %v then %v", l0.L, l1.L), nil
	case "discontinuity":
		l1, _ := c13ToLab(cs.In, cs.White)
		l0, _ := c13ToLab(cs.In2, cs.White)
		j := math.Max(math.Abs(float64(l1.L-l0.L)), math.Max(math.Abs(float64(l1.A-l0.A)), math.Abs(float64(l1.B-l0.B))))
		return j > 1e-3+1e-2, fmt.Sprintf("jump %.3g between %v and %v", j, cs.In2, cs.In), nil
	}
	if stage == "lab" {
		k, m, _ := c13Lab(cs.In, cs.White)
		return k != "", m, nil
	}
	k, m, _, _ := c13XYZ(cs.In, cs.White)
	return k != "", m, nil
}

func init() {
	core.Register(&core.Property{ID: "C13", Level: "exploration", Run: runC13, Replay: replayC13, Child: variantChild("C13", "exploration", runC13)})
}
