//go:build all || c05 || c06 || c08 || c19

package props

import (
	"bytes"
	"compress/gzip"
	"encoding/base64"
	"encoding/json"
	"fmt"
	"os"
	"path/filepath"
	"sync"

	"verifharness/internal/core"
	"verifharness/internal/imggen"
)

// C06 — the embedded ICC profile comes back byte-for-byte, or absent, or as an error.

type c06Case struct {
	Name     string `json:"name"`
	Format   string `json:"format"`
	ICCState string `json:"icc_state"`
	Loader   string `json:"loader"`
	ICCLen   int    `json:"icc_len"`
	File     string `json:"file_base64,omitempty"`
	FilePath string `json:"file_path,omitempty"`
	ICC      string `json:"icc_base64,omitempty"`
	ICCPath  string `json:"icc_path,omitempty"`
}

type c06File struct {
	genFile
	class string // NT class: format / size class / placement / damage
	nt    bool
}

func c06Check(f genFile, loaders []string) (kind, msg, loader string) {
	// the kind of reader is a function of the bytes (so that a replay uses the same one): plain,
	// positioned inside a larger reader, buffered, Read-only ... - see readerOfKind
	rk := int(fnv64(f.Bytes) % uint64(len(readerKindNames)))
	for li, l := range loaders {
		loader = l
		via := readerKindNames[(rk+li)%len(readerKindNames)]
		res := loadWith(loader, readerOfKind(f.Bytes, rk+li))
		if res.Panic != nil {
			return "panic", fmt.Sprintf("%s.Load panicked on %s (read from a %s): %v", loader, f.Name, via, res.Panic), loader
		}
		if res.Err != nil || res.MD == nil {
			return "load-failed", fmt.Sprintf("%s.Load failed on %s (ICC state %s, %d profile bytes, read from a %s): %v", loader, f.Name, f.Truth.ICCState, len(f.Truth.ICC), via, res.Err), loader
		}
		md := res.MD
		if md.PixelWidth != f.Truth.W || md.PixelHeight != f.Truth.H {
			return "basic", fmt.Sprintf("%s.Load of %s: basic metadata %dx%d, want %dx%d", loader, f.Name, md.PixelWidth, md.PixelHeight, f.Truth.W, f.Truth.H), loader
		}
		data, err := iccDataOf(md)
		// the accessors may be used in any order and any number of times: asking for the parsed
		// profile (which may well fail - the payload is arbitrary) must not change the raw bytes
		func() {
			defer func() { _ = recover() }()
			_, _ = md.ICCProfile()
		}()
		if data2, err2 := iccDataOf(md); !bytes.Equal(data, data2) || (data == nil) != (data2 == nil) || (err == nil) != (err2 == nil) {
			return "accessor-order", fmt.Sprintf("%s: %s: ICCProfileData() returned (%d bytes, %v) before and (%d bytes, %v) after a call of ICCProfile()", loader, f.Name, len(data), err, len(data2), err2), loader
		}
		switch f.Truth.ICCState {
		case "ok":
			if err != nil {
				return "ok-but-error", fmt.Sprintf("%s: %s embeds a well-formed %d-byte profile but ICCProfileData returned error %v", loader, f.Name, len(f.Truth.ICC), err), loader
			}
			if !bytes.Equal(data, f.Truth.ICC) || (data == nil) != (f.Truth.ICC == nil) {
				return "different-bytes", fmt.Sprintf("%s: %s embeds %d profile bytes, ICCProfileData returned %d bytes that %s", loader, f.Name, len(f.Truth.ICC), len(data), firstDiff(data, f.Truth.ICC)), loader
			}
		case "none":
			if data != nil || err != nil {
				return "none-but-something", fmt.Sprintf("%s: %s embeds no profile, ICCProfileData returned (%d bytes, %v)", loader, f.Name, len(data), err), loader
			}
			p, perr := md.ICCProfile()
			if p != nil || perr != nil {
				return "none-but-something", fmt.Sprintf("%s: %s embeds no profile, ICCProfile returned (%v, %v)", loader, f.Name, p, perr), loader
			}
		case "damaged":
			if err == nil || data != nil {
				return "damaged-no-error", fmt.Sprintf("%s: %s has a damaged embedding (embedded %d bytes); ICCProfileData returned (%d bytes, err=%v) - %s", loader, f.Name, len(f.Truth.ICC), len(data), err, firstDiff(data, f.Truth.ICC)), loader
			}
			if p, perr := md.ICCProfile(); p != nil || perr == nil {
				return "damaged-no-error", fmt.Sprintf("%s: %s has a damaged embedding; ICCProfile returned (%v, %v)", loader, f.Name, p, perr), loader
			}
		case "damaged-or-ok":
			if err == nil && !bytes.Equal(data, f.Truth.ICC) {
				return "damaged-different-bytes", fmt.Sprintf("%s: %s has a damaged embedding; ICCProfileData returned %d bytes without error that %s", loader, f.Name, len(data), firstDiff(data, f.Truth.ICC)), loader
			}
			if err != nil && data != nil {
				return "damaged-different-bytes", fmt.Sprintf("%s: %s: both data and error returned", loader, f.Name), loader
			}
		}
	}
	return "", "ok", ""
}

func sizeClass(n int) string {
	switch {
	case n <= 128:
		return "<=128"
	case n <= 4096:
		return "<=4096"
	case n <= 8192:
		return "<=8192"
	case n <= 65519:
		return "<=65519"
	case n <= 1<<20:
		return "<=1MiB"
	}
	return ">1MiB"
}

func c06Sizes(thorough bool) []int {
	s := []int{1, 2, 127, 128, 4095, 4096, 4097, 8191, 8192, 65518, 65519, 65520, 65521, 65533, 65534, 65535, 65536, 131038, 1 << 20, 3 << 20}
	if thorough {
		s = append(s, 16<<20, 255*65519)
	}
	return s
}

// ---- PNG -------------------------------------------------------------------

func c06PNG(rng *core.RNG, profile []byte, nameLen, level int, placement string, damage string) c06File {
	// every colour type, indexed colour (with its PLTE / tRNS chunks between iCCP and IDAT) included
	td := [][2]uint8{{6, 8}, {6, 16}, {2, 8}, {0, 8}, {4, 8}, {3, 8}, {3, 4}, {3, 1}, {6, 8}}[len(profile)%9]
	s := pngSpecFor(uint32(1+rng.Intn(3000)), uint32(1+rng.Intn(3000)), td[0], td[1], 0, rng)
	icc := &imggen.PNGICC{Name: latin1(rng, nameLen), Profile: profile, Level: level}
	switch placement {
	case "after-IHDR":
	case "after-chunks":
		s.Pre = append(colourChunks(rng, td[0]), randAncillary(rng, 4, true)...)
		if len(s.Pre) == 0 {
			s.Pre = []imggen.PNGChunk{{Type: "gAMA", Data: []byte{0, 0, 0xb1, 0x8f}}}
		}
	case "before-chunks":
		anc := randAncillary(rng, 4, true)
		if len(anc) == 0 {
			anc = []imggen.PNGChunk{{Type: "pHYs", Data: []byte{0, 0, 1, 0, 0, 0, 1, 0, 1}}}
		}
		s.Post = append(s.Post, anc...)
	}
	stream := imggen.Deflate(profile, level)
	switch damage {
	case "":
		if len(profile)%3 == 1 { // the zlib header declares the smallest window that fits, or one in between
			icc.RawStream = zlibWindow(stream, len(profile), nameLen%8)
		}
	case "bad-zlib-header":
		st := append([]byte{}, stream...)
		st[0] = 0x79 // CM/CINFO that fails the FCHECK
		icc.RawStream, icc.State = st, "damaged"
	case "bitflip":
		st := append([]byte{}, stream...)
		pos := rng.Intn(len(st))
		st[pos] ^= 1 << uint(rng.Intn(8))
		icc.RawStream, icc.State = st, "damaged-or-ok"
	case "truncated":
		cut := 2 + rng.Intn(len(stream)-2)
		if cut >= len(stream) {
			cut = len(stream) - 1
		}
		icc.RawStream, icc.State = append([]byte{}, stream[:cut]...), "damaged"
	case "raw-deflate": // the zlib wrapper (2-byte header, Adler-32) stripped: a bare deflate stream is not what iCCP holds
		if len(stream) > 6 {
			icc.RawStream, icc.State = append([]byte{}, stream[2:len(stream)-4]...), "damaged"
		}
	case "gzip-stream":
		var gz bytes.Buffer
		zw := gzip.NewWriter(&gz)
		_, _ = zw.Write(profile)
		_ = zw.Close()
		icc.RawStream, icc.State = gz.Bytes(), "damaged"
	case "empty-stream": // the limit of truncation: name, terminator, method, and no compressed byte at all
		icc.RawStream, icc.State = []byte{}, "damaged"
	case "one-byte-stream":
		icc.RawStream, icc.State = append([]byte{}, stream[:1]...), "damaged"
	case "bad-adler":
		st := append([]byte{}, stream...)
		st[len(st)-1] ^= 0x55
		icc.RawStream, icc.State = st, "damaged"
	}
	s.ICC = icc
	b, t := s.Build()
	name := fmt.Sprintf("png icc=%d name=%d level=%d %s %s", len(profile), nameLen, level, placement, damage)
	return c06File{genFile{name, b, t}, fmt.Sprintf("PNG/%s/%s/%s", sizeClass(len(profile)), placement, damage), len(profile) > 4096}
}

// ---- JPEG -------------------------------------------------------------------

type c06Chunk struct {
	num, total int
	data       []byte
}

func c06JPEG(rng *core.RNG, profile []byte, n int, perm []int, position string, interleave bool, damage string) (c06File, bool) {
	parts := imggen.SplitICC(profile, n)
	chunks := make([]c06Chunk, n)
	for i := range parts {
		chunks[i] = c06Chunk{i + 1, n, parts[i]}
	}
	ordered := make([]c06Chunk, 0, n+1)
	for _, pi := range perm {
		ordered = append(ordered, chunks[pi])
	}
	state := "ok"
	switch damage {
	case "":
	case "drop":
		k := rng.Intn(len(ordered))
		ordered = append(ordered[:k], ordered[k+1:]...)
		state = "damaged"
		if len(ordered) == 0 {
			return c06File{}, false // nothing left: that is simply a file without a profile
		}
	case "total=1", "total=N-1", "total=N+1", "total=255":
		k := rng.Intn(len(ordered))
		nt := map[string]int{"total=1": 1, "total=N-1": n - 1, "total=N+1": n + 1, "total=255": 255}[damage]
		if nt == n || nt < 0 || nt > 255 {
			return c06File{}, false
		}
		ordered[k].total = nt
		state = "damaged"
	case "num=0", "num=N+1", "num=255":
		k := rng.Intn(len(ordered))
		nn := map[string]int{"num=0": 0, "num=N+1": n + 1, "num=255": 255}[damage]
		if nn == ordered[k].num || nn > 255 {
			return c06File{}, false
		}
		ordered[k].num = nn
		state = "damaged"
	case "extra-bad-total", "extra-bad-num", "extra-zero-num":
		// a complete, consistent set plus one more ICC_PROFILE segment that contradicts it
		extra := c06Chunk{num: 1, total: n + 1, data: []byte("extra")}
		if damage == "extra-bad-num" {
			extra = c06Chunk{num: n + 1, total: n, data: []byte("extra")}
		} else if damage == "extra-zero-num" {
			extra = c06Chunk{num: 0, total: n, data: []byte("extra")}
		}
		if extra.total > 255 || extra.num > 255 {
			return c06File{}, false
		}
		at := rng.Intn(len(ordered) + 1)
		if rng.Intn(3) == 0 {
			at = len(ordered)
		}
		ordered = append(ordered[:at], append([]c06Chunk{extra}, ordered[at:]...)...)
		state = "damaged"
	case "duplicate":
		k := rng.Intn(len(ordered))
		at := rng.Intn(len(ordered) + 1)
		dup := ordered[k]
		ordered = append(ordered[:at], append([]c06Chunk{dup}, ordered[at:]...)...)
		state = "damaged"
	}
	if damage != "" {
		// What an ideal streaming extractor must conclude: it may stop as soon as a
		// self-consistent complete set has been seen after SOF (C18), otherwise it
		// sees every chunk up to SOF/SOS.
		st, got := c06Ideal(ordered, position == "after-SOF")
		if st == "ok" && !bytes.Equal(got, profile) {
			// the chunks seen up to the legitimate stopping point form a complete,
			// self-consistent but different profile (e.g. a first chunk "1 of 1"):
			// indistinguishable from a well-formed file - not generated
			return c06File{}, false
		}
		state = st
	}
	var segs []imggen.JPEGSeg
	for _, c := range ordered {
		if interleave {
			segs = append(segs, randJPEGSegs(rng, 2, false)...)
		}
		segs = append(segs, imggen.ICCChunkSeg(c.num, c.total, c.data))
	}
	s := imggen.JPEGSpec{Progressive: rng.Bool(), Precision: 8, W: 1 + rng.Intn(4000), H: 1 + rng.Intn(4000), Comps: imggen.StdComps(3, 2, 2), Entropy: []byte{1, 2, 3}}
	lead := randJPEGSegs(rng, 2, false)
	if position == "after-SOF" {
		s.Before, s.After = lead, segs
	} else {
		s.Before = append(lead, segs...)
		if interleave {
			s.After = randJPEGSegs(rng, 2, false)
		}
	}
	s.ICC, s.ICCState = profile, state
	b, t := s.Build()
	name := fmt.Sprintf("jpeg icc=%d chunks=%d order=%v %s interleave=%v %s", len(profile), n, permShort(perm), position, interleave, damage)
	ordClass := "in-order"
	for i, p := range perm {
		if p != i {
			ordClass = "permuted"
		}
	}
	return c06File{genFile{name, b, t}, fmt.Sprintf("JPEG/%s/n=%d/%s/%s/%v/%s", sizeClass(len(profile)), n, ordClass, position, interleave, damage), n >= 2 || len(profile) > 4096}, true
}

// c06Ideal is the reference streaming extractor for JPEG ICC chunk sequences.
func c06Ideal(chunks []c06Chunk, earlyStop bool) (state string, data []byte) {
	var table [][]byte
	have := 0
	for _, c := range chunks {
		if table == nil {
			table = make([][]byte, c.total)
		} else if c.total != len(table) {
			return "damaged", nil
		}
		if c.num == 0 || c.num > len(table) || table[c.num-1] != nil {
			return "damaged", nil
		}
		d := c.data
		if d == nil {
			d = []byte{}
		}
		table[c.num-1] = d
		have++
		if earlyStop && have == len(table) {
			break
		}
	}
	if table == nil {
		return "none", nil
	}
	if have != len(table) {
		return "damaged", nil
	}
	for _, t := range table {
		data = append(data, t...)
	}
	return "ok", data
}

func permShort(p []int) string {
	if len(p) > 8 {
		return fmt.Sprintf("%v...", p[:8])
	}
	return fmt.Sprint(p)
}

func allPerms(n int) [][]int {
	var out [][]int
	p := make([]int, n)
	for i := range p {
		p[i] = i
	}
	var rec func(k int)
	rec = func(k int) {
		if k == n {
			out = append(out, append([]int{}, p...))
			return
		}
		for i := k; i < n; i++ {
			p[k], p[i] = p[i], p[k]
			rec(k + 1)
			p[k], p[i] = p[i], p[k]
		}
	}
	rec(0)
	return out
}

// ---- WebP -------------------------------------------------------------------

func c06WebP(rng *core.RNG, profile []byte, damage string) c06File {
	s := imggen.WebPSpec{Kind: "VP8X", W: uint32(1 + rng.Intn(5000)), H: uint32(1 + rng.Intn(5000)), Flags: uint8(rng.Intn(256)), ICC: profile, Payload: rng.Bytes(20)}
	if rng.Bool() {
		s.Extra = [][2]any{{"EXIF", rng.Bytes(rng.Intn(50))}}
	}
	if damage == "not-ICCP" {
		s.ICCFourCC = "ALPH"
	}
	b, t := s.Build()
	return c06File{genFile{fmt.Sprintf("webp vp8x icc=%d %s", len(profile), damage), b, t}, fmt.Sprintf("WebP/%s/%d/%s", sizeClass(len(profile)), len(profile)%2, damage), len(profile) > 4096}
}

func c06Files(seed int64, thorough bool) []func() (c06File, bool) {
	rng := core.NewRNG(seed, "C06")
	var gens []func() (c06File, bool)
	add := func(g func(r *core.RNG) (c06File, bool)) {
		sub := core.NewRNG(int64(rng.U64()>>1), "C06case")
		gens = append(gens, func() (c06File, bool) { return g(sub) })
	}
	sizes := c06Sizes(thorough)
	// PNG
	for _, n := range sizes {
		if n > 4<<20 && !thorough {
			continue
		}
		for kind := 0; kind < 3; kind++ {
			n, kind := n, kind
			levels := []int{-2, -1, 0, 1, 6, 9}
			if n <= 65536 {
				levels = []int{-2, -1, 0, 1, 2, 3, 4, 5, 6, 7, 8, 9}
			}
			for _, lv := range levels {
				lv := lv
				add(func(r *core.RNG) (c06File, bool) {
					return c06PNG(r, profileBytes(r, n, kind), core.Pick(r, []int{1, 2, 78, 79}), lv, core.Pick(r, []string{"after-IHDR", "after-chunks", "before-chunks"}), ""), true
				})
			}
			for _, nl := range []int{1, 2, 78, 79} {
				nl := nl
				for _, pl := range []string{"after-IHDR", "after-chunks", "before-chunks"} {
					pl := pl
					if n > 1<<20 {
						continue
					}
					add(func(r *core.RNG) (c06File, bool) { return c06PNG(r, profileBytes(r, n, kind), nl, 6, pl, ""), true })
				}
			}
			if n <= 1<<20 {
				for _, dmg := range []string{"bad-zlib-header", "truncated", "bad-adler", "empty-stream", "one-byte-stream", "raw-deflate", "gzip-stream"} {
					dmg := dmg
					add(func(r *core.RNG) (c06File, bool) {
						return c06PNG(r, profileBytes(r, n, kind), 5, r.Range(0, 9), "after-IHDR", dmg), true
					})
				}
				for k := 0; k < 16; k++ {
					add(func(r *core.RNG) (c06File, bool) {
						return c06PNG(r, profileBytes(r, n, kind), 5, r.Range(0, 9), "after-chunks", "bitflip"), true
					})
				}
			}
		}
	}
	// JPEG
	jpegDamages := []string{"drop", "total=1", "total=N-1", "total=N+1", "total=255", "num=0", "num=N+1", "num=255", "duplicate", "extra-bad-total", "extra-bad-num", "extra-zero-num"}
	for _, n := range []int{1, 2, 3, 4, 5, 17, 255} {
		n := n
		var perms [][]int
		if n <= 5 {
			perms = allPerms(n)
		} else {
			identity := make([]int, n)
			for i := range identity {
				identity[i] = i
			}
			perms = append(perms, identity)
			k := 64
			if !thorough {
				k = 16
			}
			for i := 0; i < k; i++ {
				perms = append(perms, rng.Perm(n))
			}
		}
		psizes := []int{n, n + 1, 64 * n, 1000*n + 7}
		if n <= 5 {
			psizes = append(psizes, 65519*n, 65519*n-1, 65519*(n-1)+1)
		}
		if n == 2 {
			psizes = append(psizes, 131038, 65520, 65521)
		}
		if n >= 17 && thorough {
			psizes = append(psizes, 65519*n)
		}
		for pi, perm := range perms {
			perm := perm
			for si, size := range psizes {
				if size < n || size > 65519*n {
					continue
				}
				if size > 200000 && pi%7 != 0 {
					continue // the large payloads for a sample of the permutations
				}
				size := size
				pos := []string{"before-SOF", "after-SOF"}[(pi+si)%2]
				il := (pi+si)%3 == 0
				add(func(r *core.RNG) (c06File, bool) {
					return c06JPEG(r, profileBytes(r, size, 2), n, perm, pos, il, "")
				})
			}
			// damage classes on a small payload, both positions
			if n >= 1 {
				for di, dmg := range jpegDamages {
					dmg := dmg
					if n > 5 && (pi+di)%4 != 0 {
						continue
					}
					for _, pos := range []string{"before-SOF", "after-SOF"} {
						pos := pos
						add(func(r *core.RNG) (c06File, bool) {
							return c06JPEG(r, profileBytes(r, 40*n+3, 2), n, perm, pos, r.Bool(), dmg)
						})
					}
				}
			}
		}
	}
	// single-chunk size ladder for JPEG
	for _, n := range sizes {
		n := n
		if n > 65519 {
			continue
		}
		add(func(r *core.RNG) (c06File, bool) {
			return c06JPEG(r, profileBytes(r, n, 2), 1, []int{0}, "before-SOF", true, "")
		})
	}
	// multi-chunk ladder: sizes needing several full chunks
	for _, n := range sizes {
		n := n
		if n <= 65519 {
			continue
		}
		k := (n + 65518) / 65519
		if k > 255 {
			continue
		}
		add(func(r *core.RNG) (c06File, bool) {
			parts := make([]int, k)
			for i := range parts {
				parts[i] = i
			}
			return c06JPEG(r, profileBytes(r, n, 2), k, r.Perm(k), core.Pick(r, []string{"before-SOF", "after-SOF"}), false, "")
		})
	}
	// WebP
	for _, n := range sizes {
		n := n
		for kind := 0; kind < 3; kind++ {
			kind := kind
			add(func(r *core.RNG) (c06File, bool) { return c06WebP(r, profileBytes(r, n, kind), ""), true })
		}
		if n <= 65536 {
			add(func(r *core.RNG) (c06File, bool) { return c06WebP(r, profileBytes(r, n, 2), "not-ICCP"), true })
		}
	}
	// structures straddling the read-ahead buffer, big segments before the needed structures
	for _, f := range boundaryFiles(seed, true) {
		f := f
		add(func(r *core.RNG) (c06File, bool) {
			return c06File{f, "boundary/" + f.Truth.Format + "/" + f.Truth.ICCState, false}, true
		})
	}
	// profiles and preceding structures of several MiB (built when the case runs, not when it is listed)
	for i := 0; i < 9 && !c06SkipBig; i++ {
		i := i
		add(func(r *core.RNG) (c06File, bool) {
			fs := bigFiles(seed)
			if i >= len(fs) {
				return c06File{}, false
			}
			f := fs[i]
			return c06File{f, "big/" + f.Truth.Format + "/" + f.Truth.ICCState, false}, true
		})
	}
	// "whatever the profile's size": one profile of more than 64 MiB in a WebP, one of 65 MiB in a
	// PNG (stored, so that the compressed stream is larger still); built when the case runs
	for i := 0; i < 2 && !c06SkipBig; i++ {
		i := i
		add(func(r *core.RNG) (c06File, bool) {
			if i == 0 {
				p := profileBytes(r, 64<<20+4097, 2)
				b, t := imggen.WebPSpec{Kind: "VP8X", W: 800, H: 600, ICC: p, Payload: r.Bytes(10)}.Build()
				return c06File{genFile{fmt.Sprintf("huge: webp with a %d-byte profile", len(p)), b, t}, "huge/WebP/ok", false}, true
			}
			p := profileBytes(r, 65<<20, 2)
			s := pngSpecFor(640, 480, 2, 8, 0, r)
			s.ICC = &imggen.PNGICC{Name: "huge", Profile: p, Level: 0}
			b, t := s.Build()
			return c06File{genFile{fmt.Sprintf("huge: png with a stored %d-byte profile", len(p)), b, t}, "huge/PNG/ok", false}, true
		})
	}
	// no profile at all
	for i := 0; i < 60; i++ {
		i := i
		add(func(r *core.RNG) (c06File, bool) {
			switch i % 4 {
			case 0:
				td := [][2]uint8{{2, 8}, {3, 8}, {3, 2}, {0, 16}, {4, 16}, {6, 8}}[(i/4)%6]
				s := pngSpecFor(uint32(1+r.Intn(99)), uint32(1+r.Intn(99)), td[0], td[1], 0, r)
				s.Pre = randAncillary(r, 5, false)
				b, t := s.Build()
				return c06File{genFile{"png no profile", b, t}, "PNG/none", false}, true
			case 1:
				s := imggen.JPEGSpec{Precision: 8, W: 1 + r.Intn(99), H: 1 + r.Intn(99), Comps: imggen.StdComps(3, 1, 1), Before: randJPEGSegs(r, 6, false), After: randJPEGSegs(r, 2, false)}
				b, t := s.Build()
				return c06File{genFile{"jpeg no profile", b, t}, "JPEG/none", false}, true
			case 2:
				b, t := imggen.WebPSpec{Kind: core.Pick(r, []string{"VP8", "VP8L"}), W: uint32(1 + r.Intn(99)), H: uint32(1 + r.Intn(99))}.Build()
				return c06File{genFile{"webp simple no profile", b, t}, "WebP/none", false}, true
			default:
				b, t := imggen.WebPSpec{Kind: "VP8X", W: uint32(1 + r.Intn(99)), H: uint32(1 + r.Intn(99)), Flags: uint8(r.Intn(256)) &^ 0x20, Payload: r.Bytes(9)}.Build()
				return c06File{genFile{"webp vp8x no profile", b, t}, "WebP/none-x", false}, true
			}
		})
	}
	return gens
}

func c06Witness(r *core.Run, f c06File, loader string) c06Case {
	cs := c06Case{Name: f.Name, Format: f.Truth.Format, ICCState: f.Truth.ICCState, Loader: loader, ICCLen: len(f.Truth.ICC)}
	if len(f.Bytes) <= 200000 {
		cs.File = base64.StdEncoding.EncodeToString(f.Bytes)
		cs.ICC = base64.StdEncoding.EncodeToString(f.Truth.ICC)
		return cs
	}
	dir := filepath.Join(core.OutDir(), "replays", r.Prop)
	_ = os.MkdirAll(dir, 0o755)
	base := filepath.Join(dir, fmt.Sprintf("witness-%016x", fnv64(f.Bytes)))
	_ = os.WriteFile(base+".bin", f.Bytes, 0o644)
	_ = os.WriteFile(base+".icc", f.Truth.ICC, 0o644)
	cs.FilePath, cs.ICCPath = base+".bin", base+".icc"
	return cs
}

var c06SkipBig bool // set while runC06 lists the generator again under derived seeds

func runC06(r *core.Run) {
	r.Rule = "profiles of boundary sizes (1 B .. 3 MiB; 16 MiB and 255 full chunks in thorough; zeros / text / incompressible) embedded as PNG iCCP (all zlib levels, name lengths 1/2/78/79, three placements), JPEG APP2 (1..255 chunks, every permutation up to 5 chunks, seeded beyond, before/after SOF, interleaved) and WebP VP8X+ICCP (odd/even), plus every damage class and profile-less files; each through the specific and the auto loader; non-trivial = distinct (format, size class, order/placement class, damage class) with size > 4096 or >= 2 chunks"
	r.Assumptions = []string{"a JPEG whose first-arriving ICC chunk after SOF says '1 of 1' is a self-consistent complete profile; later contradictory chunks lie beyond what the extractor needs to read (C18) and such damage variants are not generated"}
	gens := c06Files(r.Seed, r.Thorough())
	if r.Thorough() {
		// the whole generator again under 120 derived seeds (other names, placements, orders,
		// damage positions, payload dressings); the multi-MiB files only once
		c06SkipBig = true
		for k := int64(1); k <= 120; k++ {
			gens = append(gens, c06Files(r.Seed*1000+k, false)...)
		}
		c06SkipBig = false
	}
	classes := map[string]int64{}
	type out struct {
		class string
	}
	results := make([]string, len(gens))
	// Results of earlier loads are kept and compared again after later loads have happened: bytes
	// handed out by a loader must stay what they were (a recycled buffer shows only this way).
	type kept struct {
		name string
		got  []byte
		want []byte
	}
	var keepMu sync.Mutex
	var ring []kept
	recheck := func() {
		keepMu.Lock()
		defer keepMu.Unlock()
		for _, k := range ring {
			if !bytes.Equal(k.got, k.want) {
				r.Violate("retained", "retained-bytes-changed", fmt.Sprintf("%s: the profile bytes returned by an earlier Load changed after later loads: they now %s", k.name, firstDiff(k.got, k.want)), c06Case{Name: k.name, ICCState: "retained"})
			}
		}
	}
	core.ParallelFor(len(gens), 12, func(i int) {
		f, ok := gens[i]()
		if !ok {
			return
		}
		results[i] = f.class
		if f.Truth.ICCState == "ok" && len(f.Truth.ICC) > 0 && len(f.Truth.ICC) < 70000 {
			if res := loadWith(loaderFor(f.Truth.Format), bytes.NewReader(f.Bytes)); res.MD != nil {
				if d, err := iccDataOf(res.MD); err == nil && d != nil {
					keepMu.Lock()
					ring = append(ring, kept{f.Name, d, f.Truth.ICC})
					if len(ring) > 24 {
						ring = ring[1:]
					}
					keepMu.Unlock()
				}
			}
		}
		if i%16 == 0 {
			recheck()
		}
		kind, msg, loader := c06Check(f.genFile, []string{loaderFor(f.Truth.Format), "autometa"})
		r.AddEvals(2)
		if f.nt {
			r.NT(f.class)
		}
		if kind != "" {
			r.Violate("file", f.Truth.Format+"/"+loader+"/"+kind, msg, c06Witness(r, f, loader))
		}
	})
	// twins: files that agree in everything a cache key might be built from (iCCP name, compressed
	// length, CRC field; JPEG chunk sizes; WebP chunk size) but carry different profile bytes,
	// loaded alternately - each load must return its own file's profile
	{
		rg := core.NewRNG(r.Seed, "C06", "twins")
		for k := 0; k < 30; k++ {
			n := 200 + rg.Intn(3000)
			pa, pb := profileBytes(rg, n, 2), profileBytes(rg, n, 2)
			var fa, fb genFile
			switch k % 3 {
			case 0:
				mk := func(p []byte) genFile {
					s := pngSpecFor(31, 17, 2, 8, 0, core.NewRNG(7, "twin"))
					s.ICC = &imggen.PNGICC{Name: "twin", Profile: p, Level: 0}
					s.FixedICCCRC = 0x12345678
					b, t := s.Build()
					return genFile{"png twin", b, t}
				}
				fa, fb = mk(pa), mk(pb)
			case 1:
				mk := func(p []byte) genFile {
					s := imggen.JPEGSpec{Precision: 8, W: 31, H: 17, Comps: imggen.StdComps(3, 1, 1), Before: []imggen.JPEGSeg{imggen.ICCChunkSeg(1, 1, p)}, ICC: p, ICCState: "ok"}
					b, t := s.Build()
					return genFile{"jpeg twin", b, t}
				}
				fa, fb = mk(pa), mk(pb)
			default:
				mk := func(p []byte) genFile {
					b, t := imggen.WebPSpec{Kind: "VP8X", W: 31, H: 17, ICC: p}.Build()
					return genFile{"webp twin", b, t}
				}
				fa, fb = mk(pa), mk(pb)
			}
			for step := 0; step < 4; step++ {
				f := fa
				if step%2 == 1 {
					f = fb
				}
				kind, msg, loader := c06Check(f, []string{loaderFor(f.Truth.Format), "autometa"})
				r.AddEvals(2)
				if kind != "" {
					r.Violate("file", f.Truth.Format+"/"+loader+"/"+kind+"/twins", msg+" (loaded alternately with a twin file that differs only in the profile bytes)", c06Witness(r, c06File{f, "twins", false}, loader))
				}
			}
		}
	}
	recheck()
	for _, c := range results {
		if c != "" {
			classes[c]++
		}
	}
	r.Obs("files", len(gens))
	r.Obs("distinct_classes", len(classes))
	s1, _ := gens[0]()
	r.Sample(map[string]any{"name": s1.Name, "bytes": len(s1.Bytes), "class": s1.class})
	s2, _ := gens[len(gens)/2]()
	r.Sample(map[string]any{"name": s2.Name, "bytes": len(s2.Bytes), "class": s2.class})
}

func replayC06(stage string, raw json.RawMessage) (bool, string, error) {
	var cs c06Case
	if err := json.Unmarshal(raw, &cs); err != nil {
		return false, "", err
	}
	if stage == "retained" {
		return false, "", fmt.Errorf("a retained-bytes violation needs the sequence of loads: re-run ./check C06 quick")
	}
	var file, icc []byte
	var err error
	if cs.FilePath != "" {
		if file, err = os.ReadFile(cs.FilePath); err != nil {
			return false, "", err
		}
		if icc, err = os.ReadFile(cs.ICCPath); err != nil {
			return false, "", err
		}
	} else {
		if file, err = base64.StdEncoding.DecodeString(cs.File); err != nil {
			return false, "", err
		}
		icc, _ = base64.StdEncoding.DecodeString(cs.ICC)
	}
	if cs.ICCLen == 0 && cs.ICCState == "none" {
		icc = nil
	}
	t := imggen.Truth{Format: cs.Format, ICC: icc, ICCState: cs.ICCState}
	res := loadWith(cs.Loader, bytes.NewReader(file))
	if res.MD != nil {
		t.W, t.H = res.MD.PixelWidth, res.MD.PixelHeight
	}
	kind, msg, _ := c06Check(genFile{cs.Name, file, t}, []string{cs.Loader})
	return kind != "", msg, nil
}

func init() {
	core.Register(&core.Property{ID: "C06", Level: "exploration", Run: runC06, Replay: replayC06})
}
