//go:build all || c02 || c04 || c14

package props

import (
	"encoding/json"
	"fmt"
	"image/color"
	"math"
	"sort"
	"strings"
	"sync"
	"time"
	"verifharness/internal/atinit"

	"github.com/mandykoh/prism/linear"

	"verifharness/internal/core"
)

// C02 — encoders clip, are monotone and accurate to table resolution.

type c02Enc struct {
	Name  string
	Max   float64 // maximum output code
	Nodes float64 // table index maximum (511 for the 8-bit encoders, 65535 for 16-bit); 0 for plain quantisers
	OETF  func(float64) float64
	F     func(float32) int
}

func c02Encoders() []c02Enc {
	var es []c02Enc
	for _, s := range libSpaces {
		s := s
		if s.To8 == nil {
			continue
		}
		es = append(es,
			c02Enc{s.Name + ".To8Bit", 255, 511, s.Ref.Curve.OETF, func(x float32) int { return int(s.To8(x)) }},
			c02Enc{s.Name + ".To16Bit", 65535, 65535, s.Ref.Curve.OETF, func(x float32) int { return int(s.To16(x)) }})
	}
	es = append(es,
		c02Enc{"linear.NormalisedTo8Bit", 255, 0, nil, func(x float32) int { return int(linear.NormalisedTo8Bit(x)) }},
		c02Enc{"linear.NormalisedTo9Bit", 511, 0, nil, func(x float32) int { return int(linear.NormalisedTo9Bit(x)) }},
		c02Enc{"linear.NormalisedTo16Bit", 65535, 0, nil, func(x float32) int { return int(linear.NormalisedTo16Bit(x)) }})
	return es
}

func clamp01(x float64) float64 {
	if x < 0 {
		return 0
	}
	if x > 1 {
		return 1
	}
	return x
}

// c02Bounds gives the closed interval of codes the law allows for an ordered
// (non-NaN) input x. extra widens the half-step (used where the public
// contract computes x itself in float32, see DESIGN.md C02/C04).
func c02Bounds(e *c02Enc, x float64, extra float64) (lo, hi float64) {
	if x <= 0 {
		return 0, 0
	}
	if x >= 1 {
		return e.Max, e.Max
	}
	if e.OETF == nil { // plain quantiser: |r - x*max| <= 0.5 + max*2^-23
		s := 0.5 + e.Max/(1<<23)
		return math.Max(0, x*e.Max-s), math.Min(e.Max, x*e.Max+s)
	}
	h := 1.02*(0.5/e.Nodes) + extra
	eps := e.Max / (1 << 21)
	lo = e.Max*e.OETF(clamp01(x-h)) - 0.5 - eps
	hi = e.Max*e.OETF(clamp01(x+h)) + 0.5 + eps
	return math.Max(0, lo), math.Min(e.Max, hi)
}

type c02Case struct {
	Encoder string `json:"encoder"`
	Bits    uint32 `json:"float32_bits"`
	Value   string `json:"value"`
	Prev    uint32 `json:"prev_float32_bits,omitempty"`
}

func c02Call(e *c02Enc, x float32) (r int, panicked any) {
	defer func() {
		if p := recover(); p != nil {
			panicked = p
		}
	}()
	return e.F(x), nil
}

// c02CheckPoint applies the point law (everything but monotonicity).
func c02CheckPoint(e *c02Enc, x float32) (bad bool, kind, msg string, r int) {
	r, p := c02Call(e, x)
	if p != nil {
		return true, "panic", fmt.Sprintf("%s(%v [bits %#08x]) panicked: %v", e.Name, x, math.Float32bits(x), p), 0
	}
	if x != x { // NaN: must return, nothing else is demanded
		return false, "", "nan-returned", r
	}
	lo, hi := c02Bounds(e, float64(x), 0)
	if float64(r) < lo || float64(r) > hi {
		kind = "accuracy"
		if x <= 0 || x >= 1 {
			kind = "clip"
		}
		return true, kind, fmt.Sprintf("%s(%.9g [bits %#08x]) = %d, law allows [%.4f, %.4f]", e.Name, x, math.Float32bits(x), r, lo, hi), r
	}
	return false, "", "ok", r
}

// ascending float32 iteration helpers: map float32 to a monotone integer key.
func f32Key(x float32) int64 {
	b := math.Float32bits(x)
	if b&0x80000000 != 0 {
		return -int64(b & 0x7fffffff)
	}
	return int64(b)
}

func c02QuickPoints(seed int64) []float32 {
	var pts []float32
	add := func(x float32) {
		pts = append(pts, x)
		up, dn := x, x
		for i := 0; i < 2; i++ {
			up = math.Nextafter32(up, float32(math.Inf(1)))
			dn = math.Nextafter32(dn, float32(math.Inf(-1)))
			pts = append(pts, up, dn)
		}
	}
	for _, n := range []float64{255, 511, 65535} {
		for k := 0.0; k <= n; k++ {
			add(float32(k / n))
			add(float32((k + 0.5) / n))
		}
	}
	// curve junctions
	for _, j := range []float64{0.0031308, 0.04045, 1.0 / 512, 16.0 / 512, 0, 1} {
		add(float32(j))
	}
	// what the decoders return: the exact float32 each 8-bit code (and every 16th 16-bit code)
	// decodes to in each space, with its neighbours - values a caller feeds straight back
	for _, s := range libSpaces {
		if s.From8 == nil {
			continue
		}
		for c := 0; c < 256; c++ {
			add(s.From8(uint8(c)))
		}
		for c := 0; c < 65536; c += 16 {
			add(s.From16(uint16(c + (c>>4)%16)))
		}
	}
	// 4096 points per binade of [2^-149, 2)
	rng := core.NewRNG(seed, "C02", "binade")
	for exp := 0; exp <= 127; exp++ { // biased exponent 0 (denormals) .. 127 ([1,2))
		for i := 0; i < 4096; i++ {
			man := uint32(i)<<11 | uint32(rng.Intn(1<<11))
			pts = append(pts, math.Float32frombits(uint32(exp)<<23|man))
		}
	}
	// negatives, values above 1, specials
	for i := 0; i < 1<<15; i++ {
		b := rng.U32()
		x := math.Float32frombits(b)
		if x != x {
			continue
		}
		if x > 0 && x < 1 {
			x = -x
		}
		pts = append(pts, x)
	}
	pts = append(pts, float32(math.Inf(1)), float32(math.Inf(-1)), math.MaxFloat32, -math.MaxFloat32,
		math.SmallestNonzeroFloat32, -math.SmallestNonzeroFloat32, float32(math.Copysign(0, -1)), 0, 1, 2, -1, 1e-38, 1.0000001, 0.99999994)
	sort.Slice(pts, func(i, j int) bool { return f32Key(pts[i]) < f32Key(pts[j]) })
	return pts
}

type c02Seen struct { // distinct (output code, side) per encoder
	bits []uint64
}

func newSeen(max int) *c02Seen { return &c02Seen{bits: make([]uint64, (2*(max+1)+63)/64)} }
func (s *c02Seen) set(code int, side int) {
	i := 2*code + side
	s.bits[i>>6] |= 1 << (uint(i) & 63)
}
func (s *c02Seen) merge(o *c02Seen) {
	for i := range s.bits {
		s.bits[i] |= o.bits[i]
	}
}
func (s *c02Seen) count() int64 {
	var n int64
	for _, w := range s.bits {
		for ; w != 0; w &= w - 1 {
			n++
		}
	}
	return n
}

func c02Side(e *c02Enc, x float32) int {
	n := e.Nodes
	if n == 0 {
		n = e.Max
	}
	t := math.Round(float64(x)*n) / n
	if float64(x) < t {
		return 0
	}
	return 1
}

// c02Sweep checks the point law and monotonicity along an ascending list
// produced by next(); returns number of evaluations.
func c02SweepList(r *core.Run, e *c02Enc, pts []float32, seen *c02Seen) int64 {
	prevR := -1
	var prevX float32
	for _, x := range pts {
		bad, kind, msg, res := c02CheckPoint(e, x)
		if bad {
			r.Violate("point", e.Name+"/"+kind, msg, c02Case{e.Name, math.Float32bits(x), fmt.Sprint(x), 0})
			if kind == "panic" {
				continue
			}
		}
		if res < prevR {
			r.Violate("monotone", e.Name+"/monotone", fmt.Sprintf("%s(%.9g)=%d but %s(%.9g)=%d", e.Name, prevX, prevR, e.Name, x, res),
				c02Case{e.Name, math.Float32bits(x), fmt.Sprint(x), math.Float32bits(prevX)})
		}
		prevR, prevX = res, x
		if x > 0 && x < 1 {
			seen.set(res, c02Side(e, x))
		}
	}
	return int64(len(pts))
}

// c02FirstPoints: sixteenths of the range, each followed by a value half a 16-bit step above it,
// and a few values near the ends.
func c02FirstPoints() []float32 {
	xs := []float32{0, 1e-6, 0.0005, 0.0031}
	for k := 1; k <= 16; k++ {
		v := float32(k) / 16
		xs = append(xs, math.Nextafter32(v, 0), v)
		if k < 16 {
			xs = append(xs, v+7.6e-6)
		}
	}
	return append(xs, 0.99999, 1.5)
}

func runC02(r *core.Run) {
	r.Rule = "ascending float32 sequences per encoder (quick: every quantiser bucket boundary and table node +/-2 ulp, 4096 points per binade, specials, out-of-range sample; thorough: every float32 bit pattern in [0,1], 2^24 out-of-range patterns, 2^23 NaN payloads) and a 33^3 x 9-alpha lattice through the colour types; non-trivial = distinct (encoder, output code, side of nearest table node) observed for 0<x<1, plus distinct lattice cells with a channel strictly inside (0,1)"
	r.Assumptions = []string{"reference OETFs from refcolor", "rounding slack h'=1.02*h and eps=max*2^-21 are analytic float32 bounds (DESIGN.md C02)", "float->int conversion of NaN is whatever amd64 does; only absence of a panic is demanded"}
	encs := c02Encoders()
	// fresh process whose very first call into each encoder is at one chosen x, followed by the
	// others in ascending order from there (a table built lazily in parts, by range, shows only
	// for the part that is touched first)
	if atinit.Records != nil {
		// this child encoded during package initialisation, before anything else ran
		n := 0
		for _, rec := range atinit.Records {
			if rec.Call != "To8Bit" {
				continue
			}
			for i := range encs {
				if encs[i].Name != rec.Space+".To8Bit" {
					continue
				}
				n++
				lo, hi := c02Bounds(&encs[i], float64(rec.In[0]), 0)
				if got := float64(rec.Out[0]); got < lo || got > hi {
					r.Violate("point", encs[i].Name+"/accuracy/at-init", fmt.Sprintf("%s(%.9g) = %v when called from package initialisation of the importing program, law allows [%.4f, %.4f]", encs[i].Name, rec.In[0], got, lo, hi), c02Case{encs[i].Name, math.Float32bits(rec.In[0]), fmt.Sprint(rec.In[0]), 0})
				}
			}
		}
		r.AddEvals(int64(n))
		if n == 0 {
			r.Inconclusive("atinit child recorded nothing")
		}
	}
	if strings.HasPrefix(r.Variant, "firstpoint:") {
		var k int
		fmt.Sscanf(r.Variant[len("firstpoint:"):], "%d", &k)
		xs := c02FirstPoints()
		for i0 := range encs {
			e := &encs[(i0+k)%len(encs)] // a different encoder is the process's first in each child
			for j := 0; j < len(xs); j++ {
				x := xs[(k+j)%len(xs)]
				if bad, kind, msg, _ := c02CheckPoint(e, x); bad {
					r.Violate("point", e.Name+"/"+kind+"/first-point", fmt.Sprintf("%s (fresh process, first call into this encoder at x=%.9g, this is call #%d)", msg, xs[k%len(xs)], j+1), c02Case{e.Name, math.Float32bits(x), fmt.Sprint(x), 0})
					break
				}
			}
		}
		r.AddEvals(int64(len(encs) * len(xs)))
		return
	}
	// first use under contention: every encoder's very first calls come from eight goroutines
	{
		probe := []float32{1, 0.5, 0.25, 0.001, 0.9999, 2, 0}
		check := func(e *c02Enc) {
			for _, x := range probe {
				if bad, kind, msg, _ := c02CheckPoint(e, x); bad {
					r.Violate("point", e.Name+"/"+kind+"/first-use", msg+" (among the first calls of the process, eight goroutines at once)", c02Case{e.Name, math.Float32bits(x), fmt.Sprint(x), 0})
				}
			}
		}
		if strings.Contains(r.Variant, "stagger") || r.Variant == "" {
			firstUseBurst(8, true, func(g int) {
				for i := range encs {
					check(&encs[i])
				}
			})
		} else {
			firstUsePhases(8, len(encs), func(g, ph int) { check(&encs[ph]) })
		}
		r.AddEvals(int64(8 * len(encs) * len(probe)))
		if isBurst(r.Variant) {
			return
		}
	}
	pts := c02QuickPoints(r.Seed)
	// what the first calls of the process returned is remembered: at the very end the neighbours of
	// those arguments are encoded again, and monotonicity must hold between an early and a late call
	// as it does between adjacent ones (an encoder that changes its method after some number of
	// calls - exact evaluation first, a table later - breaks it only across that switch)
	type early struct {
		x float32
		r int
	}
	earlyRes := make([][]early, len(encs))
	{
		rg := core.NewRNG(r.Seed, "C02", "early")
		for i := range encs {
			for k := 0; k < 3000; k++ {
				x := float32(rg.Uniform(0, 1))
				if k%3 == 0 {
					x = float32(rg.Uniform(0, 0.02))
				}
				res, pan := c02Call(&encs[i], x)
				if pan == nil {
					earlyRes[i] = append(earlyRes[i], early{x, res})
				}
			}
		}
	}
	defer func() {
		var n int64
		for i := range encs {
			e := &encs[i]
			for _, ev := range earlyRes[i] {
				up, _ := c02Call(e, math.Nextafter32(ev.x, 2))
				dn, _ := c02Call(e, math.Nextafter32(ev.x, -1))
				n += 2
				if up < ev.r || dn > ev.r {
					r.Violate("monotone", e.Name+"/monotone/across-history", fmt.Sprintf("%s(%.9g) = %d among the first calls of the process; after %d further calls its float32 neighbours encode to %d (below) and %d (above): the result decreases as x increases", e.Name, ev.x, ev.r, len(pts), dn, up),
						c02Case{e.Name, math.Float32bits(ev.x), fmt.Sprint(ev.x), 0})
					break
				}
			}
		}
		r.AddEvals(n)
	}()
	nanPts := []float32{float32(math.NaN()), math.Float32frombits(0x7fc00001), math.Float32frombits(0xffc00000), math.Float32frombits(0x7f800001), math.Float32frombits(0xffffffff)}
	seen := make([]*c02Seen, len(encs))
	var mu sync.Mutex
	codesSeen := map[string]int64{}
	// each encoder's list is swept by four goroutines at once (chunks overlap by one point), so that
	// the very first use of each lazily built table is concurrent
	const chunks = 4
	for i := range encs {
		seen[i] = newSeen(int(encs[i].Max))
	}
	var smu sync.Mutex
	core.ParallelFor(len(encs)*chunks, 16, func(j int) {
		i, c := j/chunks, j%chunks
		e := &encs[i]
		lo, hi := c*len(pts)/chunks, (c+1)*len(pts)/chunks
		if lo > 0 {
			lo--
		}
		local := newSeen(int(e.Max))
		n := c02SweepList(r, e, pts[lo:hi], local)
		smu.Lock()
		seen[i].merge(local)
		smu.Unlock()
		if c != 0 {
			r.AddEvals(n)
			return
		}
		for _, x := range nanPts {
			if bad, kind, msg, _ := c02CheckPoint(e, x); bad {
				r.Violate("point", e.Name+"/"+kind, msg, c02Case{e.Name, math.Float32bits(x), "NaN", 0})
			}
			n++
		}
		r.AddEvals(n)
	})

	if r.Thorough() {
		c02Thorough(r, encs, seen)
	}
	for i, e := range encs {
		c := seen[i].count()
		r.NTCount(c)
		mu.Lock()
		codesSeen[e.Name] = c
		mu.Unlock()
	}
	if r.Variant == "" {
		// the whole workload once more in the GOARCH=386 build of this monitor (see ./check)
		r.RunVariantChild("arch386@16", 30*time.Minute, false)
		r.Obs("arch386_child", "run")
		for _, v := range append([]string{"decfirst@3", "decfirst+rev@1", "rev@6", "warm@2", "atinit+burst@1", "atinit+burst@16", "atinit+burst@2", "imgfirst@4", "imgfirst+rev@16"}, burstVariants...) {
			r.RunVariantChild(v, 10*time.Minute, false)
		}
		nfp := len(c02FirstPoints())
		core.ParallelFor(nfp, 8, func(k int) {
			r.RunVariantChild(fmt.Sprintf("firstpoint:%d@%d", k, 1+k%4), 5*time.Minute, false)
		})
		r.Obs("fresh_process_first_point_children", nfp)
		r.Obs("fresh_process_variants", []string{"decfirst@3", "decfirst+rev@1", "rev@6", "warm@2", "atinit+burst@1", "atinit+burst@16", "atinit+burst@2", "imgfirst@4", "imgfirst+rev@16"})
	}
	r.Obs("distinct_code_side_pairs_per_encoder", codesSeen)
	r.Obs("quick_points_per_encoder", len(pts))
	r.Sample(map[string]any{"encoder": encs[0].Name, "x": 0.5, "result": encs[0].F(0.5)})
	r.Sample(map[string]any{"encoder": encs[5].Name, "x": 0.001953125, "result": encs[5].F(0.001953125)})
	c02ColorTypes(r)
}

func c02Thorough(r *core.Run, encs []c02Enc, seen []*c02Seen) {
	r.Exhaustive = true
	const one = 0x3F800000
	const chunk = 1 << 18
	nchunks := (one + 1 + chunk - 1) / chunk
	for ei := range encs {
		e := &encs[ei]
		var mu sync.Mutex
		core.ParallelFor(nchunks, 16, func(ci int) {
			local := newSeen(int(e.Max))
			start := uint32(ci * chunk)
			end := start + chunk
			if end > one+1 {
				end = one + 1
			}
			prevR := -1
			var cur uint32
			defer func() {
				if p := recover(); p != nil {
					x := math.Float32frombits(cur)
					r.Violate("point", e.Name+"/panic", fmt.Sprintf("%s(%v) panicked: %v", e.Name, x, p), c02Case{e.Name, cur, fmt.Sprint(x), 0})
				}
			}()
			if start > 0 {
				prevR = e.F(math.Float32frombits(start - 1))
			}
			for b := start; b < end; b++ {
				cur = b
				x := math.Float32frombits(b)
				res := e.F(x)
				lo, hi := c02Bounds(e, float64(x), 0)
				if float64(res) < lo || float64(res) > hi {
					r.Violate("point", e.Name+"/accuracy", fmt.Sprintf("%s(%.9g [bits %#08x]) = %d, law allows [%.4f, %.4f]", e.Name, x, b, res, lo, hi), c02Case{e.Name, b, fmt.Sprint(x), 0})
				}
				if res < prevR {
					r.Violate("monotone", e.Name+"/monotone", fmt.Sprintf("%s decreases from %d to %d at %.9g", e.Name, prevR, res, x), c02Case{e.Name, b, fmt.Sprint(x), b - 1})
				}
				prevR = res
				if b > 0 && b < one {
					local.set(res, c02Side(e, x))
				}
			}
			r.AddEvals(int64(end - start))
			mu.Lock()
			seen[ei].merge(local)
			mu.Unlock()
		})
		// out-of-range: 2^23 patterns above 1 and 2^23 below 0 (stratified), all NaN payloads of one sign
		core.ParallelFor(64, 16, func(ci int) {
			var cur uint32
			defer func() {
				if p := recover(); p != nil {
					x := math.Float32frombits(cur)
					r.Violate("point", e.Name+"/panic", fmt.Sprintf("%s(%v [bits %#08x]) panicked: %v", e.Name, x, cur, p), c02Case{e.Name, cur, fmt.Sprint(x), 0})
				}
			}()
			n := int64(0)
			// (1, +Inf]: 0x3F800001..0x7F800000 ; stride to get 2^23 samples
			span := uint32(0x7F800000 - one)
			per := uint32(1 << 17)
			for k := uint32(0); k < per; k++ {
				idx := uint32(ci)*per + k
				b := one + 1 + uint32(uint64(idx)*uint64(span-1)/uint64(64*per))
				cur = b
				if res := e.F(math.Float32frombits(b)); float64(res) != e.Max {
					r.Violate("point", e.Name+"/clip", fmt.Sprintf("%s(%v) = %d, want %v", e.Name, math.Float32frombits(b), res, e.Max), c02Case{e.Name, b, fmt.Sprint(math.Float32frombits(b)), 0})
				}
				nb := 0x80000000 | uint32(uint64(idx)*uint64(0x7F800000)/uint64(64*per))
				cur = nb
				if res := e.F(math.Float32frombits(nb)); res != 0 {
					r.Violate("point", e.Name+"/clip", fmt.Sprintf("%s(%v) = %d, want 0", e.Name, math.Float32frombits(nb), res), c02Case{e.Name, nb, fmt.Sprint(math.Float32frombits(nb)), 0})
				}
				nan := 0x7F800001 + idx%0x7FFFFF
				cur = nan
				_ = e.F(math.Float32frombits(nan))
				n += 3
			}
			r.AddEvals(n)
		})
	}
}

// ---- through the colour types ------------------------------------------------

type c02ColorCase struct {
	Space string     `json:"space"`
	Entry string     `json:"entry"`
	RGB   [3]float32 `json:"rgb"`
	Alpha float32    `json:"alpha"`
	In16  [4]uint16  `json:"in16,omitempty"`
}

// The floats travel as bit patterns (a NaN alpha or an infinite channel has no JSON number) with a
// readable rendering next to them.
func (c c02ColorCase) MarshalJSON() ([]byte, error) {
	return json.Marshal(map[string]any{
		"space": c.Space, "entry": c.Entry, "in16": c.In16,
		"rgb_bits":   [3]uint32{math.Float32bits(c.RGB[0]), math.Float32bits(c.RGB[1]), math.Float32bits(c.RGB[2])},
		"alpha_bits": math.Float32bits(c.Alpha),
		"rgb_alpha":  fmt.Sprintf("%v %v", c.RGB, c.Alpha),
	})
}

func (c *c02ColorCase) UnmarshalJSON(b []byte) error {
	var w struct {
		Space string    `json:"space"`
		Entry string    `json:"entry"`
		In16  [4]uint16 `json:"in16"`
		RGB   [3]uint32 `json:"rgb_bits"`
		Alpha uint32    `json:"alpha_bits"`
	}
	if err := json.Unmarshal(b, &w); err != nil {
		return err
	}
	c.Space, c.Entry, c.In16 = w.Space, w.Entry, w.In16
	c.RGB = [3]float32{math.Float32frombits(w.RGB[0]), math.Float32frombits(w.RGB[1]), math.Float32frombits(w.RGB[2])}
	c.Alpha = math.Float32frombits(w.Alpha)
	return nil
}

func c02ColorEnc(s *libSpace, bits int) *c02Enc {
	if bits == 8 {
		return &c02Enc{s.Name + ".8", 255, 511, s.Ref.Curve.OETF, nil}
	}
	return &c02Enc{s.Name + ".16", 65535, 65535, s.Ref.Curve.OETF, nil}
}

func c02InLaw(e *c02Enc, x float32, got int, extra float64) bool {
	if x != x {
		return true
	}
	lo, hi := c02Bounds(e, float64(x), extra)
	return float64(got) >= lo && float64(got) <= hi
}

func c02CheckColor(cs c02ColorCase) (bad bool, msg string) {
	s := spaceByName(cs.Space)
	defer func() {
		if p := recover(); p != nil {
			bad, msg = true, fmt.Sprintf("%s %s panicked on %+v: %v", cs.Space, cs.Entry, cs, p)
		}
	}()
	c := linear.RGB{R: cs.RGB[0], G: cs.RGB[1], B: cs.RGB[2]}
	a := cs.Alpha
	q8 := &c02Enc{"q8", 255, 0, nil, nil}
	q16 := &c02Enc{"q16", 65535, 0, nil, nil}
	e8, e16 := c02ColorEnc(s, 8), c02ColorEnc(s, 16)
	switch cs.Entry {
	case "ToNRGBA":
		o := s.ToNRGBA(c, a)
		if !c02InLaw(e8, c.R, int(o.R), 0) || !c02InLaw(e8, c.G, int(o.G), 0) || !c02InLaw(e8, c.B, int(o.B), 0) || !c02InLaw(q8, a, int(o.A), 0) {
			return true, fmt.Sprintf("%s Color%v.ToNRGBA(%v) = %v outside the encoder law", cs.Space, cs.RGB, a, o)
		}
	case "ToRGBA":
		o := s.ToRGBA(c, a)
		if !c02InLaw(e8, c.R*a, int(o.R), 0) || !c02InLaw(e8, c.G*a, int(o.G), 0) || !c02InLaw(e8, c.B*a, int(o.B), 0) || !c02InLaw(q8, a, int(o.A), 0) {
			return true, fmt.Sprintf("%s Color%v.ToRGBA(%v) = %v outside the encoder law applied to c*alpha", cs.Space, cs.RGB, a, o)
		}
	case "ToRGBA64":
		o := s.ToRGBA64(c, a)
		if !c02InLaw(e16, c.R*a, int(o.R), 0) || !c02InLaw(e16, c.G*a, int(o.G), 0) || !c02InLaw(e16, c.B*a, int(o.B), 0) || !c02InLaw(q16, a, int(o.A), 0) {
			return true, fmt.Sprintf("%s Color%v.ToRGBA64(%v) = %v outside the encoder law applied to c*alpha", cs.Space, cs.RGB, a, o)
		}
	case "EncodeColor":
		in := color.RGBA64{R: cs.In16[0], G: cs.In16[1], B: cs.In16[2], A: cs.In16[3]}
		o := s.Encode(in)
		if in.A == 0 {
			if o != (color.RGBA64{}) {
				return true, fmt.Sprintf("%s EncodeColor(%v) = %v, want zero for a transparent pixel", cs.Space, in, o)
			}
			return false, "ok"
		}
		chk := func(v, got uint16) bool {
			x := float64(v) / 65535
			// the public contract divides by alpha and multiplies back in float32: 4 roundings
			lo, hi := c02Bounds(e16, x, x/(1<<21))
			return float64(got) >= lo && float64(got) <= hi
		}
		if !chk(in.R, o.R) || !chk(in.G, o.G) || !chk(in.B, o.B) {
			return true, fmt.Sprintf("%s EncodeColor(%v) = %v outside the encoder law", cs.Space, in, o)
		}
	}
	return false, "ok"
}

func c02ColorTypes(r *core.Run) {
	vals := make([]float32, 33)
	for i := range vals {
		vals[i] = float32(-0.125 + float64(i)*1.25/32)
	}
	vals[4] = 0
	vals[32] = 1
	alphas := []float32{-0.5, 0, 1.0 / 1024, 0.0019, 0.25, 0.5, 0.75, 1, 1.0001, 1.5, 1e6, float32(math.NaN())}
	rng := core.NewRNG(r.Seed, "C02", "colour")
	// jitter the lattice by the seed so different seeds see different points
	jit := float32(rng.Uniform(0, 1.0/64))
	for i := range vals {
		if vals[i] != 0 && vals[i] != 1 {
			vals[i] += jit
		}
	}
	// channels at the ends of float32 (the largest finite value, both infinities, the smallest
	// denormal) next to ordinary ones: clipping applies to them like to any other value
	{
		inf := float32(math.Inf(1))
		ends := []float32{inf, -inf, math.MaxFloat32, -math.MaxFloat32, 1e-45, -1e-45, 0.5, 0, 1}
		var n int64
		for _, s := range libSpaces {
			for _, x := range ends {
				for _, y := range ends {
					for _, rgb := range [][3]float32{{x, y, 0.25}, {0.75, x, y}, {y, 0.5, x}} {
						for _, a := range []float32{1, 0.5, 1.0 / 1024} {
							for _, entry := range []string{"ToNRGBA", "ToRGBA", "ToRGBA64"} {
								cs := c02ColorCase{Space: s.Name, Entry: entry, RGB: rgb, Alpha: a}
								n++
								if bad, msg := c02CheckColor(cs); bad {
									r.Violate("colour", s.Name+"/"+entry+"/ends-of-float32", msg, cs)
								}
							}
						}
					}
				}
			}
		}
		r.AddEvals(n)
		r.NTCount(n)
	}
	a16 := []uint16{0, 1, 2, 255, 256, 257, 32767, 32768, 65534, 65535, uint16(rng.Intn(65536)), uint16(rng.Intn(65536))}
	core.ParallelFor(len(libSpaces)*33, 16, func(job int) {
		s := libSpaces[job/33]
		ri := job % 33
		var evals, nt int64
		for gi := 0; gi < 33; gi++ {
			for bi := 0; bi < 33; bi++ {
				rgb := [3]float32{vals[ri], vals[gi], vals[bi]}
				inside := (rgb[0] > 0 && rgb[0] < 1) || (rgb[1] > 0 && rgb[1] < 1) || (rgb[2] > 0 && rgb[2] < 1)
				for _, a := range alphas {
					for _, entry := range []string{"ToNRGBA", "ToRGBA", "ToRGBA64"} {
						cs := c02ColorCase{Space: s.Name, Entry: entry, RGB: rgb, Alpha: a}
						if bad, msg := c02CheckColor(cs); bad {
							r.Violate("colour", s.Name+"/"+entry, msg, cs)
						}
						evals++
						if inside && a > 0 && a == a {
							nt++
						}
					}
				}
			}
		}
		// EncodeColor over premultiplied 16-bit inputs
		for _, a := range a16 {
			for gi := 0; gi < 33; gi++ {
				for bi := 0; bi < 33; bi += 4 {
					in := [4]uint16{uint16(uint32(a) * uint32(ri) / 32), uint16(uint32(a) * uint32(gi) / 32), uint16(uint32(a) * uint32(bi) / 32), a}
					cs := c02ColorCase{Space: s.Name, Entry: "EncodeColor", In16: in}
					if bad, msg := c02CheckColor(cs); bad {
						r.Violate("colour", s.Name+"/EncodeColor", msg, cs)
					}
					evals++
					if a > 0 && ri > 0 && ri < 32 {
						nt++
					}
				}
			}
		}
		r.AddEvals(evals)
		r.NTCount(nt)
	})
}

func replayC02(stage string, raw json.RawMessage) (bool, string, error) {
	if stage == "colour" {
		var cs c02ColorCase
		if err := json.Unmarshal(raw, &cs); err != nil {
			return false, "", err
		}
		bad, msg := c02CheckColor(cs)
		return bad, msg, nil
	}
	var cs c02Case
	if err := json.Unmarshal(raw, &cs); err != nil {
		return false, "", err
	}
	for _, e := range c02Encoders() {
		if e.Name != cs.Encoder {
			continue
		}
		x := math.Float32frombits(cs.Bits)
		if stage == "monotone" {
			p := math.Float32frombits(cs.Prev)
			r1, p1 := c02Call(&e, x)
			r0, p0 := c02Call(&e, p)
			if p1 != nil || p0 != nil {
				return true, "panic", nil
			}
			return r1 < r0, fmt.Sprintf("%s(%.9g)=%d, %s(%.9g)=%d", e.Name, p, r0, e.Name, x, r1), nil
		}
		bad, _, msg, _ := c02CheckPoint(&e, x)
		return bad, msg, nil
	}
	return false, "", fmt.Errorf("unknown encoder %q", cs.Encoder)
}

func init() {
	core.Register(&core.Property{ID: "C02", Level: "exploration", Run: runC02, Replay: replayC02, Child: variantChild("C02", "exploration", runC02)})
}
