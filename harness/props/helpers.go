package props

import (
	"errors"
	"fmt"
	"image/color"
	"io"
	"math"
	"os"
	"syscall"

	"verifharness/internal/core"
	"verifharness/internal/refcolor"
	"verifharness/internal/src"
)

// Helpers shared by several property drivers. They live in an untagged file: each cNN.go carries a
// build constraint so that ./check <Cnn> compiles only the drivers that property needs (a change to
// the library's API that breaks one driver's compilation must not take the other checks down).

func mix(h uint64, v uint64) uint64 {
	h ^= v + 0x9E3779B97F4A7C15 + (h << 6) + (h >> 2)
	return h
}

func firstDiff(got, want []byte) string {
	n := len(got)
	if len(want) < n {
		n = len(want)
	}
	for i := 0; i < n; i++ {
		if got[i] != want[i] {
			return fmt.Sprintf("differ from the embedded bytes at offset %d (%#02x vs %#02x)", i, got[i], want[i])
		}
	}
	if len(got) != len(want) {
		return fmt.Sprintf("equal the embedded bytes only up to offset %d (lengths %d vs %d)", n, len(got), len(want))
	}
	return "equal the embedded bytes"
}

func truncate(s string, n int) string {
	if len(s) > n {
		return s[:n] + "..."
	}
	return s
}

func c10Hash(c color.Color) color.RGBA64 {
	r, g, b, a := c.RGBA()
	h := uint64(r)*0x9E3779B97F4A7C15 ^ uint64(g)*0xC2B2AE3D27D4EB4F ^ uint64(b)*0x165667B19E3779F9 ^ uint64(a)*0x27D4EB2F165667C5
	h ^= h >> 29
	h *= 0xBF58476D1CE4E5B9
	h ^= h >> 32
	A := uint16(h)
	if A == 0 {
		A = 1
	}
	return color.RGBA64{R: uint16((h >> 16) % (uint64(A) + 1)), G: uint16((h >> 32) % (uint64(A) + 1)), B: uint16((h >> 48) % (uint64(A) + 1)), A: A}
}

// c10Typed is a per-colour function whose result depends on the concrete colour it is handed (its
// type and its own fields - the straight channels of a color.NRGBA, the Y/Cb/Cr of a color.YCbCr),
// not only on what RGBA() reports: the function is to be applied to the colour the source's At returns.
func c10Typed(c color.Color) color.RGBA64 {
	h := fnv64([]byte(fmt.Sprintf("%T|%v", c, c)))
	h ^= h >> 29
	h *= 0xBF58476D1CE4E5B9
	h ^= h >> 32
	A := uint16(h) | 1
	return color.RGBA64{R: uint16((h >> 16) % (uint64(A) + 1)), G: uint16((h >> 32) % (uint64(A) + 1)), B: uint16((h >> 48) % (uint64(A) + 1)), A: A}
}

func finite3(a, b, c float32) bool {
	for _, v := range []float32{a, b, c} {
		f := float64(v)
		if math.IsNaN(f) || math.IsInf(f, 0) {
			return false
		}
	}
	return true
}

// c10Races turns race reports into violations (shared with C11/C15).
func c10Races(r *core.Run, reports []core.RaceReport, stage string) {
	for _, rep := range reports {
		if rep.PrismIn {
			r.Violate("race", "race: "+rep.Sig, "data race reported by the Go race detector:\n"+truncate(rep.Text, 3000), map[string]any{"race_signature": rep.Sig, "stage": stage})
		} else {
			r.Inconclusive("race report without a prism frame (harness race?): " + rep.Sig)
		}
	}
}

func c08Source(data []byte, schedule string, seed uint64) *src.Source {
	s := src.New(data)
	rg := core.NewRNG(int64(seed>>1), "c08sched")
	switch schedule {
	case "all":
	case "data+eof":
		s.DataWithEnd()
	case "1+data+eof":
		s.Sizes(1).DataWithEnd()
	case "4096+data+eof":
		s.Sizes(4096).DataWithEnd()
	case "zero-nil": // every other Read returns (0, nil), the others up to 7 bytes
		s.Sizes(7).ZeroNil(2)
	case "zero-nil-3+all":
		s.ZeroNil(3)
	case "random17":
		s.Random(17, rg.Intn)
	case "random5000":
		s.Random(5000, rg.Intn)
	default:
		var n int
		fmt.Sscanf(schedule, "%d", &n)
		s.Sizes(n)
	}
	return s
}

func sumStr(s mdSummary) string {
	if s.Panic != "" {
		return "panic(" + s.Panic + ")"
	}
	if !s.OK {
		return "error(" + s.ErrText + ")"
	}
	return fmt.Sprintf("{%s %dx%d depth %d icc=%d bytes hash %x iccErr=%v}", s.Format, s.W, s.H, s.Depth, s.ICCLen, s.ICCHash, s.ICCErr)
}

func c17Text(rng *core.RNG, kind string, n int) []uint16 {
	var u []uint16
	for len(u) < n {
		switch kind {
		case "ascii":
			u = append(u, uint16(32+rng.Intn(95)))
		case "bmp":
			c := uint16(0x00A0 + rng.Intn(0xD000))
			u = append(u, c)
		case "hi00": // code points of the form U+xx00 (U+0100, U+3000, U+4E00 ...): the second byte of every unit is zero
			hi := 1 + rng.Intn(0xD7)
			u = append(u, uint16(hi)<<8)
		case "bom": // starts with U+FEFF (a legal character of the string, not a byte order mark to strip)
			if len(u) == 0 {
				u = append(u, 0xFEFF)
			} else {
				u = append(u, uint16(32+rng.Intn(95)))
			}
		case "latin1": // every code point below U+0100, some of them above U+007F
			c := uint16(0x20 + rng.Intn(0x5F))
			if rng.Intn(3) == 0 || len(u) == 0 {
				c = uint16(0xA1 + rng.Intn(0x5E))
			}
			u = append(u, c)
		case "astral":
			if (rng.Intn(3) == 0 || len(u)%1024 == 1023 || len(u)%1024 == 1022) && len(u)+2 <= n {
				cp := 0x10000 + rng.Intn(0xFFFFF)
				cp -= 0x10000
				u = append(u, uint16(0xD800+cp>>10), uint16(0xDC00+cp&0x3ff))
			} else {
				u = append(u, uint16(0x3040+rng.Intn(0x100)))
			}
		}
	}
	return u
}

func c04DeclXY(s *libSpace) (r, g, b, w refcolor.XY) {
	f := func(c func() (x, y float32)) refcolor.XY {
		x, y := c()
		return refcolor.XY{X: float64(x), Y: float64(y)}
	}
	r = f(func() (float32, float32) { c := s.PR(); return c.X, c.Y })
	g = f(func() (float32, float32) { c := s.PG(); return c.X, c.Y })
	b = f(func() (float32, float32) { c := s.PB(); return c.X, c.Y })
	w = f(func() (float32, float32) { c := s.White(); return c.X, c.Y })
	return
}

// shortByteReader is a hand-written binary.Reader that returns short counts.
type shortByteReader struct{ s *src.Source }

func (r shortByteReader) Read(p []byte) (int, error) { return r.s.Read(p) }
func (r shortByteReader) ReadByte() (byte, error) {
	var b [1]byte
	for {
		n, err := r.s.Read(b[:])
		if n == 1 {
			return b[0], nil
		}
		if err != nil {
			return 0, err
		}
	}
}

func sortInts(a []int) {
	for i := 1; i < len(a); i++ {
		for j := i; j > 0 && a[j] < a[j-1]; j-- {
			a[j], a[j-1] = a[j-1], a[j]
		}
	}
}

// boundedBuf is an io.Writer that stops accepting data beyond a limit (keeps the read-out bounded).
type boundedBuf struct {
	b     []byte
	limit int64
	over  bool
}

var errBoundedBuf = errors.New("read-out limit reached")

func (w *boundedBuf) Write(p []byte) (int, error) {
	if int64(len(w.b)+len(p)) > w.limit {
		w.over = true
		return 0, errBoundedBuf
	}
	w.b = append(w.b, p...)
	return len(p), nil
}

var errWrappedEOF = fmt.Errorf("reading body: %w", io.EOF)
var errWrappedUnexpected = fmt.Errorf("reading body: %w", io.ErrUnexpectedEOF)

func c07Err(kind string) error {
	switch kind {
	case "io.ErrUnexpectedEOF":
		return io.ErrUnexpectedEOF
	case "wrapped io.ErrUnexpectedEOF":
		return errWrappedUnexpected
	case "wrapped io.EOF":
		return errWrappedEOF
	case "io.ErrClosedPipe":
		return io.ErrClosedPipe
	case "EINTR": // an errno a retry wrapper might want to "handle"; here it is the source's final, sticky error
		return syscall.EINTR
	case "EAGAIN":
		return syscall.EAGAIN
	case "os.ErrDeadlineExceeded":
		return os.ErrDeadlineExceeded
	}
	return src.ErrInjected
}
