//go:build all || c12 || c20

package props

import (
	"encoding/json"
	"fmt"
	"math"
	"strings"
	"sync/atomic"
	"time"

	"github.com/mandykoh/prism/ciexyy"
	"github.com/mandykoh/prism/ciexyz"
	"github.com/mandykoh/prism/matrix"

	"verifharness/internal/core"
	"verifharness/internal/refcolor"
)

// C12 — chromatic adaptation maps white to white and composes.

type c12Case struct {
	Kind   string       `json:"kind"`
	Whites [][2]float32 `json:"whites_xy,omitempty"`
	XYZ    [][3]float32 `json:"whites_xyz,omitempty"`
	Colour *[3]float32  `json:"colour,omitempty"`
}

func libMat(m matrix.Matrix3) refcolor.Mat { // column-major -> row-major
	var o refcolor.Mat
	for c := 0; c < 3; c++ {
		for rw := 0; rw < 3; rw++ {
			o[rw][c] = m[c][rw]
		}
	}
	return o
}

func toLibMat(m refcolor.Mat) matrix.Matrix3 {
	var o matrix.Matrix3
	for c := 0; c < 3; c++ {
		for rw := 0; rw < 3; rw++ {
			o[c][rw] = m[rw][c]
		}
	}
	return o
}

func xyzVec(c ciexyz.Color) refcolor.Vec {
	return refcolor.Vec{float64(c.X), float64(c.Y), float64(c.Z)}
}

// physically valid white: inside the chromaticity triangle with margin and all
// three sharpened cone responses comfortably positive (otherwise the von Kries
// ratios blow up and no adaptation is defined in any meaningful sense).
func c12Valid(x, y float32) bool {
	if !(x > 0 && y > 0.05 && x+y < 0.999) {
		return false
	}
	w := refcolor.XYYToXYZ(float64(x), float64(y), 1)
	c := refcolor.BradfordM.MulV(w)
	// the algebra (white to white, inverse, composition, the matrix itself) is well defined whenever
	// no cone response vanishes; only whites within 1e-3 of that degenerate curve are left out
	return math.Abs(c[0]) >= 1e-3 && math.Abs(c[1]) >= 1e-3 && math.Abs(c[2]) >= 1e-3
}

var c12Illuminants = map[string][2]float32{
	"A": {0.44757, 0.40745}, "B": {0.34842, 0.35161}, "C": {0.31006, 0.31616}, "D50": {0.34567, 0.35850},
	"D55": {0.33242, 0.34743}, "D65": {0.31271, 0.32902}, "D75": {0.29902, 0.31485}, "E": {1.0 / 3, 1.0 / 3},
	"F2": {0.37208, 0.37529}, "F7": {0.31292, 0.32933}, "F11": {0.38052, 0.37713},
}

// Planckian locus (Kim et al. cubic-spline approximation, 1667 K - 25000 K).
func planckXY(T float64) (float32, float32) {
	var x float64
	if T <= 4000 {
		x = -0.2661239e9/(T*T*T) - 0.2343589e6/(T*T) + 0.8776956e3/T + 0.179910
	} else {
		x = -3.0258469e9/(T*T*T) + 2.1070379e6/(T*T) + 0.2226347e3/T + 0.240390
	}
	var y float64
	switch {
	case T <= 2222:
		y = -1.1063814*x*x*x - 1.34811020*x*x + 2.18555832*x - 0.20219683
	case T <= 4000:
		y = -0.9549476*x*x*x - 1.37418593*x*x + 2.09137015*x - 0.16748867
	default:
		y = 3.0817580*x*x*x - 5.87338670*x*x + 3.75112997*x - 0.37001483
	}
	return float32(x), float32(y)
}

// CIE daylight locus 4000 K - 25000 K.
func daylightXY(T float64) (float32, float32) {
	var x float64
	if T <= 7000 {
		x = -4.6070e9/(T*T*T) + 2.9678e6/(T*T) + 0.09911e3/T + 0.244063
	} else {
		x = -2.0064e9/(T*T*T) + 1.9018e6/(T*T) + 0.24748e3/T + 0.237040
	}
	y := -3.000*x*x + 2.870*x - 0.275
	return float32(x), float32(y)
}

func c12Whites(r *core.Run, grid int) (ws [][2]float32, skipped int) {
	for _, k := range []string{"A", "B", "C", "D50", "D55", "D65", "D75", "E", "F2", "F7", "F11"} {
		ws = append(ws, c12Illuminants[k])
	}
	for i := 0; i < 64; i++ {
		T := 2000 * math.Pow(25000.0/2000.0, float64(i)/63)
		x, y := planckXY(T)
		ws = append(ws, [2]float32{x, y})
		if T >= 4000 {
			x, y = daylightXY(T)
			ws = append(ws, [2]float32{x, y})
		}
	}
	rng := core.NewRNG(r.Seed, "C12", "grid")
	jx, jy := float32(rng.Uniform(0, 0.3/float64(grid))), float32(rng.Uniform(0, 0.3/float64(grid)))
	for i := 0; i < grid; i++ {
		for j := 0; j < grid; j++ {
			x := 0.2 + 0.3*float32(i)/float32(grid) + jx
			y := 0.2 + 0.3*float32(j)/float32(grid) + jy
			ws = append(ws, [2]float32{x, y})
		}
	}
	var out [][2]float32
	for _, w := range ws {
		if c12Valid(w[0], w[1]) {
			out = append(out, w)
		} else {
			skipped++
		}
	}
	return out, skipped
}

func xyy(w [2]float32) ciexyy.Color { return ciexyy.Color{X: w[0], Y: w[1], YY: 1} }

// colours put through Apply: in and out of range, mixed signs (components summing to zero or
// having a zero component included), single axes, tiny and large
var c12Colours = [][3]float32{{1, 1, 1}, {0.2, 0.7, 0.1}, {-0.5, 2, 0.3}, {0.9505, 1, 1.089},
	{1, -1, 0}, {0, 1, -1}, {0.5, -0.25, -0.25}, {-1, 0, 1}, {1, 0, 0}, {0, 1, 0}, {0, 0, 1}, {0, 0.5, 0.5},
	{1e-7, 2e-7, 3e-7}, {-1e-5, 1e-5, 0}, {300, 200, 100}, {-2, -3, -4}}

func c12Call[T any](f func() T) (v T, pan any) {
	defer func() {
		if p := recover(); p != nil {
			pan = p
		}
	}()
	return f(), nil
}

// c12Pair checks everything that involves one ordered pair.
func c12Pair(a, b [2]float32) (kind, msg string, werr, merr float64) {
	A, B := xyy(a), xyy(b)
	caV, pan := c12Call(func() ciexyz.ChromaticAdaptation { return ciexyz.AdaptBetweenXYYWhitePoints(A, B) })
	if pan != nil {
		return "panic", fmt.Sprintf("AdaptBetweenXYYWhitePoints(%v,%v) panicked: %v", a, b, pan), 0, 0
	}
	aX, bX := ciexyz.ColorFromXYY(A), ciexyz.ColorFromXYY(B)
	// the xyY -> XYZ step itself
	for _, t := range []struct {
		w [2]float32
		g ciexyz.Color
	}{{a, aX}, {b, bX}} {
		ref := refcolor.XYYToXYZ(float64(t.w[0]), float64(t.w[1]), 1)
		g := xyzVec(t.g)
		for i := 0; i < 3; i++ {
			if !(math.Abs(g[i]-ref[i]) <= 1e-6*math.Max(1, math.Abs(ref[i]))) {
				return "xyy-to-xyz", fmt.Sprintf("ColorFromXYY(%v) = %v, definition gives %v", t.w, t.g, ref), 0, 0
			}
		}
	}
	// ... and with a luminance other than 1 (Y scales X and Z alike)
	for _, yy := range []float32{0.18, 0.5, 2.5} {
		g := xyzVec(ciexyz.ColorFromXYY(ciexyy.Color{X: a[0], Y: a[1], YY: yy}))
		ref := refcolor.XYYToXYZ(float64(a[0]), float64(a[1]), float64(yy))
		for i := 0; i < 3; i++ {
			if !(math.Abs(g[i]-ref[i]) <= 1e-6*math.Max(1, math.Abs(ref[i]))) {
				return "xyy-to-xyz", fmt.Sprintf("ColorFromXYY(%v with Y=%v) = %v, definition gives %v", a, yy, g, ref), 0, 0
			}
		}
	}
	// the xyY constructor with whites of unequal luminance (a media white below 1, say) must still
	// be the XYZ constructor applied to the corresponding XYZ whites
	{
		Ay, By := ciexyy.Color{X: a[0], Y: a[1], YY: 0.85}, ciexyy.Color{X: b[0], Y: b[1], YY: 1.1}
		cv, pan := c12Call(func() ciexyz.ChromaticAdaptation { return ciexyz.AdaptBetweenXYYWhitePoints(Ay, By) })
		if pan != nil {
			return "panic", fmt.Sprintf("AdaptBetweenXYYWhitePoints with luminances 0.85/1.1 panicked: %v", pan), 0, 0
		}
		ax, bx := ciexyz.ColorFromXYY(Ay), ciexyz.ColorFromXYY(By)
		cz := ciexyz.AdaptBetweenXYZWhitePoints(ax, bx)
		mv, mzz := libMat(matrix.Matrix3(cv)), libMat(matrix.Matrix3(cz))
		if d := mv.MaxAbsDiff(mzz); !(d <= 1e-9*math.Max(1, mv.NormInf())) {
			return "constructors-luminance", fmt.Sprintf("xyY constructor (%v Y=0.85 -> %v Y=1.1) and XYZ constructor on the same whites disagree by %.3g", a, b, d), 0, 0
		}
		got, want := xyzVec(cv.Apply(ax)), xyzVec(bx)
		for i := 0; i < 3; i++ {
			if !(math.Abs(got[i]-want[i]) <= 1e-6*math.Max(1, math.Abs(want[i]))) {
				return "white-luminance", fmt.Sprintf("adaptation %v (Y=0.85) -> %v (Y=1.1) maps the source white to %v, destination white is %v", a, b, got, want), 0, 0
			}
		}
	}
	caZ := ciexyz.AdaptBetweenXYZWhitePoints(aX, bX)
	m, mz := libMat(matrix.Matrix3(caV)), libMat(matrix.Matrix3(caZ))
	if d := m.MaxAbsDiff(mz); !(d <= 1e-9*math.Max(1, m.NormInf())) {
		return "constructors", fmt.Sprintf("xyY and XYZ constructors disagree for %v -> %v by %.3g", a, b, d), 0, 0
	}
	ref := refcolor.Bradford(xyzVec(aX), xyzVec(bX))
	merr = m.MaxAbsDiff(ref)
	if !(merr <= 1e-6) {
		return "matrix", fmt.Sprintf("adaptation %v -> %v differs from the float64 Bradford matrix by %.3g\n got %v\n ref %v", a, b, merr, m, ref), 0, merr
	}
	// white maps to white
	got := xyzVec(caV.Apply(aX))
	want := xyzVec(bX)
	for i := 0; i < 3; i++ {
		d := math.Abs(got[i] - want[i])
		if d > werr {
			werr = d
		}
		if !(d <= 1e-6*math.Max(1, math.Abs(want[i]))) {
			return "white", fmt.Sprintf("adaptation %v -> %v maps the source white to %v, destination white is %v", a, b, got, want), werr, merr
		}
	}
	// Apply is the linear map of the matrix
	for _, c := range c12Colours {
		o := xyzVec(caV.Apply(ciexyz.Color{X: c[0], Y: c[1], Z: c[2]}))
		lin := m.MulV(refcolor.Vec{float64(c[0]), float64(c[1]), float64(c[2])})
		cmax := math.Max(1, math.Max(math.Abs(float64(c[0])), math.Max(math.Abs(float64(c[1])), math.Abs(float64(c[2])))))
		for i := 0; i < 3; i++ {
			// float32 arithmetic: the error scales with the size of the colour and of the matrix
			if !(math.Abs(o[i]-lin[i]) <= 1e-6*cmax*math.Max(1, m.NormInf()*2)) {
				return "apply-linear", fmt.Sprintf("adaptation %v -> %v: Apply(%v) = %v, matrix times colour = %v", a, b, c, o, lin), werr, merr
			}
		}
	}
	// B -> A undoes A -> B
	back := libMat(matrix.Matrix3(ciexyz.AdaptBetweenXYYWhitePoints(B, A)))
	if d := back.Mul(m).MaxAbsDiff(refcolor.Identity()); !(d <= 1e-9*math.Max(1, back.NormInf()*m.NormInf())) {
		return "inverse", fmt.Sprintf("(%v -> %v) after (%v -> %v) differs from the identity by %.3g", b, a, a, b, d), werr, merr
	}
	if a == b {
		if d := m.MaxAbsDiff(refcolor.Identity()); !(d <= 1e-9) {
			return "identity", fmt.Sprintf("adapting %v to itself differs from the identity by %.3g", a, d), werr, merr
		}
	}
	return "", "ok", werr, merr
}

// c12PairXYZ checks the XYZ constructor on arbitrary positive XYZ whites
// (including unequal luminance and nearly coincident whites).
func c12PairXYZ(a, b [3]float32) (kind, msg string) {
	aX, bX := ciexyz.Color{X: a[0], Y: a[1], Z: a[2]}, ciexyz.Color{X: b[0], Y: b[1], Z: b[2]}
	ca, pan := c12Call(func() ciexyz.ChromaticAdaptation { return ciexyz.AdaptBetweenXYZWhitePoints(aX, bX) })
	if pan != nil {
		return "panic", fmt.Sprintf("AdaptBetweenXYZWhitePoints(%v,%v) panicked: %v", a, b, pan)
	}
	m := libMat(matrix.Matrix3(ca))
	ref := refcolor.Bradford(xyzVec(aX), xyzVec(bX))
	if d := m.MaxAbsDiff(ref); !(d <= 1e-6*math.Max(1, ref.NormInf())) {
		return "matrix-xyz", fmt.Sprintf("XYZ adaptation %v -> %v differs from the float64 Bradford matrix by %.3g\n got %v\n ref %v", a, b, d, m, ref)
	}
	got, want := xyzVec(ca.Apply(aX)), xyzVec(bX)
	for i := 0; i < 3; i++ {
		if !(math.Abs(got[i]-want[i]) <= 1e-6*math.Max(1, math.Abs(want[i]))) {
			return "white-xyz", fmt.Sprintf("XYZ adaptation %v -> %v maps the source white to %v", a, b, got)
		}
	}
	back := libMat(matrix.Matrix3(ciexyz.AdaptBetweenXYZWhitePoints(bX, aX)))
	if d := back.Mul(m).MaxAbsDiff(refcolor.Identity()); !(d <= 1e-9*math.Max(1, back.NormInf()*m.NormInf())) {
		return "inverse-xyz", fmt.Sprintf("XYZ (%v -> %v) after (%v -> %v) differs from the identity by %.3g", b, a, a, b, d)
	}
	return "", "ok"
}

// c12PairXYYLum checks the xyY constructor on whites of arbitrary luminance against the float64
// Bradford matrix of the corresponding XYZ whites.
func c12PairXYYLum(a, b ciexyy.Color) (kind, msg string) {
	ca, pan := c12Call(func() ciexyz.ChromaticAdaptation { return ciexyz.AdaptBetweenXYYWhitePoints(a, b) })
	if pan != nil {
		return "panic", fmt.Sprintf("AdaptBetweenXYYWhitePoints(%v,%v) panicked: %v", a, b, pan)
	}
	m := libMat(matrix.Matrix3(ca))
	av := refcolor.XYYToXYZ(float64(a.X), float64(a.Y), float64(a.YY))
	bv := refcolor.XYYToXYZ(float64(b.X), float64(b.Y), float64(b.YY))
	ref := refcolor.Bradford(av, bv)
	// the library goes through float32 XYZ whites: 3e-7 relative on each white
	if d := m.MaxAbsDiff(ref); !(d <= 2e-6*math.Max(1, ref.NormInf())) {
		return "matrix-xyy", fmt.Sprintf("xyY adaptation %v -> %v differs from the float64 Bradford matrix by %.3g\n got %v\n ref %v", a, b, d, m, ref)
	}
	return "", "ok"
}

func c12Triple(a, b, c [2]float32) (kind, msg string) {
	ab := libMat(matrix.Matrix3(ciexyz.AdaptBetweenXYYWhitePoints(xyy(a), xyy(b))))
	bc := libMat(matrix.Matrix3(ciexyz.AdaptBetweenXYYWhitePoints(xyy(b), xyy(c))))
	ac := libMat(matrix.Matrix3(ciexyz.AdaptBetweenXYYWhitePoints(xyy(a), xyy(c))))
	if d := bc.Mul(ab).MaxAbsDiff(ac); !(d <= 1e-9*math.Max(1, bc.NormInf()*ab.NormInf())) {
		return "compose", fmt.Sprintf("(%v->%v) then (%v->%v) differs from (%v->%v) by %.3g", a, b, b, c, a, c, d)
	}
	return "", "ok"
}

func runC12(r *core.Run) {
	r.Rule = "white set = 11 CIE illuminants + Planckian/daylight loci 2000-25000 K + seeded-offset chromaticity grid over [0.2,0.5]^2 (16x16 quick, 64x64 thorough) filtered to whites inside the chromaticity diagram whose Bradford cone responses stay 1e-3 away from zero (either sign); all ordered pairs + seeded triples; non-trivial = distinct ordered pairs with A != B (triples: pairwise distinct)"
	r.Assumptions = []string{"published Bradford matrix in refcolor; the float64 reference starts from the same float32 XYZ whites the library's xyY->XYZ step produces, and that step is checked separately against the definition"}
	grid := 16
	ntrip := 2000
	if r.Thorough() {
		grid = 64
		ntrip = 1000000
	}
	// the first adaptations of the process, from eight goroutines at once, between different pairs
	{
		pairs := [][2][2]float32{{c12Illuminants["D65"], c12Illuminants["D50"]}, {c12Illuminants["A"], c12Illuminants["D75"]}, {c12Illuminants["D50"], c12Illuminants["F2"]}, {c12Illuminants["E"], c12Illuminants["C"]}}
		release := func(f func(g int)) { firstUseBurst(8, strings.Contains(r.Variant, "stagger"), f) }
		if fineStep(r.Variant) > 0 {
			release = func(f func(g int)) { firstUseFine(8, fineStep(r.Variant), f) }
		}
		release(func(g int) {
			pr := pairs[g%len(pairs)]
			if kind, msg, _, _ := c12Pair(pr[0], pr[1]); kind != "" {
				r.Violate("pair", kind+"/first-use", msg+" (among the first adaptations of the process, eight goroutines at once)", c12Case{Kind: kind, Whites: [][2]float32{pr[0], pr[1]}})
			}
		})
		r.AddEvals(8)
		if isBurst(r.Variant) {
			return
		}
	}
	ws, skipped := c12Whites(r, grid)
	r.Obs("whites", len(ws))
	r.Obs("grid_points_skipped_as_not_physically_valid", skipped)
	n := len(ws)
	werrs := make([]float64, n)
	merrs := make([]float64, n)
	core.ParallelFor(n, 16, func(i int) {
		var nt int64
		for j := 0; j < n; j++ {
			kind, msg, we, me := c12Pair(ws[i], ws[j])
			if kind != "" {
				r.Violate("pair", kind, msg, c12Case{Kind: kind, Whites: [][2]float32{ws[i], ws[j]}})
			}
			if we > werrs[i] {
				werrs[i] = we
			}
			if me > merrs[i] {
				merrs[i] = me
			}
			if ws[i] != ws[j] {
				nt++
			}
		}
		r.AddEvals(int64(n))
		r.NTCount(nt)
	})
	we, me := 0.0, 0.0
	for i := range werrs {
		we, me = math.Max(we, werrs[i]), math.Max(me, merrs[i])
	}
	r.Obs("max_white_to_white_error", we)
	r.Obs("max_matrix_entry_error_vs_float64_bradford", me)
	// nearly coincident whites (a "close enough, return identity" shortcut must not exist) and
	// arbitrary XYZ whites through the XYZ constructor
	{
		rg := core.NewRNG(r.Seed, "C12", "near")
		var n, nt int64
		for _, w := range ws {
			for _, d := range []float32{1e-7, 3e-7, 1e-6, 1e-5, 3e-5, 1e-4, 3e-4, 1e-3, 3e-3} {
				for _, dir := range [][2]float32{{1, 0}, {0, 1}, {-1, 1}, {1, 1}} {
					b := [2]float32{w[0] + d*dir[0], w[1] + d*dir[1]}
					if b == w || !c12Valid(b[0], b[1]) {
						continue
					}
					n++
					nt++
					if kind, msg, _, _ := c12Pair(w, b); kind != "" {
						r.Violate("pair", kind+"/near", msg, c12Case{Kind: kind, Whites: [][2]float32{w, b}})
					}
				}
			}
			// XYZ constructor: same chromaticity region, luminance 0.5..1.5, plus tiny XYZ perturbations
			ax := ciexyz.ColorFromXYY(ciexyy.Color{X: w[0], Y: w[1], YY: float32(rg.Uniform(0.5, 1.5))})
			w2 := ws[rg.Intn(len(ws))]
			bx := ciexyz.ColorFromXYY(ciexyy.Color{X: w2[0], Y: w2[1], YY: float32(rg.Uniform(0.5, 1.5))})
			a3, b3 := [3]float32{ax.X, ax.Y, ax.Z}, [3]float32{bx.X, bx.Y, bx.Z}
			pairs := [][2][3]float32{{a3, b3}}
			for _, d := range []float32{1e-6, 2e-5, 5e-5, 9e-5, 5e-4} {
				pairs = append(pairs, [2][3]float32{a3, {a3[0] + d, a3[1], a3[2] - d}}, [2][3]float32{a3, {a3[0], a3[1] + d, a3[2]}})
			}
			// the same whites on a 0..100 scale, in every combination with the unit scale
			pairs = append(pairs,
				[2][3]float32{{a3[0] * 100, a3[1] * 100, a3[2] * 100}, b3},
				[2][3]float32{a3, {b3[0] * 100, b3[1] * 100, b3[2] * 100}},
				[2][3]float32{{a3[0] * 100, a3[1] * 100, a3[2] * 100}, {b3[0] * 100, b3[1] * 100, b3[2] * 100}},
				[2][3]float32{{a3[0] * 12, a3[1] * 12, a3[2] * 12}, {b3[0] / 16, b3[1] / 16, b3[2] / 16}})
			for _, pr := range pairs {
				n++
				nt++
				if kind, msg := c12PairXYZ(pr[0], pr[1]); kind != "" {
					r.Violate("pairxyz", kind, msg, c12Case{Kind: kind, XYZ: [][3]float32{pr[0], pr[1]}})
				}
			}
		}
		// whites with a pattern in their components (all three equal - illuminant E given as XYZ -, two
		// equal, exact small integers and halves) against ordinary ones, both ways: a shortcut keyed on
		// such a pattern shows only here
		{
			special := [][3]float32{{1, 1, 1}, {0.5, 0.5, 0.5}, {2, 2, 2}, {100, 100, 100}, {1, 1, 0.5}, {0.5, 1, 1}, {1, 0.5, 1}, {0.9, 1, 0.9}, {1, 1, 1.0000001}, {0.25, 0.5, 0.75}, {3, 2, 1}}
			ordinary := [][3]float32{{0.9642, 1, 0.8251}, {0.95047, 1, 1.08883}, {1.09850, 1, 0.35585}, {0.8, 0.9, 0.4}}
			for _, sp := range special {
				for _, o := range append(append([][3]float32{}, ordinary...), special...) {
					for _, pr := range [][2][3]float32{{sp, o}, {o, sp}} {
						n++
						nt++
						if kind, msg := c12PairXYZ(pr[0], pr[1]); kind != "" {
							r.Violate("pairxyz", kind+"/patterned", msg, c12Case{Kind: kind, XYZ: [][3]float32{pr[0], pr[1]}})
						}
					}
				}
			}
		}
		// a luminance ladder: the library's own D50 / D65 values (and two ordinary whites) against whites
		// 1/4096 to 100 000 times as bright, both ways, through both constructors
		{
			bases := [][3]float32{{ciexyz.D50.X, ciexyz.D50.Y, ciexyz.D50.Z}, {ciexyz.D65.X, ciexyz.D65.Y, ciexyz.D65.Z}, {1.09850, 1, 0.35585}, {0.9, 1, 0.9}}
			for _, f := range []float32{1.0 / 4096, 0.001, 0.01, 0.18, 0.5, 3, 10, 80, 100, 400, 1000, 2000, 4000, 10000, 100000} {
				for bi, base := range bases {
					for oi, o := range bases {
						if oi > 1 && bi > 1 {
							continue
						}
						scaled := [3]float32{o[0] * f, o[1] * f, o[2] * f}
						for _, pr := range [][2][3]float32{{base, scaled}, {scaled, base}} {
							n++
							nt++
							if kind, msg := c12PairXYZ(pr[0], pr[1]); kind != "" {
								r.Violate("pairxyz", kind+"/luminance-ladder", msg, c12Case{Kind: kind, XYZ: [][3]float32{pr[0], pr[1]}})
							}
						}
					}
				}
				for _, pr := range [][2]ciexyy.Color{{ciexyy.D50, {X: ciexyy.D65.X, Y: ciexyy.D65.Y, YY: f}}, {{X: ciexyy.D65.X, Y: ciexyy.D65.Y, YY: f}, ciexyy.D50}, {ciexyy.D65, {X: 0.44757, Y: 0.40745, YY: f}}} {
					n++
					nt++
					if kind, msg := c12PairXYYLum(pr[0], pr[1]); kind != "" {
						r.Violate("pairxyz", kind+"/luminance-ladder", msg, c12Case{Kind: kind, XYZ: [][3]float32{{pr[0].X, pr[0].Y, pr[0].YY}, {pr[1].X, pr[1].Y, pr[1].YY}}})
					}
				}
			}
		}
		// dim whites whose three tristimulus values add up to exactly 1 in float32 (they look like bare
		// chromaticity coordinates), and xyY whites whose luminance equals their y
		{
			var sumOne [][3]float32
			for _, xy := range [][2]float32{{0.3125, 0.328125}, {0.34375, 0.359375}, {0.3127, 0.3290}, {0.3457, 0.3585}, {0.44757, 0.40745}, {1.0 / 3, 1.0 / 3}, {0.25, 0.5}, {0.5, 0.25}} {
				z := 1 - xy[0] - xy[1]
				if xy[0]+xy[1]+z == 1 {
					sumOne = append(sumOne, [3]float32{xy[0], xy[1], z})
				}
			}
			ordinary := [][3]float32{{0.9642, 1, 0.8251}, {0.95047, 1, 1.08883}, {ciexyz.D50.X, ciexyz.D50.Y, ciexyz.D50.Z}}
			for i, s1 := range sumOne {
				for _, o := range append(append([][3]float32{}, ordinary...), sumOne[(i+1)%len(sumOne)]) {
					for _, pr := range [][2][3]float32{{s1, o}, {o, s1}} {
						n++
						nt++
						if kind, msg := c12PairXYZ(pr[0], pr[1]); kind != "" {
							r.Violate("pairxyz", kind+"/sum-one", msg, c12Case{Kind: kind, XYZ: [][3]float32{pr[0], pr[1]}})
						}
					}
				}
				for _, pr := range [][2]ciexyy.Color{{{X: s1[0], Y: s1[1], YY: s1[1]}, ciexyy.D50}, {ciexyy.D65, {X: s1[0], Y: s1[1], YY: s1[1]}}} {
					n++
					nt++
					if kind, msg := c12PairXYYLum(pr[0], pr[1]); kind != "" {
						r.Violate("pairxyz", kind+"/sum-one", msg, c12Case{Kind: kind, XYZ: [][3]float32{{pr[0].X, pr[0].Y, pr[0].YY}, {pr[1].X, pr[1].Y, pr[1].YY}}})
					}
				}
			}
			r.Obs("whites_summing_to_exactly_one", len(sumOne))
		}
		// whites on the line x + y = 1, where Z is exactly zero (monochromatic reds beyond about 700 nm
		// lie there; the Bradford blue response 0.0389 X - 0.0685 Y is still positive for y < 0.36)
		for _, xy := range [][2]float32{{0.70, 0.30}, {0.72, 0.28}, {0.735, 0.265}, {0.68, 0.32}} {
			zw := [3]float32{xy[0] / xy[1], 1, 0}
			for _, o := range [][3]float32{{0.9642, 1, 0.8251}, {0.95047, 1, 1.08883}, {xy[1] / xy[0], 1, 0}} {
				for _, pr := range [][2][3]float32{{zw, o}, {o, zw}} {
					n++
					nt++
					if kind, msg := c12PairXYZ(pr[0], pr[1]); kind != "" {
						r.Violate("pairxyz", kind+"/zero-Z", msg, c12Case{Kind: kind, XYZ: [][3]float32{pr[0], pr[1]}})
					}
				}
			}
		}
		// 70 000 distinct whites in one process, each adapted to D50 and checked on its own white (a
		// table of whites seen so far that outgrows a 16-bit index shows beyond the 65 536th)
		{
			d50 := ciexyz.Color{X: 0.9642, Y: 1, Z: 0.8251}
			badAt := -1
			for i := 0; i < 70000 && badAt < 0; i++ {
				x := 0.25 + float32(i%265)*0.0009
				y := 0.25 + float32(i/265)*0.0009
				w := ciexyz.Color{X: x / y, Y: 1, Z: (1 - x - y) / y}
				got := ciexyz.AdaptBetweenXYZWhitePoints(w, d50).Apply(w)
				if !(math.Abs(float64(got.X-d50.X)) <= 2e-6 && math.Abs(float64(got.Y-d50.Y)) <= 2e-6 && math.Abs(float64(got.Z-d50.Z)) <= 2e-6) {
					badAt = i
					r.Violate("pairxyz", "white-xyz/many-whites", fmt.Sprintf("the %d-th distinct white of this process, %v, adapted to D50 maps itself to %v", i+1, w, got), c12Case{Kind: "white-xyz", XYZ: [][3]float32{{w.X, w.Y, w.Z}, {d50.X, d50.Y, d50.Z}}})
				}
			}
			n += 70000
			nt += 70000
		}
		// the library's own tabulated whites against the xyY-derived ones
		for _, pr := range [][2]ciexyz.Color{{ciexyz.D65, ciexyz.ColorFromXYY(ciexyy.D65)}, {ciexyz.D50, ciexyz.ColorFromXYY(ciexyy.D50)}, {ciexyz.D50, ciexyz.D65}, {ciexyz.D65, ciexyz.D50}} {
			a3, b3 := [3]float32{pr[0].X, pr[0].Y, pr[0].Z}, [3]float32{pr[1].X, pr[1].Y, pr[1].Z}
			n++
			nt++
			if kind, msg := c12PairXYZ(a3, b3); kind != "" {
				r.Violate("pairxyz", kind, msg, c12Case{Kind: kind, XYZ: [][3]float32{a3, b3}})
			}
		}
		r.AddEvals(n)
		r.NTCount(nt)
		r.Obs("near_and_xyz_pairs", n)
	}
	shards := 16
	core.ParallelFor(shards, 16, func(sh int) {
		rg := core.NewRNG(r.Seed, "C12", "triples", fmt.Sprint(sh))
		var nt int64
		for k := 0; k < ntrip/shards; k++ {
			a, b, c := ws[rg.Intn(n)], ws[rg.Intn(n)], ws[rg.Intn(n)]
			if kind, msg := c12Triple(a, b, c); kind != "" {
				r.Violate("triple", kind, msg, c12Case{Kind: kind, Whites: [][2]float32{a, b, c}})
			}
			if a != b && b != c && a != c {
				nt++
			}
		}
		r.AddEvals(int64(ntrip / shards))
		r.NTCount(nt) // seeded draws; collisions among ~1e5 whites^3 are negligible but not excluded
	})
	if r.Variant == "" {
		// the whole workload once more in the GOARCH=386 build of this monitor (see ./check)
		r.RunVariantChild("arch386@16", 30*time.Minute, false)
		r.Obs("arch386_child", "run")
		for _, v := range append([]string{"warm@2"}, burstVariants...) {
			r.RunVariantChild(v, 5*time.Minute, false)
		}
		r.Obs("fresh_process_variants", append([]string{"warm@2"}, burstVariants...))
	}
	// tens of millions of distinct destination whites (a grid of 2.4e-5 in x and y over [0.25, 0.45]^2,
	// visited in a scattered order), each adaptation checked on its own white: whatever an
	// implementation remembers between calls is looked up here with 2^26 different keys (2^30 in the
	// thorough tier), so a key that identifies a pair only up to 32 bits is bound to confuse two of them
	{
		side := 8192
		if r.Thorough() {
			side = 32768
		}
		if strings.Contains(r.Variant, "arch386") {
			side = 2048 // the 32-bit child repeats the stage at 2^22 pairs (float64 arithmetic is several times slower there)
		}
		total := side * side
		d65 := ciexyz.Color{X: 0.95047, Y: 1, Z: 1.08883}
		d50 := ciexyz.Color{X: 0.9642, Y: 1, Z: 0.8251}
		var bad atomic.Int32
		shards := 64
		core.ParallelFor(shards, 16, func(sh int) {
			for i := sh; i < total && bad.Load() == 0; i += shards {
				j := int((uint64(i) * 2654435761) % uint64(total)) // scattered, a permutation for odd multipliers of a power-of-two total
				x := 0.25 + 0.2*float32(j%side)/float32(side)
				y := 0.25 + 0.2*float32(j/side)/float32(side)
				w := ciexyz.Color{X: x / y, Y: 1, Z: (1 - x - y) / y}
				from := d65
				if i&1 == 1 {
					from = d50
				}
				got := ciexyz.AdaptBetweenXYZWhitePoints(from, w).Apply(from)
				if !(math.Abs(float64(got.X-w.X)) <= 4e-6*math.Max(1, float64(w.X)) && math.Abs(float64(got.Y-w.Y)) <= 4e-6 && math.Abs(float64(got.Z-w.Z)) <= 4e-6*math.Max(1, float64(w.Z))) {
					if bad.Add(1) == 1 {
						r.Violate("pairxyz", "white-xyz/many-pairs", fmt.Sprintf("among %d distinct white pairs: the adaptation %v -> %v maps the source white to %v", total, from, w, got), c12Case{Kind: "white-xyz", XYZ: [][3]float32{{from.X, from.Y, from.Z}, {w.X, w.Y, w.Z}}})
					}
				}
			}
		})
		r.AddEvals(int64(total))
		r.Obs("distinct_white_pairs_in_one_process", total)
	}
	// last of all: calls with white points that are no white points (unset, negative, NaN, infinite) -
	// whatever they return or however they fail - followed by ordinary pairs again: nothing of a
	// failed or meaningless call may stay behind
	{
		nan, inf := float32(math.NaN()), float32(math.Inf(1))
		d65 := ciexyz.Color{X: 0.95047, Y: 1, Z: 1.08883}
		var n int64
		for _, bad := range []ciexyz.Color{{}, {X: nan, Y: 1, Z: 1}, {X: 1, Y: inf, Z: 1}, {X: -1, Y: -1, Z: -1}, {X: 0, Y: 1, Z: 0}, {X: 1e-45, Y: 1e-45, Z: 1e-45}, {X: 3e38, Y: 3e38, Z: 3e38}} {
			bad := bad
			_, _ = c12Call(func() ciexyz.ChromaticAdaptation { return ciexyz.AdaptBetweenXYZWhitePoints(bad, d65) })
			_, _ = c12Call(func() ciexyz.ChromaticAdaptation { return ciexyz.AdaptBetweenXYZWhitePoints(d65, bad) })
			_, _ = c12Call(func() ciexyz.ChromaticAdaptation {
				return ciexyz.AdaptBetweenXYYWhitePoints(ciexyy.Color{X: bad.X, Y: bad.Y, YY: bad.Z}, ciexyy.D50)
			})
			for _, pr := range [][2][3]float32{{{0.95047, 1, 1.08883}, {0.9642, 1, 0.8251}}, {{0.9642, 1, 0.8251}, {1.0985, 1, 0.35585}}, {{0.8, 0.9, 0.4}, {95.047, 100, 108.883}}} {
				n++
				if kind, msg := c12PairXYZ(pr[0], pr[1]); kind != "" {
					r.Violate("pairxyz", kind+"/after-invalid-white", msg+fmt.Sprintf(" (right after calls with the white %v)", bad), c12Case{Kind: kind, XYZ: [][3]float32{pr[0], pr[1]}})
				}
			}
			n++
			if kind, msg, _, _ := c12Pair(c12Illuminants["D65"], c12Illuminants["A"]); kind != "" {
				r.Violate("pair", kind+"/after-invalid-white", msg+fmt.Sprintf(" (right after calls with the white %v)", bad), c12Case{Kind: kind, Whites: [][2]float32{c12Illuminants["D65"], c12Illuminants["A"]}})
			}
		}
		r.AddEvals(n)
	}
	ca := ciexyz.AdaptBetweenXYYWhitePoints(ciexyy.D65, ciexyy.D50)
	r.Sample(map[string]any{"from": "D65", "to": "D50", "matrix_rows": libMat(matrix.Matrix3(ca))})
	r.Sample(map[string]any{"white_xy": ws[len(ws)/2], "xyz": ciexyz.ColorFromXYY(xyy(ws[len(ws)/2]))})
}

func replayC12(stage string, raw json.RawMessage) (bool, string, error) {
	var cs c12Case
	if err := json.Unmarshal(raw, &cs); err != nil {
		return false, "", err
	}
	if stage == "pairxyz" && len(cs.XYZ) == 2 {
		k, m := c12PairXYZ(cs.XYZ[0], cs.XYZ[1])
		return k != "", m, nil
	}
	if stage == "triple" && len(cs.Whites) == 3 {
		k, m := c12Triple(cs.Whites[0], cs.Whites[1], cs.Whites[2])
		return k != "", m, nil
	}
	if len(cs.Whites) < 2 {
		return false, "", fmt.Errorf("bad case")
	}
	k, m, _, _ := c12Pair(cs.Whites[0], cs.Whites[1])
	return k != "", m, nil
}

func init() {
	core.Register(&core.Property{ID: "C12", Level: "exploration", Run: runC12, Replay: replayC12, Child: variantChild("C12", "exploration", runC12)})
}
