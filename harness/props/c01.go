//go:build all || c01

package props

import (
	"encoding/json"
	"fmt"
	"github.com/mandykoh/prism/linear"
	"image/color"
	"math"
	"strings"
	"sync/atomic"
	"time"
	"verifharness/internal/atinit"

	"verifharness/internal/core"
)

// C01 — decode tables equal the published EOTFs. Exhaustive in both tiers.

type c01Case struct {
	Space   string `json:"space"`
	Entry   string `json:"entry"`
	Channel int    `json:"channel"`
	Code    int    `json:"code"`
	// Pattern chooses the codes of the two channels not under test: 0 = two different bijections of
	// the code, 1 = both zero, 2 = both equal to one other value, 3 = both equal to the code
	// (a grey), 4 = one equal to the code, one different
	Pattern int `json:"companion_pattern,omitempty"`
}

var c01Entries8 = []string{"From8Bit", "ColorFromNRGBA", "ColorFromRGBA", "ColorFromEncodedColor/color.RGBA", "ColorFromEncodedColor/color.NRGBA", "ColorFromEncodedColor/color.Gray", "LineariseColor/color.NRGBA"}
var c01Entries16 = []string{"From16Bit", "ColorFromEncodedColor/color.RGBA64", "ColorFromEncodedColor/color.NRGBA64", "ColorFromEncodedColor/color.Gray16", "LineariseColor/color.RGBA64", "LineariseColor/color.NRGBA64"}

func c01Width(entry string) int {
	for _, e := range c01Entries8 {
		if e == entry {
			return 8
		}
	}
	return 16
}

// companion codes for the two channels not under test: bijections of the code,
// so that a swapped channel or cross-talk shows.
func c01Others(code, max int) (int, int) {
	return c01OthersP(code, max, 0)
}

func c01OthersP(code, max, pattern int) (int, int) {
	switch pattern {
	case 1:
		return 0, 0
	case 2:
		v := (code*5 + 11) & max
		return v, v
	case 3:
		return code, code
	case 4:
		return code, (code*3 + 1) & max
	}
	return (code*7 + 3) & max, max - code
}

func pick3(ch int, a, b, c float32) float32 {
	switch ch {
	case 0:
		return a
	case 1:
		return b
	}
	return c
}

// c01Decode drives one public decode entry point with `code` in channel ch and
// returns the linear value it produced for that channel. quant=true means the
// entry point returns a 16-bit quantised linear value (LineariseColor).
func c01Decode(s *libSpace, entry string, ch, code int) (val float64, quant bool, ok bool) {
	return c01DecodeP(s, entry, ch, code, 0)
}

func c01DecodeP(s *libSpace, entry string, ch, code, pattern int) (val float64, quant bool, ok bool) {
	w := c01Width(entry)
	max := 255
	if w == 16 {
		max = 65535
	}
	o1, o2 := c01OthersP(code, max, pattern)
	var v [3]int
	v[ch], v[(ch+1)%3], v[(ch+2)%3] = code, o1, o2
	switch entry {
	case "From8Bit":
		if s.From8 == nil || ch != 0 {
			return 0, false, false
		}
		return float64(s.From8(uint8(code))), false, true
	case "From16Bit":
		if s.From16 == nil || ch != 0 {
			return 0, false, false
		}
		return float64(s.From16(uint16(code))), false, true
	case "ColorFromNRGBA":
		c, _ := s.FromNRGBA(color.NRGBA{R: uint8(v[0]), G: uint8(v[1]), B: uint8(v[2]), A: 255})
		return float64(pick3(ch, c.R, c.G, c.B)), false, true
	case "ColorFromRGBA":
		c, _ := s.FromRGBA(color.RGBA{R: uint8(v[0]), G: uint8(v[1]), B: uint8(v[2]), A: 255})
		return float64(pick3(ch, c.R, c.G, c.B)), false, true
	}
	var in color.Color
	switch {
	case hasSuffix(entry, "/color.RGBA64"):
		in = color.RGBA64{R: uint16(v[0]), G: uint16(v[1]), B: uint16(v[2]), A: 65535}
	case hasSuffix(entry, "/color.NRGBA64"):
		in = color.NRGBA64{R: uint16(v[0]), G: uint16(v[1]), B: uint16(v[2]), A: 65535}
	case hasSuffix(entry, "/color.RGBA"):
		in = color.RGBA{R: uint8(v[0]), G: uint8(v[1]), B: uint8(v[2]), A: 255}
	case hasSuffix(entry, "/color.NRGBA"):
		in = color.NRGBA{R: uint8(v[0]), G: uint8(v[1]), B: uint8(v[2]), A: 255}
	case hasSuffix(entry, "/color.Gray16"):
		in = color.Gray16{Y: uint16(code)}
	case hasSuffix(entry, "/color.Gray"):
		in = color.Gray{Y: uint8(code)}
	default:
		return 0, false, false
	}
	if hasPrefix(entry, "ColorFromEncodedColor/") {
		c, _ := s.FromEncoded(in)
		return float64(pick3(ch, c.R, c.G, c.B)), false, true
	}
	c := s.Linearise(in)
	return float64(pick3u(ch, c.R, c.G, c.B)), true, true
}

func pick3u(ch int, a, b, c uint16) float32 {
	switch ch {
	case 0:
		return float32(a)
	case 1:
		return float32(b)
	}
	return float32(c)
}

func hasSuffix(s, suf string) bool { return len(s) >= len(suf) && s[len(s)-len(suf):] == suf }
func hasPrefix(s, pre string) bool { return len(s) >= len(pre) && s[:len(pre)] == pre }

const c01Tol = 3e-7

// quantised entry points: half a code + the stated decode tolerance + the two
// float32 roundings of the 16-bit quantiser (v*65535 and +0.5, <= 65535*2^-23).
const c01QuantTol = 0.5 + 65535*c01Tol + 65535.0/(1<<23)

// c01Point evaluates the accuracy and end-point clauses for one case.
func c01Point(cs c01Case) (bad bool, kind, msg string, got float64) {
	s := spaceByName(cs.Space)
	if s == nil {
		return false, "", "unknown space", 0
	}
	w := c01Width(cs.Entry)
	max := 255.0
	if w == 16 {
		max = 65535
	}
	val, quant, ok := c01DecodeP(s, cs.Entry, cs.Channel, cs.Code, cs.Pattern)
	if !ok {
		return false, "", "entry not applicable", 0
	}
	want := s.Ref.Curve.EOTF(float64(cs.Code) / max)
	if quant {
		if d := math.Abs(val - 65535*want); !(d <= c01QuantTol) {
			return true, "accuracy", fmt.Sprintf("%s %s ch%d code %d: linearised to %v, published EOTF gives %.4f (|diff| %.4f > %.4f)", cs.Space, cs.Entry, cs.Channel, cs.Code, val, 65535*want, d, c01QuantTol), val
		}
		if cs.Code == 0 && val != 0 {
			return true, "zero", fmt.Sprintf("%s %s: code 0 linearised to %v, want 0", cs.Space, cs.Entry, val), val
		}
		if float64(cs.Code) == max && val != 65535 {
			return true, "one", fmt.Sprintf("%s %s: maximum code linearised to %v, want 65535", cs.Space, cs.Entry, val), val
		}
		return false, "", "ok", val
	}
	if d := math.Abs(val - want); !(d <= c01Tol) {
		return true, "accuracy", fmt.Sprintf("%s %s ch%d code %d: decoded %.9g, published EOTF gives %.9g (|diff| %.3g > 3e-7)", cs.Space, cs.Entry, cs.Channel, cs.Code, val, want, d), val
	}
	if cs.Code == 0 && val != 0 {
		return true, "zero", fmt.Sprintf("%s %s: code 0 decoded to %v, want exactly 0", cs.Space, cs.Entry, val), val
	}
	if float64(cs.Code) == max && val != 1 {
		return true, "one", fmt.Sprintf("%s %s: maximum code decoded to %v, want exactly 1", cs.Space, cs.Entry, val), val
	}
	return false, "", "ok", val
}

// c01AllChannels decodes a three-channel colour through an entry point and checks every channel
// against the EOTF of its own code (used for the companion patterns, where the interesting failure
// is a channel receiving another channel's value).
func c01AllChannels(cs c01Case) (bad bool, msg string) {
	s := spaceByName(cs.Space)
	w := c01Width(cs.Entry)
	max := 255
	if w == 16 {
		max = 65535
	}
	o1, o2 := c01OthersP(cs.Code, max, cs.Pattern)
	var v [3]int
	v[cs.Channel], v[(cs.Channel+1)%3], v[(cs.Channel+2)%3] = cs.Code, o1, o2
	for k := 0; k < 3; k++ {
		// decode with channel k "under test" but the very same colour: rotate the roles
		got, quant, ok := c01DecodeColour(s, cs.Entry, v, k)
		if !ok {
			return false, "n/a"
		}
		want := s.Ref.Curve.EOTF(float64(v[k]) / float64(max))
		if quant {
			if d := math.Abs(got - 65535*want); !(d <= c01QuantTol) {
				return true, fmt.Sprintf("%s %s colour %v: channel %d linearised to %v, published EOTF of its code %d gives %.4f", cs.Space, cs.Entry, v, k, got, v[k], 65535*want)
			}
		} else if d := math.Abs(got - want); !(d <= c01Tol) {
			return true, fmt.Sprintf("%s %s colour %v: channel %d decoded to %.9g, published EOTF of its code %d gives %.9g", cs.Space, cs.Entry, v, k, got, v[k], want)
		}
	}
	return false, "ok"
}

// c01DecodeColour decodes the colour v (three codes) and returns channel k of the result.
func c01DecodeColour(s *libSpace, entry string, v [3]int, k int) (val float64, quant bool, ok bool) {
	switch entry {
	case "ColorFromNRGBA":
		c, _ := s.FromNRGBA(color.NRGBA{R: uint8(v[0]), G: uint8(v[1]), B: uint8(v[2]), A: 255})
		return float64(pick3(k, c.R, c.G, c.B)), false, true
	case "ColorFromRGBA":
		c, _ := s.FromRGBA(color.RGBA{R: uint8(v[0]), G: uint8(v[1]), B: uint8(v[2]), A: 255})
		return float64(pick3(k, c.R, c.G, c.B)), false, true
	}
	var in color.Color
	switch {
	case hasSuffix(entry, "/color.RGBA64"):
		in = color.RGBA64{R: uint16(v[0]), G: uint16(v[1]), B: uint16(v[2]), A: 65535}
	case hasSuffix(entry, "/color.NRGBA64"):
		in = color.NRGBA64{R: uint16(v[0]), G: uint16(v[1]), B: uint16(v[2]), A: 65535}
	case hasSuffix(entry, "/color.RGBA"):
		in = color.RGBA{R: uint8(v[0]), G: uint8(v[1]), B: uint8(v[2]), A: 255}
	case hasSuffix(entry, "/color.NRGBA"):
		in = color.NRGBA{R: uint8(v[0]), G: uint8(v[1]), B: uint8(v[2]), A: 255}
	default:
		return 0, false, false
	}
	if hasPrefix(entry, "ColorFromEncodedColor/") {
		c, _ := s.FromEncoded(in)
		return float64(pick3(k, c.R, c.G, c.B)), false, true
	}
	c := s.Linearise(in)
	return float64(pick3u(k, c.R, c.G, c.B)), true, true
}

func runC01(r *core.Run) {
	r.Rule = "every 8-bit and 16-bit code x 4 spaces x every public decode entry point x channel position (enumerated, so every case is distinct); non-trivial = code strictly between 0 and the maximum"
	r.Exhaustive = true
	r.Assumptions = []string{"reference EOTFs transcribed from IEC 61966-2-1, Adobe RGB (1998) and ISO 22028-2 in harness/internal/refcolor", "Display P3 is judged against the sRGB curve because its specification prescribes it"}
	// fresh process whose very first decode goes through one chosen entry point (then the others,
	// in rotation): a lazily built table that one entry point reads without building shows only
	// when that entry point is the first to be used
	if atinit.Records != nil {
		// this child decoded during package initialisation, before anything else ran
		n := 0
		for _, rec := range atinit.Records {
			s := spaceByName(rec.Space)
			if rec.Call != "From8Bit" || s == nil {
				continue
			}
			n++
			want := s.Ref.Curve.EOTF(float64(rec.In[0]) / 255)
			if d := math.Abs(float64(rec.Out[0]) - want); !(d <= c01Tol) {
				r.Violate("point", rec.Space+"/From8Bit/accuracy/at-init", fmt.Sprintf("%s From8Bit(%v) = %.9g when called from package initialisation of the importing program, published EOTF gives %.9g", rec.Space, rec.In[0], rec.Out[0], want), c01Case{rec.Space, "From8Bit", 0, int(rec.In[0]), 0})
			}
		}
		r.AddEvals(int64(n))
		if n == 0 {
			r.Inconclusive("atinit child recorded nothing")
		}
	}
	if strings.HasPrefix(r.Variant, "walk:") {
		var stride int
		fmt.Sscanf(r.Variant[len("walk:"):], "%d", &stride)
		if stride < 1 {
			stride = 1
		}
		var n int64
		for _, s := range libSpaces {
			for _, e := range []string{"From16Bit", "ColorFromEncodedColor/color.RGBA64", "LineariseColor/color.NRGBA64", "From8Bit", "ColorFromNRGBA"} {
				max := 255
				if c01Width(e) == 16 {
					max = 65535
				}
				for code := 0; code <= max; code += stride {
					cs := c01Case{s.Name, e, 0, code, 0}
					bad, kind, msg, _ := c01Point(cs)
					n++
					if bad {
						r.Violate("point", fmt.Sprintf("%s/%s/%s/stride-walk", s.Name, e, kind), fmt.Sprintf("%s (fresh process; the first decodes walked the codes 0, %d, %d, ... in this order)", msg, stride, 2*stride), cs)
						break
					}
				}
			}
		}
		r.AddEvals(n)
		return
	}
	if strings.HasPrefix(r.Variant, "firstentry:") {
		var k int
		fmt.Sscanf(r.Variant[len("firstentry:"):], "%d", &k)
		entries := append(append([]string{}, c01Entries8...), c01Entries16...)
		var n int64
		for _, s := range libSpaces {
			for j := range entries {
				e := entries[(k+j)%len(entries)]
				max := 255
				if c01Width(e) == 16 {
					max = 65535
				}
				for _, code := range []int{max, max / 2, 1, 0, max - 1, max/2 + 1, 7} {
					for ch := 0; ch < 3; ch++ {
						cs := c01Case{s.Name, e, ch, code, 0}
						bad, kind, msg, _ := c01Point(cs)
						n++
						if bad {
							r.Violate("point", fmt.Sprintf("%s/%s/%s/first-entry", s.Name, e, kind), fmt.Sprintf("%s (fresh process; the first decode of the process went through %s)", msg, entries[k%len(entries)]), cs)
						}
					}
				}
			}
		}
		r.AddEvals(n)
		return
	}
	maxErr := map[string]float64{}
	maxAt := map[string]int{}
	type job struct {
		s     *libSpace
		entry string
	}
	var jobs []job
	for _, s := range libSpaces {
		for _, e := range c01Entries8 {
			jobs = append(jobs, job{s, e})
		}
		for _, e := range c01Entries16 {
			jobs = append(jobs, job{s, e})
		}
	}
	type res struct {
		err float64
		at  int
	}
	results := make([]res, len(jobs))
	core.ParallelFor(len(jobs), 16, func(ji int) {
		j := jobs[ji]
		w := c01Width(j.entry)
		n := 256
		if w == 16 {
			n = 65536
		}
		chans := 3
		if j.entry == "From8Bit" || j.entry == "From16Bit" || hasSuffix(j.entry, "Gray") || hasSuffix(j.entry, "Gray16") {
			chans = 1
		}
		if (j.entry == "From8Bit" || j.entry == "From16Bit") && j.s.From8 == nil {
			return
		}
		var evals, nt int64
		for ch := 0; ch < chans; ch++ {
			prev := math.Inf(-1)
			for code := 0; code < n; code++ {
				cs := c01Case{j.s.Name, j.entry, ch, code, 0}
				bad, kind, msg, val := c01Point(cs)
				evals++
				if code > 0 && code < n-1 {
					nt++
				}
				if bad {
					r.Violate("point", fmt.Sprintf("%s/%s/%s", j.s.Name, j.entry, kind), msg, cs)
				}
				quant := hasPrefix(j.entry, "LineariseColor")
				if !quant {
					want := j.s.Ref.Curve.EOTF(float64(code) / float64(n-1))
					if e := math.Abs(val - want); e > results[ji].err {
						results[ji] = res{e, code}
					}
					if !(val > prev) {
						r.Violate("monotone", fmt.Sprintf("%s/%s/monotone", j.s.Name, j.entry),
							fmt.Sprintf("%s %s ch%d: decode(%d)=%.9g is not greater than decode(%d)=%.9g", j.s.Name, j.entry, ch, code, val, code-1, prev), cs)
					}
				} else if val < prev {
					// quantised output: non-decreasing is all 16-bit output can show
					r.Violate("monotone", fmt.Sprintf("%s/%s/monotone", j.s.Name, j.entry),
						fmt.Sprintf("%s %s ch%d: linearise(%d)=%v < linearise(%d)=%v", j.s.Name, j.entry, ch, code, val, code-1, prev), cs)
				}
				prev = val
			}
		}
		// the same codes with other companion patterns (zeros, equal channels, greys): a decoder
		// that reuses one channel's result for another shows only when codes coincide
		if chans == 3 {
			for pattern := 1; pattern <= 4; pattern++ {
				for ch := 0; ch < 3; ch++ {
					step := 1
					if n > 256 {
						step = 13
					}
					for code := (ch + pattern) % step; code < n; code += step {
						cs := c01Case{j.s.Name, j.entry, ch, code, pattern}
						bad, msg := c01AllChannels(cs)
						evals += 3
						if bad {
							r.Violate("pattern", fmt.Sprintf("%s/%s/pattern%d", j.s.Name, j.entry, pattern), msg+fmt.Sprintf(" (companion pattern %d)", pattern), cs)
						}
					}
				}
			}
		}
		r.AddEvals(evals)
		r.NTCount(nt)
	})
	for ji, j := range jobs {
		k := j.s.Name
		if results[ji].err > maxErr[k] {
			maxErr[k] = results[ji].err
			maxAt[k] = results[ji].at
		}
	}
	// 8-bit result for v equals the 16-bit result for 257*v, bit for bit.
	for _, s := range libSpaces {
		for v := 0; v < 256; v++ {
			var a, b float32
			var entry string
			if s.From8 != nil {
				a, b, entry = s.From8(uint8(v)), s.From16(uint16(257*v)), "From8Bit-vs-From16Bit"
			} else {
				ca, _ := s.FromNRGBA(color.NRGBA{R: uint8(v), A: 255})
				cb, _ := s.FromEncoded(color.RGBA64{R: uint16(257 * v), A: 65535})
				a, b, entry = ca.R, cb.R, "ColorFromNRGBA-vs-ColorFromEncodedColor"
			}
			r.AddEvals(1)
			if math.Float32bits(a) != math.Float32bits(b) {
				r.Violate("8vs16", fmt.Sprintf("%s/%s", s.Name, entry),
					fmt.Sprintf("%s: 8-bit decode of %d = %.9g but 16-bit decode of %d = %.9g", s.Name, v, a, 257*v, b),
					c01Case{s.Name, "8vs16", 0, v, 0})
			}
		}
	}
	// an opaque colour decoded right after a translucent one (alpha a hair below the maximum, in the
	// middle, tiny): nothing of the previous call's alpha may carry over into the next
	{
		var n int64
		rg := core.NewRNG(r.Seed, "C01", "after-translucent")
		for _, s := range libSpaces {
			for i := 0; i < 4000; i++ {
				a := []uint16{0xFF40, 0xFFFE, 0xFF00, 0x8000, 0x0101, 1, uint16(rg.Intn(65535)), uint16(0xFF00 + rg.Intn(255))}[i%8]
				pre := uint16(rg.Intn(int(a) + 1))
				// two translucent colours in a row (the first with quite another alpha), then the opaque one
				_, _ = s.FromEncoded(color.NRGBA64{R: 9, G: 99, B: 999, A: []uint16{0x8000, 0x0101, 0x4000, 0xFE00, 0x00FF}[i%5]})
				if i%2 == 0 {
					_, _ = s.FromEncoded(color.RGBA64{R: pre, G: pre / 2, B: 0, A: a})
				} else {
					_, _ = s.FromEncoded(color.NRGBA64{R: uint16(rg.Intn(65536)), G: 77, B: 65535, A: a})
				}
				cc := c01CarrierCase{Space: s.Name, Type: []string{"color.RGBA64", "color.Gray16", "color.YCbCr", "*color.NRGBA"}[i%4], V: [4]uint16{uint16(rg.Intn(65536)), uint16(rg.Intn(65536)), uint16(rg.Intn(65536)), 0}}
				n++
				if bad, msg := c01Carrier(s, cc); bad {
					r.Violate("carrier", fmt.Sprintf("%s/ColorFromEncodedColor/after-translucent", s.Name), msg+fmt.Sprintf(" (decoded right after a colour with alpha %#04x)", a), cc)
					break
				}
			}
		}
		r.AddEvals(n)
		r.NTCount(n)
	}
	// the whole 8-bit colour cube, opaque, through the three pixel constructors: each channel must be
	// what that code decodes to on its own, whatever the other two channels are (a shortcut keyed on a
	// combination of channels - their sum, an exclusive-or, equality - shows only on such combinations)
	if r.Variant == "" || r.Variant == "warm@2" {
		for _, s := range libSpaces {
			s := s
			var table [256]uint32
			for v := 0; v < 256; v++ {
				c, _ := s.FromNRGBA(color.NRGBA{R: uint8(v), G: uint8(v), B: uint8(v), A: 255})
				table[v] = math.Float32bits(c.R)
			}
			var bad atomic.Int32
			core.ParallelFor(256, 16, func(ri int) {
				if bad.Load() != 0 {
					return
				}
				for gi := 0; gi < 256; gi++ {
					for bi := 0; bi < 256; bi++ {
						px := color.NRGBA{R: uint8(ri), G: uint8(gi), B: uint8(bi), A: 255}
						c1, a1 := s.FromNRGBA(px)
						c2, a2 := s.FromRGBA(color.RGBA{R: px.R, G: px.G, B: px.B, A: 255})
						c3, a3 := s.FromEncoded(px)
						for k, c := range []linear.RGB{c1, c2, c3} {
							if math.Float32bits(c.R) != table[ri] || math.Float32bits(c.G) != table[gi] || math.Float32bits(c.B) != table[bi] || a1 != 1 || a2 != 1 || a3 != 1 {
								if bad.Add(1) == 1 {
									entry := []string{"ColorFromNRGBA", "ColorFromRGBA", "ColorFromEncodedColor/color.NRGBA"}[k]
									r.Violate("cube", fmt.Sprintf("%s/%s/cube", s.Name, entry), fmt.Sprintf("%s %s(%v) = %v (alphas %v %v %v); decoded one at a time the codes give (%.9g, %.9g, %.9g)", s.Name, entry, px, c, a1, a2, a3, math.Float32frombits(table[ri]), math.Float32frombits(table[gi]), math.Float32frombits(table[bi])), c01CubeCase{s.Name, entry, [3]uint8{px.R, px.G, px.B}})
								}
								return
							}
						}
					}
				}
			})
			r.AddEvals(3 << 24)
		}
		r.Obs("opaque_8bit_cube_pixels_per_space_and_constructor", 1<<24)
	}
	// one colour object, handed over by pointer and modified in place between the calls (a pixel
	// buffer a caller reuses): every call decodes what the object holds at that moment
	{
		var n int64
		for _, s := range libSpaces {
			p64, pn64, pn8, p8 := &color.RGBA64{A: 0xFFFF}, &color.NRGBA64{A: 0xFFFF}, &color.NRGBA{A: 0xFF}, &color.RGBA{A: 0xFF}
			bad := false
			for i := 0; i < 4*4096 && !bad; i++ {
				code := []int{0, 0xFFFF, 0x8000, 1, 0xFFFE, int(uint32(i)*2654435761>>7) & 0xFFFF, 0x0101 * (i & 0xFF)}[i%7]
				p64.R, p64.G, p64.B = uint16(code), uint16(code>>1), uint16(0xFFFF-code)
				pn64.R, pn64.G, pn64.B = uint16(0xFFFF-code), uint16(code), uint16(code>>2)
				pn8.R, pn8.G, pn8.B = uint8(code>>8), uint8(code), uint8(255-code>>8)
				p8.R, p8.G, p8.B = uint8(code), uint8(code>>8), uint8(255-code)
				for k, c := range []color.Color{p64, pn64, pn8, p8} {
					if k != i/4096 { // runs of 4096 consecutive calls with one and the same object
						continue
					}
					r16, g16, b16, _ := c.RGBA()
					got, a := s.FromEncoded(c)
					n++
					for ch, v := range [3]uint32{r16, g16, b16} {
						want := s.Ref.Curve.EOTF(float64(v) / 65535)
						if gv := float64([3]float32{got.R, got.G, got.B}[ch]); !(math.Abs(gv-want) <= c01Tol) || a != 1 {
							typ := []string{"*color.RGBA64", "*color.NRGBA64", "*color.NRGBA", "*color.RGBA"}[k]
							cc := c01CarrierCase{Space: s.Name, Type: typ, V: [4]uint16{uint16(r16), uint16(g16), uint16(b16), 0xFFFF}}
							r.Violate("carrier", fmt.Sprintf("%s/ColorFromEncodedColor/reused-pointer", s.Name), fmt.Sprintf("%s ColorFromEncodedColor(%s %v), an object modified in place since the previous call (call #%d): channel %d decoded to %.9g (alpha %v), the published EOTF of %#04x is %.9g", s.Name, typ, c, i+1, ch, gv, a, v, want), cc)
							bad = true
							break
						}
					}
				}
			}
		}
		r.AddEvals(n)
		r.NTCount(n)
	}
	// every carrier type: the decoded value is a function of the 16-bit components the colour
	// reports through RGBA(), whatever its concrete type (YCbCr, CMYK, NYCbCrA, Alpha16, a caller's
	// own type, pointers to the standard types)
	{
		var n int64
		for _, s := range libSpaces {
			for _, cc := range c01Carriers() {
				n++
				if bad, msg := c01Carrier(s, cc); bad {
					cc.Space = s.Name
					r.Violate("carrier", fmt.Sprintf("%s/ColorFromEncodedColor/%s", s.Name, cc.Type), msg, cc)
				}
			}
		}
		r.AddEvals(n)
		r.NTCount(n)
		r.Obs("carrier_type_cases", n)
	}
	if r.Variant == "" {
		// the whole workload once more in the GOARCH=386 build of this monitor (see ./check)
		r.RunVariantChild("arch386@16", 30*time.Minute, false)
		r.Obs("arch386_child", "run")
		for _, v := range []string{"encfirst@3", "encfirst+rev@1", "warm@2", "decfirst+encfirst@2", "decfirst+encfirst+rev@6", "atinit@1", "atinit@16", "imgfirst@4", "imgfirst+rev@16"} {
			r.RunVariantChild(v, 10*time.Minute, false)
		}
		r.Obs("fresh_process_variants", []string{"encfirst@3", "encfirst+rev@1", "warm@2", "decfirst+encfirst@2", "decfirst+encfirst+rev@6", "atinit@1", "atinit@16", "imgfirst@4", "imgfirst+rev@16"})
		// fresh processes whose first decodes walk the code range at a fixed stride from 0 (a table
		// built page by page, or extended to a high-water mark, is right or wrong depending on which
		// code the n-th call asks for)
		walks := []int{1, 255, 256, 257, 511, 512, 513, 1024, 4096, 4369}
		core.ParallelFor(len(walks), 5, func(i int) {
			r.RunVariantChild(fmt.Sprintf("walk:%d@%d", walks[i], 1+i%4), 5*time.Minute, false)
		})
		r.Obs("fresh_process_stride_walks", walks)
		nfe := len(c01Entries8) + len(c01Entries16)
		core.ParallelFor(2*nfe, 8, func(i int) {
			v := fmt.Sprintf("firstentry:%d@%d", i%nfe, 1+i%3)
			if i >= nfe {
				v = fmt.Sprintf("firstentry:%d+rev@%d", i%nfe, 2+i%3)
			}
			r.RunVariantChild(v, 5*time.Minute, false)
		})
		r.Obs("fresh_process_first_entry_children", 2*nfe)
	}
	r.Obs("max_abs_error_per_space", maxErr)
	r.Obs("code_of_max_error_per_space", maxAt)
	r.Obs("entry_points", append(append([]string{}, c01Entries8...), c01Entries16...))
	r.Sample(map[string]any{"space": "srgb", "entry": "From16Bit", "code": 32768, "decoded": spaceByName("srgb").From16(32768)})
	r.Sample(map[string]any{"space": "prophotorgb", "entry": "From8Bit", "code": 7, "decoded": spaceByName("prophotorgb").From8(7)})
}

type c01CubeCase struct {
	Space string   `json:"space"`
	Entry string   `json:"entry"`
	RGB   [3]uint8 `json:"rgb"`
}

func c01Cube(cs c01CubeCase) (bool, string) {
	s := spaceByName(cs.Space)
	if s == nil {
		return false, "unknown space"
	}
	px := color.NRGBA{R: cs.RGB[0], G: cs.RGB[1], B: cs.RGB[2], A: 255}
	var c linear.RGB
	switch cs.Entry {
	case "ColorFromNRGBA":
		c, _ = s.FromNRGBA(px)
	case "ColorFromRGBA":
		c, _ = s.FromRGBA(color.RGBA{R: px.R, G: px.G, B: px.B, A: 255})
	default:
		c, _ = s.FromEncoded(px)
	}
	one := func(v uint8) float32 {
		x, _ := s.FromNRGBA(color.NRGBA{R: v, G: v, B: v, A: 255})
		return x.R
	}
	if c.R != one(px.R) || c.G != one(px.G) || c.B != one(px.B) {
		return true, fmt.Sprintf("%s %s(%v) = %v; decoded one at a time the codes give (%.9g, %.9g, %.9g)", cs.Space, cs.Entry, px, c, one(px.R), one(px.G), one(px.B))
	}
	return false, "ok"
}

// ---- carrier types ------------------------------------------------------------

type c01CarrierCase struct {
	Space string    `json:"space,omitempty"`
	Type  string    `json:"type"`
	V     [4]uint16 `json:"v"` // constructor arguments (meaning depends on the type)
}

// own16 is a caller-defined colour type.
type own16 struct{ r, g, b uint16 }

func (c own16) RGBA() (uint32, uint32, uint32, uint32) {
	return uint32(c.r), uint32(c.g), uint32(c.b), 0xFFFF
}

func (cc c01CarrierCase) colour() color.Color {
	v := cc.V
	switch cc.Type {
	case "color.YCbCr":
		return color.YCbCr{Y: uint8(v[0]), Cb: uint8(v[1]), Cr: uint8(v[2])}
	case "color.NYCbCrA":
		return color.NYCbCrA{YCbCr: color.YCbCr{Y: uint8(v[0]), Cb: uint8(v[1]), Cr: uint8(v[2])}, A: 255}
	case "color.CMYK":
		return color.CMYK{C: uint8(v[0]), M: uint8(v[1]), Y: uint8(v[2]), K: uint8(v[3])}
	case "color.Alpha16":
		return color.Alpha16{A: 0xFFFF}
	case "color.Alpha":
		return color.Alpha{A: 0xFF}
	case "own16":
		return own16{v[0], v[1], v[2]}
	case "*color.RGBA64":
		return &color.RGBA64{R: v[0], G: v[1], B: v[2], A: 0xFFFF}
	case "*color.NRGBA":
		return &color.NRGBA{R: uint8(v[0]), G: uint8(v[1]), B: uint8(v[2]), A: 0xFF}
	case "color.Gray16":
		return color.Gray16{Y: v[0]}
	}
	return color.RGBA64{R: v[0], G: v[1], B: v[2], A: 0xFFFF}
}

func c01Carriers() []c01CarrierCase {
	var out []c01CarrierCase
	for y := 0; y < 256; y += 17 {
		for cb := 0; cb < 256; cb += 15 {
			for cr := 0; cr < 256; cr += 15 {
				t := "color.YCbCr"
				if (y+cb+cr)%4 == 0 {
					t = "color.NYCbCrA"
				}
				out = append(out, c01CarrierCase{Type: t, V: [4]uint16{uint16(y), uint16(cb), uint16(cr), 0}})
			}
		}
	}
	for c := 0; c < 256; c += 51 {
		for m := 0; m < 256; m += 51 {
			for y := 0; y < 256; y += 51 {
				for k := 0; k < 256; k += 51 {
					out = append(out, c01CarrierCase{Type: "color.CMYK", V: [4]uint16{uint16(c), uint16(m), uint16(y), uint16(k)}})
				}
			}
		}
	}
	out = append(out, c01CarrierCase{Type: "color.Alpha16"}, c01CarrierCase{Type: "color.Alpha"})
	for i := 0; i < 4096; i++ {
		v := [4]uint16{uint16(i * 16), uint16(65535 - i*13), uint16((i*7919 + 5) & 0xFFFF), 0}
		out = append(out, c01CarrierCase{Type: []string{"own16", "*color.RGBA64", "*color.NRGBA", "color.Gray16"}[i%4], V: v})
	}
	return out
}

func c01Carrier(s *libSpace, cc c01CarrierCase) (bad bool, msg string) {
	c := cc.colour()
	r16, g16, b16, a16 := c.RGBA()
	if a16 != 0xFFFF {
		return false, "not opaque"
	}
	got, alpha := s.FromEncoded(c)
	if alpha != 1 {
		return true, fmt.Sprintf("%s ColorFromEncodedColor(%s %v): alpha %v for an opaque colour", s.Name, cc.Type, c, alpha)
	}
	for k, code := range []uint32{r16, g16, b16} {
		want := s.Ref.Curve.EOTF(float64(code) / 65535)
		g := float64(pick3(k, got.R, got.G, got.B))
		if d := math.Abs(g - want); !(d <= c01Tol) {
			return true, fmt.Sprintf("%s ColorFromEncodedColor(%s %v): its RGBA() reports %#04x %#04x %#04x; channel %d decoded to %.9g, the published EOTF of %#04x is %.9g (|diff| %.3g)", s.Name, cc.Type, c, r16, g16, b16, k, g, code, want, d)
		}
	}
	return false, "ok"
}

func replayC01(stage string, raw json.RawMessage) (bool, string, error) {
	if stage == "cube" {
		var cs c01CubeCase
		if err := json.Unmarshal(raw, &cs); err != nil {
			return false, "", err
		}
		bad, msg := c01Cube(cs)
		return bad, msg, nil
	}
	if stage == "carrier" {
		var cc c01CarrierCase
		if err := json.Unmarshal(raw, &cc); err != nil {
			return false, "", err
		}
		for _, s := range libSpaces {
			if cc.Space == "" || cc.Space == s.Name {
				if bad, msg := c01Carrier(s, cc); bad {
					return true, msg, nil
				}
			}
		}
		return false, "ok", nil
	}
	var cs c01Case
	if err := json.Unmarshal(raw, &cs); err != nil {
		return false, "", err
	}
	s := spaceByName(cs.Space)
	if s == nil {
		return false, "", fmt.Errorf("unknown space %q", cs.Space)
	}
	switch stage {
	case "pattern":
		bad, msg := c01AllChannels(cs)
		return bad, msg, nil
	case "8vs16":
		var a, b float32
		if s.From8 != nil {
			a, b = s.From8(uint8(cs.Code)), s.From16(uint16(257*cs.Code))
		} else {
			ca, _ := s.FromNRGBA(color.NRGBA{R: uint8(cs.Code), A: 255})
			cb, _ := s.FromEncoded(color.RGBA64{R: uint16(257 * cs.Code), A: 65535})
			a, b = ca.R, cb.R
		}
		return math.Float32bits(a) != math.Float32bits(b), fmt.Sprintf("8-bit %.9g vs 16-bit %.9g", a, b), nil
	case "monotone":
		if cs.Code == 0 {
			return false, "first code", nil
		}
		v1, q, ok := c01Decode(s, cs.Entry, cs.Channel, cs.Code)
		v0, _, _ := c01Decode(s, cs.Entry, cs.Channel, cs.Code-1)
		if !ok {
			return false, "", fmt.Errorf("entry not applicable")
		}
		if q {
			return v1 < v0, fmt.Sprintf("%v then %v", v0, v1), nil
		}
		return !(v1 > v0), fmt.Sprintf("%v then %v", v0, v1), nil
	}
	bad, _, msg, _ := c01Point(cs)
	return bad, msg, nil
}

func init() {
	core.Register(&core.Property{ID: "C01", Level: "exploration", Run: runC01, Replay: replayC01, Child: variantChild("C01", "exploration", runC01)})
}
