//go:build all || c09 || c08 || c19

package props

import (
	"bufio"
	"bytes"
	"context"
	"encoding/base64"
	"encoding/binary"
	"encoding/json"
	"fmt"
	"os"
	"os/exec"
	"regexp"
	"runtime"
	"runtime/debug"
	"sort"
	"strings"
	"sync"
	"sync/atomic"
	"syscall"
	"time"

	"verifharness/internal/core"
	"verifharness/internal/imggen"
	"verifharness/internal/src"
)

// C09 — hostile input cannot crash, hang, or balloon memory.

const (
	c09AllocBase    = 2 << 20 // bytes
	c09AllocPerByte = 16384
	c09CPUBaseNs    = 2_000_000_000
	c09CPUPerByteNs = 2000
)

type c09Blob struct {
	Entry  string // "load" (specific loader of Format + autometa, then the accessor chain) | "icc" (ReadProfile -> Description)
	Format string
	Data   []byte
	Desc   string // how it was made
	Class  string // NT class: field mutated / value class / stage
}

type c09Witness struct {
	Index  int    `json:"case_index"`
	Desc   string `json:"how_made"`
	Entry  string `json:"entry"`
	Format string `json:"format"`
	Bytes  int    `json:"input_bytes"`
	File   string `json:"input_base64,omitempty"`
	Path   string `json:"input_path,omitempty"`
	Alloc  uint64 `json:"allocated_bytes,omitempty"`
	CPUns  int64  `json:"cpu_ns,omitempty"`
}

// ---- the part that runs the library (child side) ------------------------------

var digitRun = regexp.MustCompile(`[0-9]+`)

func normErr(err error) string {
	if err == nil {
		return "ok"
	}
	s := err.Error()
	if len(s) > 60 {
		s = s[:60]
	}
	return "err:" + digitRun.ReplaceAllString(s, "#")
}

// c09Exercise drives the full public accessor chain on one blob. It returns an
// outcome class and, when a panic escaped a public call, which call.
// which selects the loader for "load" blobs: 0 = the format's own loader, 1 = autometa
// (each chain is measured on its own: the laws are per call chain).
func c09Exercise(b c09Blob, which int) (outcome string, escaped string, readsAfterEnd int64) {
	var parts []string
	chain := func(loader string) {
		s := src.New(b.Data)
		res := loadWith(loader, s)
		if res.Panic != nil {
			escaped = fmt.Sprintf("%s.Load: %v", loader, res.Panic)
			return
		}
		if res.Stream == nil {
			parts = append(parts, loader+":nil-stream")
		}
		if s.CallsAfterEnd > readsAfterEnd {
			readsAfterEnd = s.CallsAfterEnd
		}
		parts = append(parts, loader+":"+normErr(res.Err))
		if res.MD == nil {
			return
		}
		func() {
			defer func() {
				if p := recover(); p != nil {
					escaped = fmt.Sprintf("meta.Data.ICCProfile after %s.Load: %v", loader, p)
				}
			}()
			p, err := res.MD.ICCProfile()
			parts = append(parts, "ICCProfile:"+normErr(err))
			// the accessors may be called any number of times
			_, _ = res.MD.ICCProfileData()
			if p2, err2 := res.MD.ICCProfile(); (p2 == nil) != (p == nil) || (err2 == nil) != (err == nil) {
				parts = append(parts, "ICCProfile-second-call-differs")
			}
			if p == nil {
				return
			}
			func() {
				defer func() {
					if q := recover(); q != nil {
						escaped = fmt.Sprintf("icc.Profile.Description after %s.Load: %v", loader, q)
					}
				}()
				_, derr := p.Description()
				parts = append(parts, "Description:"+normErr(derr))
			}()
		}()
	}
	switch b.Entry {
	case "load":
		if which == 0 && b.Format != "" {
			chain(loaderFor(b.Format))
		} else {
			chain("autometa")
		}
	case "icc-batch":
		// Data = records of (4-byte big-endian length, profile bytes); eight goroutines read them at
		// once (hostile profiles arrive on several connections at a time; whatever the parser keeps
		// per process - interned signatures, pools - must survive that: a Go runtime fault such as
		// "concurrent map writes" cannot be recovered and takes the process down)
		var recs [][]byte
		for d := b.Data; len(d) >= 4; {
			n := int(binary.BigEndian.Uint32(d))
			if n > len(d)-4 {
				break
			}
			recs = append(recs, d[4:4+n])
			d = d[4+n:]
		}
		var wg sync.WaitGroup
		var mu sync.Mutex
		counts := map[string]int{}
		for g := 0; g < 8; g++ {
			wg.Add(1)
			go func(g int) {
				defer wg.Done()
				for i := g; i < len(recs); i += 8 {
					p, err, pan := readProfile(bytes.NewReader(recs[i]))
					out := "ReadProfile:" + normErr(err)
					if pan != nil {
						mu.Lock()
						escaped = fmt.Sprintf("icc.ProfileReader.ReadProfile (one of eight concurrent readers): %v", pan)
						mu.Unlock()
						continue
					}
					if p != nil {
						_, derr, dpan := description(p)
						if dpan != nil {
							mu.Lock()
							escaped = fmt.Sprintf("icc.Profile.Description (one of eight concurrent readers): %v", dpan)
							mu.Unlock()
							continue
						}
						out += "|Description:" + normErr(derr)
					}
					mu.Lock()
					counts[out]++
					mu.Unlock()
				}
			}(g)
		}
		wg.Wait()
		keys := make([]string, 0, len(counts))
		for k := range counts {
			keys = append(keys, k)
		}
		sort.Strings(keys)
		for _, k := range keys {
			parts = append(parts, fmt.Sprintf("%dx(%s)", counts[k], k))
		}
	case "icc":
		p, err, pan := readProfile(bytes.NewReader(b.Data))
		if pan != nil {
			return "", fmt.Sprintf("icc.ProfileReader.ReadProfile: %v", pan), 0
		}
		parts = append(parts, "ReadProfile:"+normErr(err))
		if p != nil {
			_, derr, dpan := description(p)
			if dpan != nil {
				return "", fmt.Sprintf("icc.Profile.Description: %v", dpan), 0
			}
			parts = append(parts, "Description:"+normErr(derr))
		}
	}
	return strings.Join(parts, "|"), escaped, readsAfterEnd
}

func threadCPU() int64 {
	var ru syscall.Rusage
	_ = syscall.Getrusage(1 /* RUSAGE_THREAD */, &ru)
	return ru.Utime.Nano() + ru.Stime.Nano()
}

// childC09: args = tier seed shard nshards [only-index]
func childC09(args []string) int {
	if len(args) < 3 {
		return 2
	}
	var shard, nshards int
	only := -1
	fmt.Sscanf(args[1], "%d", &shard)
	fmt.Sscanf(args[2], "%d", &nshards)
	if len(args) > 3 {
		fmt.Sscanf(args[3], "%d", &only)
	}
	runtime.LockOSThread()
	lim := syscall.Rlimit{Cur: 12 << 30, Max: 12 << 30}
	_ = syscall.Setrlimit(syscall.RLIMIT_AS, &lim)
	g := newC09Gen(core.Seed(), args[0] == "thorough")
	w := bufio.NewWriterSize(os.Stdout, 1<<16)
	defer w.Flush()
	var ms runtime.MemStats
	runtime.ReadMemStats(&ms)
	prev := ms.TotalAlloc
	do := func(i int) {
		b := g.make(i)
		chains := 1
		if b.Entry == "load" && b.Format != "" {
			chains = 2
		}
		for which := 0; which < chains; which++ {
			fmt.Fprintf(w, "S %d\n", i)
			w.Flush()
			runtime.ReadMemStats(&ms)
			prev = ms.TotalAlloc
			c0 := threadCPU()
			outcome, escaped, rae := c09Exercise(b, which)
			c1 := threadCPU()
			runtime.ReadMemStats(&ms)
			alloc := ms.TotalAlloc - prev
			if alloc > 256<<20 {
				debug.FreeOSMemory()
			}
			rec := map[string]any{"i": i, "n": len(b.Data), "alloc": alloc, "cpu": c1 - c0, "out": outcome, "class": b.Class, "rae": rae, "last": which == chains-1}
			if escaped != "" {
				rec["escaped"] = escaped
			}
			js, _ := json.Marshal(rec)
			fmt.Fprintf(w, "D %s\n", js)
		}
	}
	if only >= 0 {
		do(only)
		return 0
	}
	for i := shard; i < g.total(); i += nshards {
		do(i)
	}
	fmt.Fprintf(w, "END %d\n", shard)
	return 0
}

// ---- case generation (deterministic in seed, tier) -----------------------------

type c09Seed struct {
	name   string
	format string // container format, or "ICC"
	data   []byte
	fields []imggen.Field
}

type c09Gen struct {
	seed     int64
	thorough bool
	seeds    []c09Seed
	profiles []c09Seed // ICC seeds (also re-embedded)
	// stage boundaries
	matrix  []c09MatrixItem
	pairs   []c09PairItem
	nTrunc  []int // cumulative
	nMut    int
	crafted []c09Blob
}

type c09MatrixItem struct {
	seed, field, value int
}
type c09PairItem struct {
	seed, f1, f2, v1, v2 int
}

func c09Values(cur uint64, width int, fileLen int) []uint64 {
	vals := []uint64{0, 1, 2, 8, 9, 11, 12, 13, cur + 1, cur - 1, cur + 2, cur - 2, 1<<15 - 1, 1 << 15, 1<<15 + 1, 1<<16 - 1, 1 << 16, 1<<16 + 1,
		1 << 24, 1<<31 - 1, 1 << 31, 1<<32 - 132, 1<<32 - 12, 1<<32 - 1,
		uint64(fileLen), uint64(fileLen) + 1, uint64(fileLen) - 1, 1<<32 - cur, 1<<32 - cur + 1, 1<<32 - cur + uint64(fileLen), 1<<32 - cur + uint64(fileLen) + 1,
		127, 128, 255, 256, 4095, 4096, 1 << 22, 1 << 28, 0x7fff0000}
	mask := uint64(1)<<(8*uint(width)) - 1
	out := make([]uint64, 0, len(vals))
	seen := map[uint64]bool{}
	for _, v := range vals {
		v &= mask
		if !seen[v] {
			seen[v] = true
			out = append(out, v)
		}
	}
	return out
}

func fieldGet(b []byte, f imggen.Field) uint64 {
	var v uint64
	for i := 0; i < f.Len && f.Off+i < len(b); i++ {
		if f.LE {
			v |= uint64(b[f.Off+i]) << (8 * uint(i))
		} else {
			v = v<<8 | uint64(b[f.Off+i])
		}
	}
	return v
}

func fieldPut(b []byte, f imggen.Field, v uint64) {
	for i := 0; i < f.Len && f.Off+i < len(b); i++ {
		if f.LE {
			b[f.Off+i] = byte(v >> (8 * uint(i)))
		} else {
			b[f.Off+i] = byte(v >> (8 * uint(f.Len-1-i)))
		}
	}
}

func numericFields(fs []imggen.Field) []imggen.Field {
	var out []imggen.Field
	for _, f := range fs {
		if f.Kind != "sig" && f.Kind != "data" && f.Len <= 4 {
			out = append(out, f)
		}
	}
	return out
}

// iccSeed builds an ICC profile seed with every length/count/offset field located.
func c09ICCSeed(rng *core.RNG, name string, mlucRecs int, v2len int) c09Seed {
	var desc []byte
	var mf []imggen.Field
	if mlucRecs == 0 {
		desc = imggen.TextDescription(latin1(rng, v2len))
		mf = []imggen.Field{{Name: "desc.asciicount", Off: 8, Len: 4, Kind: "count"}}
	} else {
		recs := make([]imggen.MlucRecord, mlucRecs)
		for i := range recs {
			recs[i] = imggen.MlucRecord{Lang: []string{"de", "en", "fr", "ja"}[i%4], Country: "US", Text: c17Text(rng, "ascii", 4+rng.Intn(12))}
		}
		desc, mf = imggen.Mluc(recs, nil, 0, 12)
	}
	spec := imggen.ICCSpec{Header: imggen.MinimalHeader(mlucRecs > 0), Tags: []imggen.ICCTag{{Sig: "cprt", Data: rng.Bytes(20)}, {Sig: "desc", Data: desc}, {Sig: "wtpt", Data: rng.Bytes(20)}}}
	b, t := spec.Build()
	fields := append([]imggen.Field{}, t.Fields...)
	for _, f := range mf {
		f.Off += t.TagOff["desc"]
		fields = append(fields, f)
	}
	return c09Seed{name, "ICC", b, fields}
}

func newC09Gen(seed int64, thorough bool) *c09Gen {
	g := &c09Gen{seed: seed, thorough: thorough}
	rng := core.NewRNG(seed, "C09", "seeds")
	for _, s := range smallSeeds(seed) {
		if len(s.Bytes) == 0 {
			continue
		}
		g.seeds = append(g.seeds, c09Seed{s.Name, s.Truth.Format, s.Bytes, s.Truth.Fields})
	}
	g.profiles = []c09Seed{
		c09ICCSeed(rng, "icc-v2", 0, 24), c09ICCSeed(rng, "icc-v2-empty", 0, 0), c09ICCSeed(rng, "icc-mluc1", 1, 0), c09ICCSeed(rng, "icc-mluc3", 3, 0), c09ICCSeed(rng, "icc-mluc9", 9, 0),
	}
	for _, rf := range realFiles() {
		res := loadWith("autometa", bytes.NewReader(rf.Bytes))
		if res.MD == nil {
			continue
		}
		if d, err := iccDataOf(res.MD); err == nil && d != nil && len(d) < 8000 {
			g.profiles = append(g.profiles, c09Seed{"real-icc:" + rf.Name, "ICC", d, iccFieldsOf(d)})
		}
	}
	all := append(append([]c09Seed{}, g.seeds...), g.profiles...)
	g.seeds = all
	// (a) field matrix
	for si, s := range g.seeds {
		nf := numericFields(s.fields)
		for fi, f := range nf {
			for vi := range c09Values(fieldGet(s.data, f), f.Len, len(s.data)) {
				g.matrix = append(g.matrix, c09MatrixItem{si, fi, vi})
			}
		}
		// (a') pairs of related fields
		for a := 0; a < len(nf); a++ {
			for b := a + 1; b < len(nf); b++ {
				if !c09Related(nf[a], nf[b]) {
					continue
				}
				va := c09Values(fieldGet(s.data, nf[a]), nf[a].Len, len(s.data))
				vb := c09Values(fieldGet(s.data, nf[b]), nf[b].Len, len(s.data))
				stepA, stepB := 1, 1
				if !thorough {
					stepA, stepB = 2, 3
				}
				for x := 0; x < len(va); x += stepA {
					for y := (x % stepB); y < len(vb); y += stepB {
						g.pairs = append(g.pairs, c09PairItem{si, a, b, x, y})
					}
				}
			}
		}
	}
	// (c) truncations
	cum := 0
	for _, s := range g.seeds {
		cum += len(s.data)
		g.nTrunc = append(g.nTrunc, cum)
	}
	// (b) mutations
	g.nMut = 20000
	if thorough {
		g.nMut = 1500000
	}
	g.crafted = c09Crafted(rng)
	return g
}

// related fields: consecutive fields of one structure (offset+size, count+recsize, length+offset ...)
func c09Related(a, b imggen.Field) bool {
	pa, pb := a.Name, b.Name
	if i := strings.LastIndex(pa, "."); i > 0 {
		pa = pa[:i]
	}
	if i := strings.LastIndex(pb, "."); i > 0 {
		pb = pb[:i]
	}
	if pa == pb {
		return true
	}
	if strings.HasPrefix(a.Name, "mluc.count") || strings.HasPrefix(a.Name, "mluc.recsize") {
		return strings.HasPrefix(b.Name, "mluc.")
	}
	if a.Name == "tagcount" && strings.HasPrefix(b.Name, "tag0.") {
		return true
	}
	return false
}

func iccFieldsOf(d []byte) []imggen.Field {
	if len(d) < 132 {
		return nil
	}
	fs := []imggen.Field{{Name: "header.size", Off: 0, Len: 4, Kind: "length"}, {Name: "tagcount", Off: 128, Len: 4, Kind: "count"}}
	n := int(binary.BigEndian.Uint32(d[128:]))
	for i := 0; i < n && i < 40 && 132+12*i+12 <= len(d); i++ {
		o := 132 + 12*i
		sig := string(d[o : o+4])
		fs = append(fs, imggen.Field{Name: fmt.Sprintf("tag%d.%s.offset", i, sig), Off: o + 4, Len: 4, Kind: "offset"}, imggen.Field{Name: fmt.Sprintf("tag%d.%s.size", i, sig), Off: o + 8, Len: 4, Kind: "length"})
		if sig == "desc" {
			to := int(binary.BigEndian.Uint32(d[o+4:]))
			if to+16 <= len(d) {
				if string(d[to:to+4]) == "mluc" {
					fs = append(fs, imggen.Field{Name: "mluc.count", Off: to + 8, Len: 4, Kind: "count"}, imggen.Field{Name: "mluc.recsize", Off: to + 12, Len: 4, Kind: "length"})
					rc := int(binary.BigEndian.Uint32(d[to+8:]))
					for k := 0; k < rc && k < 6 && to+16+12*k+12 <= len(d); k++ {
						fs = append(fs, imggen.Field{Name: fmt.Sprintf("mluc.rec%d.length", k), Off: to + 16 + 12*k + 4, Len: 4, Kind: "length"}, imggen.Field{Name: fmt.Sprintf("mluc.rec%d.offset", k), Off: to + 16 + 12*k + 8, Len: 4, Kind: "offset"})
					}
				} else {
					fs = append(fs, imggen.Field{Name: "desc.asciicount", Off: to + 8, Len: 4, Kind: "count"})
				}
			}
		}
	}
	return fs
}

func (g *c09Gen) total() int {
	return len(g.matrix) + len(g.pairs) + g.nTrunc[len(g.nTrunc)-1] + g.nMut + len(g.crafted)
}

func valueClass(v uint64) string {
	switch {
	case v == 0:
		return "0"
	case v < 16:
		return "small"
	case v < 1<<16:
		return "<2^16"
	case v < 1<<31:
		return "<2^31"
	}
	return ">=2^31"
}

func (g *c09Gen) blobFor(s c09Seed, data []byte, desc, class string) c09Blob {
	if s.format == "ICC" {
		return c09Blob{Entry: "icc", Format: "ICC", Data: data, Desc: desc, Class: class}
	}
	return c09Blob{Entry: "load", Format: s.format, Data: data, Desc: desc, Class: class}
}

func (g *c09Gen) make(i int) c09Blob {
	if i < len(g.matrix) {
		m := g.matrix[i]
		s := g.seeds[m.seed]
		f := numericFields(s.fields)[m.field]
		v := c09Values(fieldGet(s.data, f), f.Len, len(s.data))[m.value]
		d := append([]byte{}, s.data...)
		fieldPut(d, f, v)
		return g.embedMaybe(s, d, i, fmt.Sprintf("%s: field %s := %#x", s.name, f.Name, v), fmt.Sprintf("matrix/%s/%s/%s", s.format, fieldKind(f), valueClass(v)))
	}
	i -= len(g.matrix)
	if i < len(g.pairs) {
		p := g.pairs[i]
		s := g.seeds[p.seed]
		nf := numericFields(s.fields)
		f1, f2 := nf[p.f1], nf[p.f2]
		v1 := c09Values(fieldGet(s.data, f1), f1.Len, len(s.data))[p.v1]
		v2 := c09Values(fieldGet(s.data, f2), f2.Len, len(s.data))[p.v2]
		d := append([]byte{}, s.data...)
		fieldPut(d, f1, v1)
		fieldPut(d, f2, v2)
		return g.embedMaybe(s, d, i, fmt.Sprintf("%s: %s := %#x, %s := %#x", s.name, f1.Name, v1, f2.Name, v2), fmt.Sprintf("pair/%s/%s+%s/%s+%s", s.format, fieldKind(f1), fieldKind(f2), valueClass(v1), valueClass(v2)))
	}
	i -= len(g.pairs)
	if i < g.nTrunc[len(g.nTrunc)-1] {
		si := sort.SearchInts(g.nTrunc, i+1)
		off := i
		if si > 0 {
			off = i - g.nTrunc[si-1]
		}
		s := g.seeds[si]
		return g.blobFor(s, s.data[:off], fmt.Sprintf("%s truncated to %d bytes", s.name, off), "trunc/"+s.format)
	}
	i -= g.nTrunc[len(g.nTrunc)-1]
	if i < g.nMut {
		rng := core.NewRNG(g.seed, "C09", "mut", fmt.Sprint(i))
		s := g.seeds[rng.Intn(len(g.seeds))]
		d := c09Mutate(rng, s.data, s.fields, g.seeds)
		return g.embedMaybe(s, d, i, fmt.Sprintf("%s: structure-aware mutation #%d", s.name, i), "mutation/"+s.format)
	}
	i -= g.nMut
	return g.crafted[i]
}

func fieldKind(f imggen.Field) string {
	n := f.Name
	// strip indices so that classes stay few
	n = digitRun.ReplaceAllString(n, "")
	return n
}

// embedMaybe: an ICC blob is exercised directly and, every third time, re-embedded in a container.
func (g *c09Gen) embedMaybe(s c09Seed, d []byte, i int, desc, class string) c09Blob {
	if s.format != "ICC" || i%3 != 0 {
		return g.blobFor(s, d, desc, class)
	}
	switch (i / 3) % 3 {
	case 0:
		sp := imggen.PNGSpec{W: 5, H: 7, Depth: 8, ColorType: 2, ICC: &imggen.PNGICC{Name: "m", Profile: d, Level: 6}, IDAT: []byte{1, 2}}
		b, _ := sp.Build()
		return c09Blob{Entry: "load", Format: "PNG", Data: b, Desc: desc + " (embedded in PNG)", Class: class + "/in-png"}
	case 1:
		n := (len(d) + 65518) / 65519
		if n < 1 {
			n = 1
		}
		var segs []imggen.JPEGSeg
		for k, part := range imggen.SplitICC(d, n) {
			segs = append(segs, imggen.ICCChunkSeg(k+1, n, part))
		}
		b, _ := imggen.JPEGSpec{Precision: 8, W: 5, H: 7, Comps: imggen.StdComps(1, 1, 1), Before: segs}.Build()
		return c09Blob{Entry: "load", Format: "JPEG", Data: b, Desc: desc + " (embedded in JPEG)", Class: class + "/in-jpeg"}
	default:
		b, _ := imggen.WebPSpec{Kind: "VP8X", W: 5, H: 7, ICC: d}.Build()
		return c09Blob{Entry: "load", Format: "WebP", Data: b, Desc: desc + " (embedded in WebP)", Class: class + "/in-webp"}
	}
}

// c09Mutate: splice / duplicate / delete / reorder regions, header-confined bit flips, field rewrites.
func c09Mutate(rng *core.RNG, data []byte, fields []imggen.Field, all []c09Seed) []byte {
	m := append([]byte{}, data...)
	for k := 0; k < 1+rng.Intn(4); k++ {
		if len(m) == 0 {
			break
		}
		switch rng.Intn(8) {
		case 0: // numeric field := hostile value
			nf := numericFields(fields)
			if len(nf) > 0 {
				f := nf[rng.Intn(len(nf))]
				if f.Off+f.Len <= len(m) {
					vs := c09Values(fieldGet(m, f), f.Len, len(m))
					fieldPut(m, f, vs[rng.Intn(len(vs))])
				}
			}
		case 1: // bit flip confined to the first 256 bytes (headers)
			lim := len(m)
			if lim > 256 {
				lim = 256
			}
			m[rng.Intn(lim)] ^= 1 << uint(rng.Intn(8))
		case 2: // delete a region
			if len(m) > 2 {
				i := rng.Intn(len(m) - 1)
				j := i + 1 + rng.Intn(min(200, len(m)-i-1))
				m = append(m[:i], m[j:]...)
			}
		case 3: // duplicate a region
			if len(m) > 2 {
				i := rng.Intn(len(m) - 1)
				j := i + 1 + rng.Intn(min(200, len(m)-i-1))
				dup := append([]byte{}, m[i:j]...)
				m = append(m[:j], append(dup, m[j:]...)...)
			}
		case 4: // splice in a region of another seed
			o := all[rng.Intn(len(all))].data
			if len(o) > 2 {
				i := rng.Intn(len(o) - 1)
				j := i + 1 + rng.Intn(min(300, len(o)-i-1))
				at := rng.Intn(len(m) + 1)
				m = append(m[:at], append(append([]byte{}, o[i:j]...), m[at:]...)...)
			}
		case 5: // swap two regions between field boundaries
			if len(fields) >= 3 {
				a, b := fields[rng.Intn(len(fields))], fields[rng.Intn(len(fields))]
				if a.Off+a.Len <= len(m) && b.Off+b.Len <= len(m) && a.Len == b.Len {
					for x := 0; x < a.Len; x++ {
						m[a.Off+x], m[b.Off+x] = m[b.Off+x], m[a.Off+x]
					}
				}
			}
		case 6: // random byte
			m[rng.Intn(len(m))] = byte(rng.Intn(256))
		case 7: // truncate
			m = m[:rng.Intn(len(m)+1)]
		}
	}
	return m
}

// c09Crafted: amplification attempts a field-at-a-time matrix cannot build.
func c09Crafted(rng *core.RNG) []c09Blob {
	var out []c09Blob
	add := func(entry, format string, data []byte, desc string) {
		out = append(out, c09Blob{Entry: entry, Format: format, Data: data, Desc: desc, Class: "crafted/" + strings.SplitN(desc, ":", 2)[0]})
	}
	// mluc with as many records as fit, every record pointing at the whole tag
	for _, n := range []int{2000, 20000, 120000} {
		recs := (n - 16) / 12
		tag := make([]byte, n)
		copy(tag, "mluc")
		binary.BigEndian.PutUint32(tag[8:], uint32(recs))
		binary.BigEndian.PutUint32(tag[12:], 12)
		for k := 0; k < recs; k++ {
			o := 16 + 12*k
			copy(tag[o:], "xxYY")
			tag[o], tag[o+1] = byte('a'+k%26), byte('a'+(k/26)%26)
			binary.BigEndian.PutUint32(tag[o+4:], uint32(n-2))
			binary.BigEndian.PutUint32(tag[o+8:], 0)
		}
		prof, _ := imggen.ICCSpec{Header: imggen.MinimalHeader(true), Tags: []imggen.ICCTag{{Sig: "desc", Data: tag}}}.Build()
		add("icc", "ICC", prof, fmt.Sprintf("mluc-all-records-point-at-whole-tag: %d records x %d bytes", recs, n))
		sp := imggen.PNGSpec{W: 5, H: 7, Depth: 8, ColorType: 2, ICC: &imggen.PNGICC{Name: "m", Profile: prof, Level: 9}, IDAT: []byte{1, 2}}
		b, _ := sp.Build()
		add("load", "PNG", b, fmt.Sprintf("mluc-all-records-point-at-whole-tag: %d records x %d bytes, deflated into a %d-byte PNG", recs, n, len(b)))
	}
	// description elements shorter than their fixed part (0..28 bytes of a well-formed element),
	// and a v2 description whose text is all NUL bytes
	{
		full := map[string][]byte{"desc": imggen.TextDescription("short element"), "mluc": nil}
		full["mluc"], _ = imggen.Mluc([]imggen.MlucRecord{{Lang: "en", Country: "US", Text: []uint16{'s', 'h', 'o', 'r', 't'}}}, nil, 0, 12)
		for _, typ := range []string{"desc", "mluc"} {
			for n := 0; n <= 28 && n <= len(full[typ]); n++ {
				prof, _ := imggen.ICCSpec{Header: imggen.MinimalHeader(typ == "mluc"), Tags: []imggen.ICCTag{{Sig: "desc", Data: full[typ][:n]}, {Sig: "cprt", Data: []byte{1, 2, 3, 4}}}}.Build()
				add("icc", "ICC", prof, fmt.Sprintf("short-description-element: %s element cut to %d bytes", typ, n))
			}
		}
		for _, n := range []int{1, 2, 3, 16, 300} {
			el := imggen.TextDescription(string(make([]byte, n)))
			prof, _ := imggen.ICCSpec{Header: imggen.MinimalHeader(false), Tags: []imggen.ICCTag{{Sig: "desc", Data: el}}}.Build()
			add("icc", "ICC", prof, fmt.Sprintf("nul-description: v2 description of %d NUL bytes", n))
			sp := imggen.PNGSpec{W: 5, H: 7, Depth: 8, ColorType: 2, ICC: &imggen.PNGICC{Name: "n", Profile: prof, Level: 6}, IDAT: []byte{1, 2}}
			b, _ := sp.Build()
			add("load", "PNG", b, fmt.Sprintf("nul-description: v2 description of %d NUL bytes, in a PNG", n))
		}
	}
	// mluc with very many records, every one with a locale of its own and a short string of its own
	// (parsing or looking up must not be quadratic in the number of records)
	for _, recs := range []int{20000, 400000} {
		n := 16 + 12*recs + 2*recs
		tag := make([]byte, n)
		copy(tag, "mluc")
		binary.BigEndian.PutUint32(tag[8:], uint32(recs))
		binary.BigEndian.PutUint32(tag[12:], 12)
		for k := 0; k < recs; k++ {
			o := 16 + 12*k
			tag[o], tag[o+1] = byte('a'+k%26), byte('a'+(k/26)%26)
			tag[o+2], tag[o+3] = byte('A'+(k/676)%26), byte(k/17576)
			binary.BigEndian.PutUint32(tag[o+4:], 2)
			binary.BigEndian.PutUint32(tag[o+8:], uint32(16+12*recs+2*k))
			tag[16+12*recs+2*k+1] = byte('0' + k%10)
		}
		prof, _ := imggen.ICCSpec{Header: imggen.MinimalHeader(true), Tags: []imggen.ICCTag{{Sig: "desc", Data: tag}}}.Build()
		add("icc", "ICC", prof, fmt.Sprintf("mluc-many-distinct-records: %d records with distinct locales (%d bytes)", recs, len(prof)))
	}
	// mluc with many records that all cover one shared run of bytes of one value (zero code units,
	// spaces, byte order marks): work per record must not grow with what the record's string holds
	for _, sh := range []struct {
		recs, run int
		unit      [2]byte
	}{{20000, 200 << 10, [2]byte{0, 0}}, {100000, 1200 << 10, [2]byte{0, 0}}, {100000, 1200 << 10, [2]byte{0, ' '}}, {60000, 600 << 10, [2]byte{0xFE, 0xFF}}, {60000, 600 << 10, [2]byte{0, 'A'}}} {
		n := 16 + 12*sh.recs + sh.run
		tag := make([]byte, n)
		copy(tag, "mluc")
		binary.BigEndian.PutUint32(tag[8:], uint32(sh.recs))
		binary.BigEndian.PutUint32(tag[12:], 12)
		for k := 0; k < sh.recs; k++ {
			o := 16 + 12*k
			tag[o], tag[o+1] = byte('a'+k%26), byte('a'+(k/26)%26)
			tag[o+2], tag[o+3] = byte('A'+(k/676)%26), byte('A'+(k/17576)%26)
			binary.BigEndian.PutUint32(tag[o+4:], uint32(sh.run))
			binary.BigEndian.PutUint32(tag[o+8:], uint32(16+12*sh.recs))
		}
		for i := 16 + 12*sh.recs; i+1 < n; i += 2 {
			tag[i], tag[i+1] = sh.unit[0], sh.unit[1]
		}
		prof, _ := imggen.ICCSpec{Header: imggen.MinimalHeader(true), Tags: []imggen.ICCTag{{Sig: "desc", Data: tag}}}.Build()
		add("icc", "ICC", prof, fmt.Sprintf("mluc-shared-run: %d records all covering one run of %d bytes of %#02x%02x (%d input bytes)", sh.recs, sh.run, sh.unit[0], sh.unit[1], len(prof)))
	}
	// mluc records of length 0, 1, 2 and 3 whose offsets point at another record's byte order mark,
	// at the last bytes of the tag, and just past them
	for _, bom := range [][]byte{{0xFE, 0xFF}, {0xFF, 0xFE}, {0xEF, 0xBB, 0xBF}} {
		for _, l := range []uint32{0, 1, 2, 3} {
			for _, where := range []string{"at-mark", "at-last-bytes", "mark-last"} {
				text := append(append([]byte{}, bom...), 0, 'm', 0, 'a', 0, 'r', 0, 'k')
				if where == "mark-last" {
					text = append([]byte{0, 'm', 0, 'a'}, bom...)
				}
				nrec := 2
				n := 16 + 12*nrec + len(text)
				tag := make([]byte, n)
				copy(tag, "mluc")
				binary.BigEndian.PutUint32(tag[8:], uint32(nrec))
				binary.BigEndian.PutUint32(tag[12:], 12)
				copy(tag[16:], "deDE")
				binary.BigEndian.PutUint32(tag[20:], uint32(len(text)))
				binary.BigEndian.PutUint32(tag[24:], uint32(16+12*nrec))
				copy(tag[28:], "enUS")
				binary.BigEndian.PutUint32(tag[32:], l)
				off := uint32(16 + 12*nrec)
				switch where {
				case "at-last-bytes":
					off = uint32(n) - l
				case "mark-last":
					off = uint32(n - len(bom))
				}
				binary.BigEndian.PutUint32(tag[36:], off)
				copy(tag[16+12*nrec:], text)
				for _, first := range []bool{false, true} {
					t2 := append([]byte{}, tag...)
					if first { // the short record first, the full one second
						copy(t2[16:28], tag[28:40])
						copy(t2[28:40], tag[16:28])
					}
					prof, _ := imggen.ICCSpec{Header: imggen.MinimalHeader(true), Tags: []imggen.ICCTag{{Sig: "desc", Data: t2}}}.Build()
					add("icc", "ICC", prof, fmt.Sprintf("mluc-short-record-at-mark: %d-byte record %s (mark % x, short record first: %v)", l, where, bom, first))
				}
			}
		}
	}
	// v2 descriptions whose text is really there and really long (ASCII, Latin-1 bytes, NULs)
	for _, n := range []int{100 << 10, 384 << 10, 2 << 20} {
		for _, fill := range []byte{'A', 0xE9, 0} {
			if n > 1<<20 && fill != 'A' {
				continue
			}
			el := imggen.TextDescription(string(bytes.Repeat([]byte{fill}, n)))
			prof, _ := imggen.ICCSpec{Header: imggen.MinimalHeader(false), Tags: []imggen.ICCTag{{Sig: "desc", Data: el}}}.Build()
			add("icc", "ICC", prof, fmt.Sprintf("long-description: v2 description of %d bytes of %#02x (%d input bytes)", n, fill, len(prof)))
			if n == 384<<10 && fill == 'A' {
				sp := imggen.PNGSpec{W: 5, H: 7, Depth: 8, ColorType: 2, ICC: &imggen.PNGICC{Name: "l", Profile: prof, Level: 1}, IDAT: []byte{1, 2}}
				b, _ := sp.Build()
				add("load", "PNG", b, fmt.Sprintf("long-description: v2 description of %d bytes, deflated into a %d-byte PNG", n, len(b)))
			}
		}
	}
	// very many tags of one byte each, all different, none overlapping (work per tag must not grow
	// with the number of tags)
	for _, nt := range []int{150000, 300000} {
		var tags []imggen.ICCTag
		for i := 0; i < nt; i++ {
			tags = append(tags, imggen.ICCTag{Sig: string([]byte{byte('A' + i%26), byte('a' + (i/26)%26), byte('0' + (i/676)%10), byte(33 + (i/6760)%90)}), Data: []byte{byte(i)}})
		}
		tags = append(tags, imggen.ICCTag{Sig: "desc", Data: imggen.TextDescription("many small tags")})
		prof, _ := imggen.ICCSpec{Header: imggen.MinimalHeader(false), Tags: tags}.Build()
		add("icc", "ICC", prof, fmt.Sprintf("many-small-tags: %d tags of one byte each (%d input bytes)", nt, len(prof)))
	}
	// a profile that is itself a zlib stream of a zlib stream of zeros: the embedded bytes are whatever
	// one inflation yields, and nothing in them is to be inflated again
	for _, n := range []int{16 << 20, 128 << 20} {
		inner := imggen.Deflate(make([]byte, n), 9)
		mid := imggen.Deflate(inner, 9)
		sp := imggen.PNGSpec{W: 5, H: 7, Depth: 8, ColorType: 2, ICC: &imggen.PNGICC{Name: "n", Profile: mid, Level: 9}, IDAT: []byte{1}}
		b, _ := sp.Build()
		add("load", "PNG", b, fmt.Sprintf("nested-deflate: the profile is a %d-byte zlib stream of a %d-byte zlib stream of %d zeros, in a %d-byte PNG", len(mid), len(inner), n, len(b)))
		wb, _ := imggen.WebPSpec{Kind: "VP8X", W: 5, H: 7, ICC: mid, Payload: []byte{1, 2, 3}}.Build()
		add("load", "WebP", wb, fmt.Sprintf("nested-deflate: the same %d-byte profile in a WebP", len(mid)))
	}
	// an mluc record whose offset and length are each within the tag but whose sum is not (both
	// fields tuned together), in tags of several sizes and with the record first or last
	for _, n := range []int{64, 200, 1400, 70000} {
		for _, pr := range [][2]int{{n - 8, n - 8}, {n/2 + 4, n/2 + 4}, {n - 2, 4}, {n - 1, 1}, {28, n - 20}, {n, 2}, {n - 2, n}} {
			for _, first := range []bool{true, false} {
				tag := make([]byte, n)
				copy(tag, "mluc")
				binary.BigEndian.PutUint32(tag[8:], 2)
				binary.BigEndian.PutUint32(tag[12:], 12)
				good, odd := 16, 28
				if !first {
					good, odd = 28, 16
				}
				copy(tag[good:], "enUS")
				binary.BigEndian.PutUint32(tag[good+4:], 8)
				binary.BigEndian.PutUint32(tag[good+8:], 40)
				copy(tag[odd:], "deDE")
				binary.BigEndian.PutUint32(tag[odd+4:], uint32(pr[1]))
				binary.BigEndian.PutUint32(tag[odd+8:], uint32(pr[0]))
				copy(tag[40:], []byte{0, 'g', 0, 'o', 0, 'o', 0, 'd'})
				prof, _ := imggen.ICCSpec{Header: imggen.MinimalHeader(true), Tags: []imggen.ICCTag{{Sig: "desc", Data: tag}, {Sig: "cprt", Data: []byte{1, 2, 3, 4}}}}.Build()
				add("icc", "ICC", prof, fmt.Sprintf("mluc-offset-plus-length: a %d-byte tag with a record at offset %d of length %d (odd record first: %v)", n, pr[0], pr[1], !first))
			}
		}
	}
	// thousands of small iCCP chunks none of which inflates, after a valid IHDR (whatever is recorded
	// about each failure must not grow with the number of failures before it)
	for _, cnt := range []int{2000, 8000, 30000} {
		var pre []imggen.PNGChunk
		for i := 0; i < cnt; i++ {
			pre = append(pre, imggen.PNGChunk{Type: "iCCP", Data: []byte{'p', 0, 0, 0x12 + byte(i), 0x34, byte(i >> 8)}})
		}
		b, _ := imggen.PNGSpec{W: 5, H: 7, Depth: 8, ColorType: 2, Pre: pre, IDAT: []byte{1}}.Build()
		add("load", "PNG", b, fmt.Sprintf("png-many-bad-iccp: %d iCCP chunks that do not inflate (%d input bytes)", cnt, len(b)))
	}
	// embedded profiles of exactly 2^k bytes (and one more, one less) whose size field says 1 ... 4
	// bytes more or less than there are, in each container: the raw bytes a loader hands on have
	// no spare capacity to lean on
	for _, n := range []int{512, 1024, 2048, 4096, 8192, 1023, 4097} {
		base, _ := imggen.ICCSpec{Header: imggen.MinimalHeader(false), Tags: []imggen.ICCTag{{Sig: "desc", Data: imggen.TextDescription("exact size")}, {Sig: "A2B0", Data: make([]byte, n)}}}.Build()
		if len(base) < n {
			continue
		}
		for _, d := range []int{1, 2, 3, 4, -1, -3} {
			prof := append([]byte{}, base[:n]...)
			binary.BigEndian.PutUint32(prof[0:], uint32(n+d))
			// keep the tag inside the data that is there
			binary.BigEndian.PutUint32(prof[128+4+12+8:], uint32(n-int(binary.BigEndian.Uint32(prof[128+4+12+4:]))))
			jb, _ := imggen.JPEGSpec{Precision: 8, W: 5, H: 7, Comps: imggen.StdComps(1, 1, 1), Before: []imggen.JPEGSeg{imggen.ICCChunkSeg(1, 1, prof)}, Entropy: []byte{1}}.Build()
			add("load", "JPEG", jb, fmt.Sprintf("exact-size-profile: a %d-byte profile declaring %d bytes, as one JPEG chunk", n, n+d))
			wb, _ := imggen.WebPSpec{Kind: "VP8X", W: 5, H: 7, ICC: prof, Payload: []byte{1, 2, 3}}.Build()
			add("load", "WebP", wb, fmt.Sprintf("exact-size-profile: a %d-byte profile declaring %d bytes, in a WebP", n, n+d))
			if d > 0 && n <= 2048 {
				pb, _ := imggen.PNGSpec{W: 5, H: 7, Depth: 8, ColorType: 2, ICC: &imggen.PNGICC{Name: "e", Profile: prof, Level: 6}, IDAT: []byte{1}}.Build()
				add("load", "PNG", pb, fmt.Sprintf("exact-size-profile: a %d-byte profile declaring %d bytes, in a PNG", n, n+d))
			}
		}
	}
	// a VP8X chunk that declares far more than its ten bytes, with and without the ICC flag
	for _, l := range []uint32{64 << 20, 0x7FFFFFF0, 11, 1 << 20} {
		for _, flags := range []uint8{0x20, 0x00, 0xFF} {
			wb, _ := imggen.WebPSpec{Kind: "VP8X", W: 5, H: 7, Flags: flags, FlagsRaw: true, ICC: []byte("twelve bytes"), Payload: []byte{1, 2, 3}}.Build()
			b := append([]byte{}, wb...)
			if i := bytes.Index(b, []byte("VP8X")); i > 0 {
				binary.LittleEndian.PutUint32(b[i+4:], l)
				add("load", "WebP", b, fmt.Sprintf("long-vp8x: a VP8X chunk declaring %d bytes (flags %#02x) in a %d-byte WebP", l, flags, len(b)))
			}
		}
	}
	// two declared numbers that vouch for each other (a container size and a chunk length inside it,
	// both huge, the file a few dozen bytes): nothing of that size may be set aside before it has arrived
	for _, pr := range [][2]uint32{{0x7FFFFFFF, 0x30000000}, {0xFFFFFFFE, 0xF0000000}, {0x40000000, 0x3FFFFF00}, {0x10000000, 0x0FFFFF00}} {
		wb, _ := imggen.WebPSpec{Kind: "VP8X", W: 5, H: 7, Flags: 0x20, ICC: []byte("twelve bytes"), Payload: []byte{1, 2, 3}}.Build()
		b := append([]byte{}, wb...)
		binary.LittleEndian.PutUint32(b[4:], pr[0])
		if i := bytes.Index(b, []byte("ICCP")); i > 0 {
			binary.LittleEndian.PutUint32(b[i+4:], pr[1])
			add("load", "WebP", b, fmt.Sprintf("vouching-sizes: RIFF size %#x and ICCP length %#x in a %d-byte WebP", pr[0], pr[1], len(b)))
			add("load", "WebP", b[:i+8+12], fmt.Sprintf("vouching-sizes: RIFF size %#x and ICCP length %#x in a WebP that ends %d bytes into the chunk", pr[0], pr[1], 12))
		}
		// PNG: chunk length and (there is no container size) the next chunk's offset; ICC: profile size and tag size
		prof, _ := imggen.ICCSpec{Header: imggen.MinimalHeader(false), Tags: []imggen.ICCTag{{Sig: "desc", Data: imggen.TextDescription("v")}, {Sig: "cprt", Data: []byte{1, 2, 3, 4}}}}.Build()
		p2 := append([]byte{}, prof...)
		binary.BigEndian.PutUint32(p2[0:], pr[0])
		binary.BigEndian.PutUint32(p2[128+4+12+8:], pr[1]) // size of the second tag
		add("icc", "ICC", p2, fmt.Sprintf("vouching-sizes: profile size %#x and a tag size %#x in a %d-byte profile", pr[0], pr[1], len(p2)))
		binary.BigEndian.PutUint32(p2[128+4+12+4:], pr[1]/2) // ... and its offset
		add("icc", "ICC", p2, fmt.Sprintf("vouching-sizes: profile size %#x, tag offset %#x and size %#x in a %d-byte profile", pr[0], pr[1]/2, pr[1], len(p2)))
	}
	// an iCCP stream that is not zlib at all (bad header), short and long: whatever machinery
	// feeds the decompressor must not wait for a reader that has given up
	for _, n := range []int{40, 5000, 70000, 1 << 20} {
		raw := append([]byte{0x12, 0x34}, rng.Bytes(n)...)
		sp := imggen.PNGSpec{W: 5, H: 7, Depth: 8, ColorType: 2, ICC: &imggen.PNGICC{Name: "b", RawStream: raw, State: "damaged"}, Post: []imggen.PNGChunk{{Type: "tEXt", Data: rng.Bytes(300)}}, IDAT: []byte{1, 2}}
		b, _ := sp.Build()
		add("load", "PNG", b, fmt.Sprintf("bad-zlib-header: iCCP stream of %d bytes that does not start with a zlib header", n+2))
		raw2 := append([]byte{0x78, 0x9c}, rng.Bytes(n)...)
		sp.ICC = &imggen.PNGICC{Name: "b", RawStream: raw2, State: "damaged"}
		b, _ = sp.Build()
		add("load", "PNG", b, fmt.Sprintf("bad-deflate-body: iCCP stream of %d bytes with a zlib header and noise behind it", n+2))
	}
	// 4000 damaged profiles, each with a signature / tag type of its own, read by eight goroutines at once
	{
		var batch []byte
		for i := 0; i < 4000; i++ {
			h := imggen.MinimalHeader(i%2 == 0)
			tagType := []byte{byte('a' + i%26), byte('A' + (i/26)%26), byte('0' + (i/676)%10), byte(i)}
			el := append(append([]byte{}, tagType...), 0, 0, 0, 0, 0, 0, 0, 5, 'x', 'y', 'z', 'w', 0)
			prof, _ := imggen.ICCSpec{Header: h, Tags: []imggen.ICCTag{{Sig: "desc", Data: el}, {Sig: string([]byte{byte(i), byte(i >> 8), 'q', 'z'}), Data: []byte{1, 2, 3, 4}}}}.Build()
			if i%3 == 0 {
				copy(prof[36:40], []byte{byte(i), byte(i >> 8), 0xA5, byte(i >> 4)}) // bad file signature, all different
			}
			var l [4]byte
			binary.BigEndian.PutUint32(l[:], uint32(len(prof)))
			batch = append(append(batch, l[:]...), prof...)
		}
		add("icc-batch", "ICC", batch, fmt.Sprintf("concurrent-damaged-profiles: 4000 profiles with distinct bad signatures and tag types, eight readers at once (%d bytes)", len(batch)))
	}
	// description elements of other types than the two a description may have, cut to 4 .. 12 bytes
	for _, typ := range []string{"text", "desc", "mluc", "XYZ ", "sig ", "data", "utf8", "curv", "\x00\x00\x00\x00"} {
		for n := 4; n <= 12; n++ {
			el := append([]byte(typ), make([]byte, 8)...)[:n]
			prof, _ := imggen.ICCSpec{Header: imggen.MinimalHeader(false), Tags: []imggen.ICCTag{{Sig: "desc", Data: el}, {Sig: "cprt", Data: []byte{1, 2, 3, 4}}}}.Build()
			add("icc", "ICC", prof, fmt.Sprintf("typed-description-stub: 'desc' tag of type %q cut to %d bytes", typ, n))
		}
	}
	// deflate bombs: highly compressible profiles
	for _, n := range []int{1 << 20, 8 << 20} {
		sp := imggen.PNGSpec{W: 5, H: 7, Depth: 8, ColorType: 2, ICC: &imggen.PNGICC{Name: "z", Profile: make([]byte, n), Level: 9}, IDAT: []byte{1}}
		b, _ := sp.Build()
		add("load", "PNG", b, fmt.Sprintf("deflate-bomb: %d zero bytes in a %d-byte PNG", n, len(b)))
	}
	// the same with a well-formed profile around the zeros, so that the accessor chain copies them once more
	for _, n := range []int{1 << 20, 8 << 20} {
		prof, _ := imggen.ICCSpec{Header: imggen.MinimalHeader(false), Tags: []imggen.ICCTag{{Sig: "desc", Data: imggen.TextDescription("bomb")}, {Sig: "A2B0", Data: make([]byte, n)}}}.Build()
		sp := imggen.PNGSpec{W: 5, H: 7, Depth: 8, ColorType: 2, ICC: &imggen.PNGICC{Name: "z", Profile: prof, Level: 9}, IDAT: []byte{1}}
		b, _ := sp.Build()
		add("load", "PNG", b, fmt.Sprintf("deflate-bomb-structured: well-formed profile with a %d-byte zero tag in a %d-byte PNG", n, len(b)))
	}
	// tag table with many entries all pointing at one big block
	{
		var tags []imggen.ICCTag
		blk := rng.Bytes(3000)
		for i := 0; i < 3000; i++ {
			tags = append(tags, imggen.ICCTag{Sig: fmt.Sprintf("%04d", i), Data: blk, Share: "b"})
		}
		tags = append(tags, imggen.ICCTag{Sig: "desc", Data: imggen.TextDescription("x")})
		prof, _ := imggen.ICCSpec{Header: imggen.MinimalHeader(false), Tags: tags}.Build()
		add("icc", "ICC", prof, "many-tags-one-block: 3000 tags sharing one 3000-byte block")
	}
	for _, f := range hostileSpecials() {
		add("load", f.Truth.Format, f.Bytes, "special: "+f.Name)
	}
	// long runs of one byte value where a parser expects structure (fill bytes, zero lengths)
	for _, fill := range []byte{0xFF, 0x00, 0xD8} {
		for _, n := range []int{1 << 16, 1 << 20, 32 << 20} {
			run := bytes.Repeat([]byte{fill}, n)
			tailj := []byte{0xFF, 0xC0, 0, 11, 8, 0, 5, 0, 7, 1, 1, 0x11, 0, 0xFF, 0xD9}
			add("load", "JPEG", append(append([]byte{0xFF, 0xD8}, run...), tailj...), fmt.Sprintf("long-run: JPEG SOI then %d bytes of %#02x", n, fill))
			if n <= 1<<20 {
				add("load", "PNG", append(append(append([]byte{}, imggen.PNGSig...), run...), 0), fmt.Sprintf("long-run: PNG signature then %d bytes of %#02x", n, fill))
				add("load", "WebP", append([]byte("RIFF\xff\xff\xff\x7fWEBP"), run...), fmt.Sprintf("long-run: RIFF/WEBP then %d bytes of %#02x", n, fill))
				add("icc", "ICC", append(func() []byte { h := imggen.MinimalHeader(true); return h[:] }(), run...), fmt.Sprintf("long-run: ICC header then %d bytes of %#02x", n, fill))
			}
		}
	}
	// ... and at a size where copying the shared block once per tag is no longer linear
	{
		var tags []imggen.ICCTag
		blk := make([]byte, 700<<10)
		for i := 0; i < 40000; i++ {
			tags = append(tags, imggen.ICCTag{Sig: string([]byte{byte('A' + i%26), byte('a' + (i/26)%26), byte('0' + (i/676)%10), byte('0' + (i/6760)%10)}), Data: blk, Share: "b"})
		}
		tags = append(tags, imggen.ICCTag{Sig: "desc", Data: imggen.TextDescription("x")})
		prof, _ := imggen.ICCSpec{Header: imggen.MinimalHeader(false), Tags: tags}.Build()
		add("icc", "ICC", prof, fmt.Sprintf("many-tags-one-block: 40000 tags sharing one 700 KiB block (%d input bytes)", len(prof)))
	}
	// JPEG: 255 ICC chunks each of 1 byte, then each a full segment
	{
		var segs []imggen.JPEGSeg
		for i := 1; i <= 255; i++ {
			segs = append(segs, imggen.ICCChunkSeg(i, 255, []byte{byte(i)}))
		}
		b, _ := imggen.JPEGSpec{Precision: 8, W: 5, H: 7, Comps: imggen.StdComps(1, 1, 1), Before: segs}.Build()
		add("load", "JPEG", b, "jpeg-255-tiny-chunks: 255 one-byte ICC chunks")
		// thousands of tiny non-ICC segments before SOF
		segs = nil
		for i := 0; i < 20000; i++ {
			segs = append(segs, imggen.JPEGSeg{Marker: 0xFE, Payload: nil})
		}
		b, _ = imggen.JPEGSpec{Precision: 8, W: 5, H: 7, Comps: imggen.StdComps(1, 1, 1), Before: segs}.Build()
		add("load", "JPEG", b, "jpeg-many-empty-segments: 20000 empty COM segments")
	}
	// PNG: very many empty ancillary chunks
	{
		var pre []imggen.PNGChunk
		for i := 0; i < 8000; i++ {
			pre = append(pre, imggen.PNGChunk{Type: "prVt"})
		}
		b, _ := imggen.PNGSpec{W: 5, H: 7, Depth: 8, ColorType: 2, Pre: pre, IDAT: []byte{1}}.Build()
		add("load", "PNG", b, "png-many-empty-chunks: 8000 empty chunks before IDAT")
	}
	return out
}

// ---- parent side ----------------------------------------------------------------

type c09Rec struct {
	I       int    `json:"i"`
	N       int    `json:"n"`
	Alloc   uint64 `json:"alloc"`
	CPU     int64  `json:"cpu"`
	Out     string `json:"out"`
	Class   string `json:"class"`
	RAE     int64  `json:"rae"`
	Escaped string `json:"escaped"`
}

func c09Judge(rec c09Rec) (kind, msg string) {
	if rec.Escaped != "" {
		return "panic", "a panic escaped to the caller of " + rec.Escaped
	}
	if lim := uint64(c09AllocBase) + uint64(c09AllocPerByte)*uint64(rec.N); rec.Alloc > lim {
		return "memory", fmt.Sprintf("%d input bytes made the call chain allocate %d bytes (law: %d + %d per input byte = %d)", rec.N, rec.Alloc, c09AllocBase, c09AllocPerByte, lim)
	}
	if lim := int64(c09CPUBaseNs) + int64(c09CPUPerByteNs)*int64(rec.N); rec.CPU > lim {
		return "time", fmt.Sprintf("%d input bytes kept the call chain busy for %.2f s of CPU (law: 2 s + 2 us per input byte)", rec.N, float64(rec.CPU)/1e9)
	}
	if rec.RAE > 64 {
		return "polling", fmt.Sprintf("%d Read calls after the source had ended", rec.RAE)
	}
	return "", ""
}

func runC09(r *core.Run) {
	r.Rule = "hostile inputs built from seed files (generated PNG/JPEG/WebP with and without profiles, the repository's small files, generated and real ICC profiles): (a) every length/count/offset/dimension field x ~40 boundary values, (a') pairs of related fields, (b) seeded structure-aware mutations, (c) every truncation, (d) crafted amplification attempts (deflate bombs, record tables pointing at the whole tag, thousands of empty chunks); mutated profiles are also re-embedded in each container. Each case drives Load -> ICCProfile -> Description (specific + auto loader) or ReadProfile -> Description in a watchdog-supervised child process that measures allocation, thread CPU time and reads after EOF. non-trivial = distinct (stage, format, field, value class, outcome class)"
	r.Assumptions = []string{fmt.Sprintf("memory law: allocation <= %d + %d x input bytes (a deflate bomb is at most 1032:1, copied a few times); time law: thread CPU <= 2 s + 2 us x input bytes", c09AllocBase, c09AllocPerByte), "native coverage-guided fuzzing is not a registered stage: its verdict would not be a function of VERIF_SEED"}
	tier := r.Tier
	g := newC09Gen(r.Seed, r.Thorough())
	total := g.total()
	nshards := 8
	var mu sync.Mutex
	outcomes := map[string]int64{}
	var maxRatio float64
	var maxCPU int64
	done := make([]bool, total)
	handle := func(rec c09Rec) {
		mu.Lock()
		defer mu.Unlock()
		if rec.I >= 0 && rec.I < total {
			done[rec.I] = true
		}
		for _, p := range strings.Split(rec.Out, "|") {
			if p != "" {
				outcomes[p]++
			}
		}
		r.NT(rec.Class + "|" + rec.Out)
		if ratio := float64(rec.Alloc) / float64(rec.N+1); rec.N > 64 && ratio > maxRatio {
			maxRatio = ratio
		}
		if rec.CPU > maxCPU {
			maxCPU = rec.CPU
		}
		if kind, msg := c09Judge(rec); kind != "" {
			b := g.make(rec.I)
			r.Violate("case", kind+"/"+c09SigOf(b, rec), b.Desc+": "+msg, c09WitnessOf(r, rec.I, b, rec))
		}
	}
	var wg sync.WaitGroup
	for sh := 0; sh < nshards; sh++ {
		wg.Add(1)
		go func(sh int) {
			defer wg.Done()
			c09RunShard(r, g, tier, sh, nshards, handle)
		}(sh)
	}
	wg.Wait()
	missing := 0
	for _, d := range done {
		if !d {
			missing++
		}
	}
	if missing > 0 && c09Skipped.Load() && r.ViolationCount() > 0 {
		r.Obs("cases_skipped_after_early_stop", missing)
	} else if missing > 0 {
		r.Inconclusive(fmt.Sprintf("%d of %d cases produced no measurement", missing, total))
	}
	r.AddEvals(int64(total))
	r.Obs("cases", map[string]int{"field_matrix": len(g.matrix), "field_pairs": len(g.pairs), "truncations": g.nTrunc[len(g.nTrunc)-1], "mutations": g.nMut, "crafted": len(g.crafted)})
	r.Obs("distinct_outcome_messages", len(outcomes))
	top := make([]string, 0, len(outcomes))
	for k := range outcomes {
		top = append(top, k)
	}
	sort.Slice(top, func(i, j int) bool { return outcomes[top[i]] > outcomes[top[j]] })
	if len(top) > 60 {
		top = top[:60]
	}
	oc := map[string]int64{}
	for _, k := range top {
		oc[k] = outcomes[k]
	}
	r.Obs("most_frequent_outcomes", oc)
	r.Obs("max_allocated_bytes_per_input_byte", maxRatio)
	r.Obs("max_cpu_seconds_one_case", float64(maxCPU)/1e9)
	r.Obs("seed_files", len(g.seeds))
	b := g.make(len(g.matrix) / 2)
	r.Sample(map[string]any{"how_made": b.Desc, "entry": b.Entry, "bytes": len(b.Data)})
	b = g.make(total - 1)
	r.Sample(map[string]any{"how_made": b.Desc, "entry": b.Entry, "bytes": len(b.Data)})
}

func c09SigOf(b c09Blob, rec c09Rec) string {
	site := rec.Escaped
	if site != "" {
		if i := strings.Index(site, ":"); i > 0 {
			site = site[:i]
		}
		return b.Format + "/" + site
	}
	cls := b.Class
	if i := strings.Index(cls, "/"); i > 0 {
		cls = cls[:i]
	}
	return b.Format + "/" + b.Entry + "/" + cls + "/" + digitRun.ReplaceAllString(strings.SplitN(b.Desc, ":", 2)[0], "")
}

func c09WitnessOf(r *core.Run, idx int, b c09Blob, rec c09Rec) c09Witness {
	w := c09Witness{Index: idx, Desc: b.Desc, Entry: b.Entry, Format: b.Format, Bytes: len(b.Data), Alloc: rec.Alloc, CPUns: rec.CPU}
	if len(b.Data) <= 300000 {
		w.File = base64.StdEncoding.EncodeToString(b.Data)
	} else {
		dir := core.OutDir() + "/replays/" + r.Prop
		_ = os.MkdirAll(dir, 0o755)
		w.Path = fmt.Sprintf("%s/witness-%016x.bin", dir, fnv64(b.Data))
		_ = os.WriteFile(w.Path, b.Data, 0o644)
	}
	return w
}

// c09RunShard supervises one child over a shard; on a death or a stall it
// attributes the event to the last started case, replays that case alone, and
// restarts the shard after it.
// c09Expensive counts child deaths/stalls; each costs tens of seconds, so after a
// few of them (the verdict is "violated" by then) the remaining cases are skipped.
var c09Expensive atomic.Int64
var c09Skipped atomic.Bool

const c09MaxExpensive = 6

func c09RunShard(r *core.Run, g *c09Gen, tier string, shard, nshards int, handle func(c09Rec)) {
	exe, err := os.Executable()
	if err != nil {
		r.Inconclusive("cannot find own executable")
		return
	}
	start := shard
	for attempt := 0; attempt < 50; attempt++ {
		// the child iterates i = shard, shard+nshards, ...; to resume after a fault we pass a
		// virtual shard description: start index and stride
		ctx, cancel := context.WithCancel(context.Background())
		cmd := exec.CommandContext(ctx, exe, "child", "C09", tier, fmt.Sprint(start), fmt.Sprint(nshards))
		cmd.Env = append(os.Environ(), fmt.Sprintf("VERIF_SEED=%d", r.Seed), "GOMAXPROCS=2", "C09_RESUME=1")
		out, _ := cmd.StdoutPipe()
		var stderr bytes.Buffer
		cmd.Stderr = &stderr
		if err := cmd.Start(); err != nil {
			cancel()
			r.Inconclusive("cannot start child: " + err.Error())
			return
		}
		last := -1
		ended := false
		lines := make(chan string, 256)
		go func() {
			sc := bufio.NewScanner(out)
			sc.Buffer(make([]byte, 1<<20), 1<<22)
			for sc.Scan() {
				lines <- sc.Text()
			}
			close(lines)
		}()
		stalled := false
	loop:
		for {
			select {
			case line, ok := <-lines:
				if !ok {
					break loop
				}
				switch {
				case strings.HasPrefix(line, "S "):
					fmt.Sscanf(line, "S %d", &last)
				case strings.HasPrefix(line, "D "):
					var rec c09Rec
					if json.Unmarshal([]byte(line[2:]), &rec) == nil {
						handle(rec)
					}
					if c09Skipped.Load() {
						cancel()
						_ = cmd.Wait()
						return
					}
				case strings.HasPrefix(line, "END "):
					ended = true
				}
			case <-time.After(25 * time.Second):
				stalled = true
				break loop
			}
		}
		cancel()
		_ = cmd.Wait()
		if ended {
			return
		}
		if last < 0 {
			r.Inconclusive(fmt.Sprintf("shard %d: child died before its first case: %s", shard, truncate(stderr.String(), 300)))
			return
		}
		// attribute to `last`, replay alone
		c09Solo(r, g, tier, last, stalled, stderr.String(), handle)
		if c09Expensive.Add(1) >= c09MaxExpensive {
			r.Obs("stopped_early", "several cases killed or hung their process; remaining cases skipped (verdict already violated)")
			c09Skipped.Store(true)
			return
		}
		if c09Skipped.Load() {
			return
		}
		start = last + nshards
		if start >= g.total() {
			return
		}
	}
	r.Inconclusive(fmt.Sprintf("shard %d: gave up after 50 child restarts", shard))
}

func c09Solo(r *core.Run, g *c09Gen, tier string, idx int, stalled bool, stderrTail string, handle func(c09Rec)) {
	exe, _ := os.Executable()
	ctx, cancel := context.WithTimeout(context.Background(), 30*time.Second)
	defer cancel()
	cmd := exec.CommandContext(ctx, exe, "child", "C09", tier, "0", "1", fmt.Sprint(idx))
	cmd.Env = append(os.Environ(), fmt.Sprintf("VERIF_SEED=%d", r.Seed), "GOMAXPROCS=2")
	var so, se bytes.Buffer
	cmd.Stdout, cmd.Stderr = &so, &se
	_ = cmd.Run()
	b := g.make(idx)
	for _, line := range strings.Split(so.String(), "\n") {
		if strings.HasPrefix(line, "D ") {
			var rec c09Rec
			if json.Unmarshal([]byte(line[2:]), &rec) == nil {
				handle(rec) // judged like any other measurement
				return
			}
		}
	}
	// no measurement even alone: the process died or hung on this very input
	cpu := time.Duration(0)
	if cmd.ProcessState != nil {
		cpu = cmd.ProcessState.UserTime() + cmd.ProcessState.SystemTime()
	}
	rec := c09Rec{I: idx, N: len(b.Data), CPU: cpu.Nanoseconds(), Class: b.Class}
	why := "the process running it died"
	kind := "crash"
	txt := se.String()
	switch {
	case ctx.Err() != nil:
		why, kind = fmt.Sprintf("the call did not return within 30 s (%.1f s CPU consumed)", cpu.Seconds()), "time"
	case strings.Contains(txt, "out of memory") || strings.Contains(txt, "cannot allocate"):
		why, kind = "the process ran out of memory (address space capped at 12 GiB)", "memory"
	case strings.Contains(txt, "panic:") || strings.Contains(txt, "fatal error"):
		why = "the process crashed: " + truncate(firstLine(txt), 200)
	}
	r.Violate("case", kind+"/"+c09SigOf(b, rec), fmt.Sprintf("%s (%d bytes): %s; reproduced alone", b.Desc, len(b.Data), why), c09WitnessOf(r, idx, b, rec))
	handle(c09Rec{I: idx, N: len(b.Data), Class: b.Class, Out: "died"})
}

func firstLine(s string) string {
	for _, l := range strings.Split(s, "\n") {
		if strings.Contains(l, "panic:") || strings.Contains(l, "fatal error") {
			return l
		}
	}
	return strings.SplitN(s, "\n", 2)[0]
}

func replayC09(stage string, raw json.RawMessage) (bool, string, error) {
	var w c09Witness
	if err := json.Unmarshal(raw, &w); err != nil {
		return false, "", err
	}
	var data []byte
	var err error
	if w.Path != "" {
		data, err = os.ReadFile(w.Path)
	} else {
		data, err = base64.StdEncoding.DecodeString(w.File)
	}
	if err != nil {
		return false, "", err
	}
	// run in-process with the same monitors (a crash here ends the replay with a Go panic trace: also a reproduction)
	runtime.LockOSThread()
	var ms runtime.MemStats
	runtime.ReadMemStats(&ms)
	a0 := ms.TotalAlloc
	c0 := threadCPU()
	_ = a0
	_ = c0
	for which := 0; which < 2; which++ {
		runtime.ReadMemStats(&ms)
		a0 = ms.TotalAlloc
		c0 = threadCPU()
		out, escaped, rae := c09Exercise(c09Blob{Entry: w.Entry, Format: w.Format, Data: data}, which)
		c1 := threadCPU()
		runtime.ReadMemStats(&ms)
		rec := c09Rec{N: len(data), Alloc: ms.TotalAlloc - a0, CPU: c1 - c0, Out: out, RAE: rae, Escaped: escaped}
		if kind, msg := c09Judge(rec); kind != "" {
			return true, msg, nil
		}
		if w.Entry != "load" || w.Format == "" {
			break
		}
	}
	return false, "both call chains within the laws", nil
}

func init() {
	core.Register(&core.Property{ID: "C09", Level: "exploration", Run: runC09, Replay: replayC09, Child: childC09})
}
