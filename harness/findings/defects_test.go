// Package findings holds one minimal witness per genuine defect found in
// mandykoh/prism by the monitors (DESIGN.md §4). Each test fails on the tree
// before the corresponding "fix:" commit and passes after it.
//
//	cd /verif/harness && GOFLAGS=-mod=mod GOPROXY=off go test ./findings/
package findings

import (
	"bufio"
	"bytes"
	"compress/zlib"
	"encoding/binary"
	"hash/crc32"
	"io"
	"runtime"
	"sync"
	"testing"
	"testing/iotest"

	"github.com/mandykoh/prism/meta/icc"
	"github.com/mandykoh/prism/meta/jpegmeta"
	"github.com/mandykoh/prism/meta/pngmeta"
	"github.com/mandykoh/prism/meta/webpmeta"
	"github.com/mandykoh/prism/srgb"
)

func be32(v uint32) []byte { b := make([]byte, 4); binary.BigEndian.PutUint32(b, v); return b }
func le32(v uint32) []byte { b := make([]byte, 4); binary.LittleEndian.PutUint32(b, v); return b }

func pngChunk(typ string, data []byte) []byte {
	var b bytes.Buffer
	b.Write(be32(uint32(len(data))))
	b.WriteString(typ)
	b.Write(data)
	c := crc32.NewIEEE()
	c.Write([]byte(typ))
	c.Write(data)
	b.Write(be32(c.Sum32()))
	return b.Bytes()
}

func pngWithProfile(profile []byte) []byte {
	var b bytes.Buffer
	b.Write([]byte{0x89, 'P', 'N', 'G', 0x0D, 0x0A, 0x1A, 0x0A})
	ihdr := append(append(be32(3), be32(2)...), 8, 2, 0, 0, 0)
	b.Write(pngChunk("IHDR", ihdr))
	if profile != nil {
		var z bytes.Buffer
		zw := zlib.NewWriter(&z)
		zw.Write(profile)
		zw.Close()
		b.Write(pngChunk("iCCP", append([]byte("p\x00\x00"), z.Bytes()...)))
	}
	b.Write(pngChunk("IDAT", []byte{1, 2, 3}))
	b.Write(pngChunk("IEND", nil))
	return b.Bytes()
}

func noise(n int) []byte {
	b := make([]byte, n)
	s := uint32(12345)
	for i := range b {
		s = s*1664525 + 1013904223
		b[i] = byte(s >> 24)
	}
	return b
}

func vp8File(w, h int) []byte {
	payload := []byte{0, 0, 0, 0x9d, 0x01, 0x2a, byte(w), byte(w >> 8), byte(h), byte(h >> 8), 0, 0}
	var b bytes.Buffer
	b.WriteString("RIFF")
	b.Write(le32(uint32(4 + 8 + len(payload))))
	b.WriteString("WEBPVP8 ")
	b.Write(le32(uint32(len(payload))))
	b.Write(payload)
	return b.Bytes()
}

// D1 (C05): lossy WebP height is never reported.
func TestD1_VP8Height(t *testing.T) {
	md, _, err := webpmeta.Load(bytes.NewReader(vp8File(0x1234, 0x0578)))
	if err != nil {
		t.Fatal(err)
	}
	if md.PixelWidth != 0x1234 || md.PixelHeight != 0x0578 {
		t.Fatalf("got %dx%d, header says %dx%d", md.PixelWidth, md.PixelHeight, 0x1234, 0x0578)
	}
}

// D2 (C06/C08): PNG iCCP larger than what bufio happens to hold makes Load fail.
func TestD2_PNGLargeProfile(t *testing.T) {
	p := noise(20000)
	md, _, err := pngmeta.Load(bytes.NewReader(pngWithProfile(p)))
	if err != nil {
		t.Fatal(err)
	}
	got, err := md.ICCProfileData()
	if err != nil || !bytes.Equal(got, p) {
		t.Fatalf("profile not returned byte-for-byte: err=%v len=%d", err, len(got))
	}
}

// D2b (C08): a one-byte-at-a-time source makes every PNG fail.
func TestD2b_PNGOneByteReader(t *testing.T) {
	md, _, err := pngmeta.Load(iotest.OneByteReader(bytes.NewReader(pngWithProfile(noise(100)))))
	if err != nil {
		t.Fatal(err)
	}
	if md.PixelWidth != 3 {
		t.Fatal("width")
	}
}

func jpegWithChunks(chunks [][3]interface{}) []byte { // {num, total, payload}
	var b bytes.Buffer
	b.Write([]byte{0xff, 0xd8})
	for _, c := range chunks {
		pl := append([]byte("ICC_PROFILE\x00"), byte(c[0].(int)), byte(c[1].(int)))
		pl = append(pl, c[2].([]byte)...)
		b.Write([]byte{0xff, 0xe2, byte((len(pl) + 2) >> 8), byte(len(pl) + 2)})
		b.Write(pl)
	}
	b.Write([]byte{0xff, 0xc0, 0, 11, 8, 0, 5, 0, 7, 1, 1, 0x11, 0})
	b.Write([]byte{0xff, 0xda, 0, 8, 1, 1, 0, 0, 63, 0, 0x00, 0xff, 0xd9})
	return b.Bytes()
}

// D3 (C06): inconsistent chunk totals must give an error, never different bytes.
func TestD3_JPEGInconsistentTotals(t *testing.T) {
	f := jpegWithChunks([][3]interface{}{{1, 1, []byte("AAAA")}, {2, 3, []byte("BBBB")}, {3, 3, []byte("CCCC")}})
	md, _, err := jpegmeta.Load(bytes.NewReader(f))
	if err != nil {
		t.Fatal(err)
	}
	data, ierr := md.ICCProfileData()
	if ierr == nil || data != nil {
		t.Fatalf("damaged embedding returned data=%q err=%v", data, ierr)
	}
}

// D4 (C08): WebP chunk header read with a single Read.
func TestD4_WebPOneByteReader(t *testing.T) {
	md, _, err := webpmeta.Load(iotest.OneByteReader(bytes.NewReader(vp8File(10, 20))))
	if err != nil {
		t.Fatal(err)
	}
	if md.PixelWidth != 10 {
		t.Fatal("width")
	}
}

func iccProfile(tags [][2]interface{}) []byte { // {sig string, data []byte}; data laid out in order
	n := len(tags)
	hdr := make([]byte, 128)
	copy(hdr[36:], "acsp")
	var table, data bytes.Buffer
	off := 128 + 4 + 12*n
	table.Write(be32(uint32(n)))
	for _, tg := range tags {
		d := tg[1].([]byte)
		table.WriteString(tg[0].(string))
		table.Write(be32(uint32(off + data.Len())))
		table.Write(be32(uint32(len(d))))
		data.Write(d)
	}
	out := append(append(hdr, table.Bytes()...), data.Bytes()...)
	binary.BigEndian.PutUint32(out[0:], uint32(len(out)))
	return out
}

func textDesc(s string) []byte {
	var b bytes.Buffer
	b.WriteString("desc")
	b.Write(be32(0))
	b.Write(be32(uint32(len(s) + 1)))
	b.WriteString(s)
	b.WriteByte(0)
	b.Write(make([]byte, 4+4+2+1+67))
	return b.Bytes()
}

func utf16be(s string) []byte {
	var b []byte
	for _, r := range s {
		b = append(b, byte(r>>8), byte(r))
	}
	return b
}

func mluc(recs [][2]string) []byte { // {lang+country "enUS", text}
	var b bytes.Buffer
	b.WriteString("mluc")
	b.Write(be32(0))
	b.Write(be32(uint32(len(recs))))
	b.Write(be32(12))
	off := 16 + 12*len(recs)
	var strs bytes.Buffer
	for _, r := range recs {
		s := utf16be(r[1])
		b.WriteString(r[0])
		b.Write(be32(uint32(len(s))))
		b.Write(be32(uint32(off + strs.Len())))
		strs.Write(s)
	}
	b.Write(strs.Bytes())
	return b.Bytes()
}

// D5 (C08): ICC reader behind a small bufio fails (profile ID / tag data single Read).
func TestD5_ICCSmallBufio(t *testing.T) {
	p := iccProfile([][2]interface{}{{"desc", textDesc("hello world")}, {"cprt", noise(300)}})
	prof, err := icc.NewProfileReader(bufio.NewReaderSize(iotest.OneByteReader(bytes.NewReader(p)), 16)).ReadProfile()
	if err != nil {
		t.Fatal(err)
	}
	if d, err := prof.Description(); err != nil || d != "hello world" {
		t.Fatalf("%q %v", d, err)
	}
}

func allocDuring(f func()) uint64 {
	var a, b runtime.MemStats
	runtime.ReadMemStats(&a)
	f()
	runtime.ReadMemStats(&b)
	return b.TotalAlloc - a.TotalAlloc
}

// D6 (C09): allocation sized by a declared 32-bit number.
func TestD6_DeclaredLengthAllocations(t *testing.T) {
	// WebP: VP8X with ICCP chunk declaring 1 GiB in a 50-byte file
	var w bytes.Buffer
	w.WriteString("RIFF")
	w.Write(le32(100))
	w.WriteString("WEBPVP8X")
	w.Write(le32(10))
	w.Write([]byte{0x20, 0, 0, 0, 1, 0, 0, 1, 0, 0})
	w.WriteString("ICCP")
	w.Write(le32(1 << 30))
	w.Write([]byte{1, 2, 3, 4})
	if n := allocDuring(func() { webpmeta.Load(bytes.NewReader(w.Bytes())) }); n > 4<<20 {
		t.Errorf("webp: %d-byte input allocated %d bytes", w.Len(), n)
	}
	// PNG: iCCP chunk declaring 1 GiB
	var p bytes.Buffer
	p.Write([]byte{0x89, 'P', 'N', 'G', 0x0D, 0x0A, 0x1A, 0x0A})
	p.Write(pngChunk("IHDR", append(append(be32(3), be32(2)...), 8, 2, 0, 0, 0)))
	p.Write(be32(1 << 30))
	p.WriteString("iCCPp\x00\x00abcd")
	if n := allocDuring(func() { pngmeta.Load(bytes.NewReader(p.Bytes())) }); n > 4<<20 {
		t.Errorf("png: %d-byte input allocated %d bytes", p.Len(), n)
	}
	// ICC: one tag declaring offset+size = 1 GiB
	prof := iccProfile([][2]interface{}{{"desc", textDesc("x")}})
	binary.BigEndian.PutUint32(prof[128+4+8:], 1<<30)
	if n := allocDuring(func() { icc.NewProfileReader(bytes.NewReader(prof)).ReadProfile() }); n > 4<<20 {
		t.Errorf("icc tag table: %d-byte input allocated %d bytes", len(prof), n)
	}
	// textDescription count 0 -> make(2^32-1)
	td := textDesc("x")
	binary.BigEndian.PutUint32(td[8:], 0)
	prof = iccProfile([][2]interface{}{{"desc", td}})
	pr, err := icc.NewProfileReader(bytes.NewReader(prof)).ReadProfile()
	if err != nil {
		t.Fatal(err)
	}
	if n := allocDuring(func() {
		defer func() { recover() }()
		pr.Description()
	}); n > 4<<20 {
		t.Errorf("textDescription: %d-byte input allocated %d bytes", len(prof), n)
	}
}

// D7 (C09): mluc bounds check wraps in 32 bits; the slice panic escapes Description().
func TestD7_MlucWrapPanic(t *testing.T) {
	m := mluc([][2]string{{"enUS", "abc"}})
	binary.BigEndian.PutUint32(m[16+4:], 0xFFFFFFF0) // length
	binary.BigEndian.PutUint32(m[16+8:], 0x20)       // offset: sum wraps to 0x10
	prof := iccProfile([][2]interface{}{{"desc", m}})
	pr, err := icc.NewProfileReader(bytes.NewReader(prof)).ReadProfile()
	if err != nil {
		t.Fatal(err)
	}
	defer func() {
		if p := recover(); p != nil {
			t.Fatalf("Description() panicked: %v", p)
		}
	}()
	pr.Description()
}

// D8 (C11): first use of the 16-bit tables races (run with -race).
func TestD8_LUTFirstUseRace(t *testing.T) {
	var wg sync.WaitGroup
	start := make(chan struct{})
	for i := 0; i < 8; i++ {
		wg.Add(1)
		go func(i int) {
			defer wg.Done()
			<-start
			_ = srgb.From16Bit(uint16(i * 1000))
			_ = srgb.To16Bit(float32(i) / 8)
		}(i)
	}
	close(start)
	wg.Wait()
}

// D9 (C16): header flags are bit 0 and bit 1 counted from the least significant bit.
func TestD9_HeaderFlags(t *testing.T) {
	prof := iccProfile([][2]interface{}{{"desc", textDesc("x")}})
	binary.BigEndian.PutUint32(prof[44:], 1)
	pr, err := icc.NewProfileReader(bytes.NewReader(prof)).ReadProfile()
	if err != nil {
		t.Fatal(err)
	}
	if !pr.Header.Embedded || pr.Header.DependsOnEmbeddedData {
		t.Errorf("flags=1: Embedded=%v DependsOnEmbeddedData=%v", pr.Header.Embedded, pr.Header.DependsOnEmbeddedData)
	}
	binary.BigEndian.PutUint32(prof[44:], 2)
	pr, _ = icc.NewProfileReader(bytes.NewReader(prof)).ReadProfile()
	if pr.Header.Embedded || !pr.Header.DependsOnEmbeddedData {
		t.Errorf("flags=2: Embedded=%v DependsOnEmbeddedData=%v", pr.Header.Embedded, pr.Header.DependsOnEmbeddedData)
	}
}

// D10 (C16): version bug-fix nibble.
func TestD10_VersionString(t *testing.T) {
	if s := (icc.Version{Major: 4, MinorAndRev: 0x29}).String(); s != "4.2.9" {
		t.Fatalf("got %s want 4.2.9", s)
	}
}

// D11 (C17): a profile with zero tags is well-formed and must read.
func TestD11_ZeroTags(t *testing.T) {
	prof := iccProfile(nil)
	if _, err := icc.NewProfileReader(bytes.NewReader(prof)).ReadProfile(); err != nil {
		t.Fatal(err)
	}
}

// D12 (C17): mluc strings live at their declared offsets.
func TestD12_MlucOffsets(t *testing.T) {
	prof := iccProfile([][2]interface{}{{"desc", mluc([][2]string{{"deDE", "Anzeige"}, {"enUS", "Display"}, {"frFR", "Ecran"}})}})
	pr, err := icc.NewProfileReader(bytes.NewReader(prof)).ReadProfile()
	if err != nil {
		t.Fatal(err)
	}
	d, err := pr.Description()
	if err != nil || d != "Display" {
		t.Fatalf("got %q, %v; want \"Display\"", d, err)
	}
	// an English record with an empty string is still the English record
	prof = iccProfile([][2]interface{}{{"desc", mluc([][2]string{{"deDE", "Anzeige"}, {"enUS", ""}})}})
	pr, _ = icc.NewProfileReader(bytes.NewReader(prof)).ReadProfile()
	if d, err := pr.Description(); err != nil || d != "" {
		t.Fatalf("empty en record: got %q, %v", d, err)
	}
}

var _ = io.EOF

// D14 (C06): a PNG whose iCCP chunk holds the profile name, its terminator and the compression
// method but not a single byte of compressed data. One byte of stream gives metadata plus a
// profile error; none made Load fail as a whole ("invalid ICC profile chunk length").
func TestD14_PNGEmptyICCStream(t *testing.T) {
	var b bytes.Buffer
	b.Write([]byte{0x89, 'P', 'N', 'G', 0x0D, 0x0A, 0x1A, 0x0A})
	b.Write(pngChunk("IHDR", append(append(be32(3), be32(2)...), 8, 2, 0, 0, 0)))
	b.Write(pngChunk("iCCP", []byte("p\x00\x00")))
	b.Write(pngChunk("IDAT", []byte{1, 2, 3}))
	b.Write(pngChunk("IEND", nil))
	md, _, err := pngmeta.Load(bytes.NewReader(b.Bytes()))
	if err != nil || md == nil {
		t.Fatalf("Load: md=%v err=%v; want the basic metadata and a profile error", md != nil, err)
	}
	if md.PixelWidth != 3 || md.PixelHeight != 2 {
		t.Fatalf("dimensions %dx%d", md.PixelWidth, md.PixelHeight)
	}
	if d, e := md.ICCProfileData(); e == nil || d != nil {
		t.Fatalf("ICCProfileData = %d bytes, err %v; want an error", len(d), e)
	}
}
