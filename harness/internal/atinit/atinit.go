// Package atinit makes library calls during package initialisation of the
// monitor binary, i.e. as the first statements an importing program can
// possibly execute: a package-level variable initialised from a conversion, or
// a call from another package's init(). It does so only in a child process
// whose variant (os.Args[3] of `vcheck child <prop> <variant>`) has the token
// "atinit", and only records what the library returned; the property files
// judge the records. Nothing else in the harness runs before these calls
// except the initialisation of the packages this one imports.
package atinit

import (
	"os"
	"strings"

	"github.com/mandykoh/prism/adobergb"
	"github.com/mandykoh/prism/ciexyz"
	"github.com/mandykoh/prism/displayp3"
	"github.com/mandykoh/prism/prophotorgb"
	"github.com/mandykoh/prism/srgb"
)

// Record is one call made at initialisation time.
type Record struct {
	Space string
	Call  string // "ToXYZ", "FromXYZ", "From8Bit", "To8Bit"
	In    [3]float32
	Out   [3]float32
}

// Records is nil unless this process is an "atinit" child.
var Records = probe()

// Inputs used for the XYZ calls.
var Inputs = [][3]float32{{1, 1, 1}, {1, 0, 0}, {0, 1, 0}, {0, 0, 1}, {0.25, 0.5, 0.75}}

func active() bool {
	if len(os.Args) < 4 || os.Args[1] != "child" {
		return false
	}
	for _, tok := range strings.Split(strings.SplitN(os.Args[3], "@", 2)[0], "+") {
		if tok == "atinit" {
			return true
		}
	}
	return false
}

func probe() []Record {
	if !active() {
		return nil
	}
	var out []Record
	xyz := func(c ciexyz.Color) [3]float32 { return [3]float32{c.X, c.Y, c.Z} }
	for _, in := range Inputs {
		x := ciexyz.Color{X: in[0], Y: in[1], Z: in[2]}
		out = append(out,
			Record{"adobergb", "ToXYZ", in, xyz(adobergb.ColorFromLinear(in[0], in[1], in[2]).ToXYZ())},
			Record{"srgb", "ToXYZ", in, xyz(srgb.ColorFromLinear(in[0], in[1], in[2]).ToXYZ())},
			Record{"prophotorgb", "ToXYZ", in, xyz(prophotorgb.ColorFromLinear(in[0], in[1], in[2]).ToXYZ())},
			Record{"displayp3", "ToXYZ", in, xyz(displayp3.ColorFromLinear(in[0], in[1], in[2]).ToXYZ())},
		)
		a, s, p, d := adobergb.ColorFromXYZ(x), srgb.ColorFromXYZ(x), prophotorgb.ColorFromXYZ(x), displayp3.ColorFromXYZ(x)
		out = append(out,
			Record{"adobergb", "FromXYZ", in, [3]float32{a.R, a.G, a.B}},
			Record{"srgb", "FromXYZ", in, [3]float32{s.R, s.G, s.B}},
			Record{"prophotorgb", "FromXYZ", in, [3]float32{p.R, p.G, p.B}},
			Record{"displayp3", "FromXYZ", in, [3]float32{d.R, d.G, d.B}},
		)
	}
	for _, code := range []uint8{0, 1, 64, 128, 200, 255} {
		in := [3]float32{float32(code)}
		out = append(out,
			Record{"adobergb", "From8Bit", in, [3]float32{adobergb.From8Bit(code)}},
			Record{"srgb", "From8Bit", in, [3]float32{srgb.From8Bit(code)}},
			Record{"prophotorgb", "From8Bit", in, [3]float32{prophotorgb.From8Bit(code)}},
		)
	}
	for _, v := range []float32{0, 0.001, 0.02, 0.2140, 0.5, 0.9, 1} {
		in := [3]float32{v}
		out = append(out,
			Record{"adobergb", "To8Bit", in, [3]float32{float32(adobergb.To8Bit(v))}},
			Record{"srgb", "To8Bit", in, [3]float32{float32(srgb.To8Bit(v))}},
			Record{"prophotorgb", "To8Bit", in, [3]float32{float32(prophotorgb.To8Bit(v))}},
		)
	}
	return out
}
