package imggen

import (
	"bytes"
	"encoding/binary"
)

// ICCTag is one entry of the tag table. Tags with the same non-empty Share key
// point at one shared data block (the Data of the first of them).
type ICCTag struct {
	Sig   string
	Data  []byte
	Share string
}

type ICCSpec struct {
	Header   [128]byte // caller fills; "acsp" and size are written by Build unless KeepSig/KeepSize
	KeepSig  bool
	KeepSize bool
	Tags     []ICCTag
	// DataOrder is a permutation of the distinct data blocks (indices into the
	// list of blocks in first-appearance order); nil = table order.
	DataOrder []int
	// Pad bytes (0..3) inserted after each data block
	Pad int
	// Lead bytes of padding between the tag table and the first data block
	Lead int
}

// ICCTruth says where everything landed.
type ICCTruth struct {
	Fields   []Field
	TagOff   map[string]int // signature -> data offset
	TagSize  map[string]int
	TableEnd int
}

func (s ICCSpec) Build() ([]byte, ICCTruth) {
	t := ICCTruth{TagOff: map[string]int{}, TagSize: map[string]int{}}
	n := len(s.Tags)
	tableEnd := 128 + 4 + 12*n
	t.TableEnd = tableEnd
	// distinct blocks
	type block struct {
		data []byte
		off  int
	}
	var blocks []*block
	blockOf := make([]*block, n)
	shared := map[string]*block{}
	for i, tg := range s.Tags {
		if tg.Share != "" {
			if b, ok := shared[tg.Share]; ok {
				blockOf[i] = b
				continue
			}
		}
		b := &block{data: tg.Data}
		blocks = append(blocks, b)
		blockOf[i] = b
		if tg.Share != "" {
			shared[tg.Share] = b
		}
	}
	order := s.DataOrder
	if len(order) != len(blocks) {
		order = make([]int, len(blocks))
		for i := range order {
			order[i] = i
		}
	}
	var data bytes.Buffer
	data.Write(make([]byte, s.Lead))
	for _, bi := range order {
		b := blocks[bi]
		b.off = tableEnd + data.Len()
		data.Write(b.data)
		data.Write(make([]byte, s.Pad))
	}
	var out bytes.Buffer
	hdr := s.Header
	if !s.KeepSig {
		copy(hdr[36:40], "acsp")
	}
	out.Write(hdr[:])
	t.Fields = append(t.Fields, Field{Name: "header.size", Off: 0, Len: 4, Kind: "length"}, Field{Name: "tagcount", Off: 128, Len: 4, Kind: "count"})
	out.Write(be32(uint32(n)))
	for i, tg := range s.Tags {
		sig := (tg.Sig + "    ")[:4]
		out.WriteString(sig)
		t.Fields = append(t.Fields, Field{Name: "tag" + itoa(i) + "." + sig + ".offset", Off: out.Len(), Len: 4, Kind: "offset"})
		out.Write(be32(uint32(blockOf[i].off)))
		t.Fields = append(t.Fields, Field{Name: "tag" + itoa(i) + "." + sig + ".size", Off: out.Len(), Len: 4, Kind: "length"})
		out.Write(be32(uint32(len(blockOf[i].data))))
		t.TagOff[sig] = blockOf[i].off
		t.TagSize[sig] = len(blockOf[i].data)
	}
	out.Write(data.Bytes())
	b := out.Bytes()
	if !s.KeepSize {
		binary.BigEndian.PutUint32(b[0:], uint32(len(b)))
	}
	return b, t
}

// TextDescription builds a v2 'desc' tag (textDescriptionType).
func TextDescription(ascii string) []byte {
	var b bytes.Buffer
	b.WriteString("desc")
	b.Write(be32(0))
	b.Write(be32(uint32(len(ascii) + 1)))
	b.WriteString(ascii)
	b.WriteByte(0)
	b.Write(be32(0)) // unicode language code
	b.Write(be32(0)) // unicode count
	b.Write(be16(0)) // scriptcode code
	b.WriteByte(0)   // scriptcode count
	b.Write(make([]byte, 67))
	return b.Bytes()
}

// MlucRecord is one record of a multiLocalizedUnicodeType tag.
type MlucRecord struct {
	Lang    string // 2 bytes
	Country string // 2 bytes
	Text    []uint16
	// Place controls where the string bytes go: strings with the same non-empty
	// Share key are stored once.
	Share string
	// SuffixOf, when > 0, stores this string as the tail of the string of record
	// SuffixOf-1 (which must end with the same code units): overlapping storage.
	SuffixOf int
}

// Mluc builds an 'mluc' tag. order = order in which the distinct strings are
// laid out in the string area (indices into distinct strings by first
// appearance; nil = record order). gap = bytes between record table and
// strings; recSize = record size field (12 normally).
func Mluc(recs []MlucRecord, order []int, gap int, recSize int) (tag []byte, fields []Field) {
	if recSize == 0 {
		recSize = 12
	}
	type str struct {
		b   []byte
		off int
	}
	var strs []*str
	strOf := make([]*str, len(recs))
	shared := map[string]*str{}
	for i, r := range recs {
		if r.SuffixOf > 0 {
			continue
		}
		if r.Share != "" {
			if s, ok := shared[r.Share]; ok {
				strOf[i] = s
				continue
			}
		}
		var sb []byte
		for _, u := range r.Text {
			sb = append(sb, byte(u>>8), byte(u))
		}
		s := &str{b: sb}
		strs = append(strs, s)
		strOf[i] = s
		if r.Share != "" {
			shared[r.Share] = s
		}
	}
	if len(order) != len(strs) {
		order = make([]int, len(strs))
		for i := range order {
			order[i] = i
		}
	}
	base := 16 + recSize*len(recs) + gap
	var area bytes.Buffer
	for _, si := range order {
		strs[si].off = base + area.Len()
		area.Write(strs[si].b)
	}
	for i, r := range recs {
		if r.SuffixOf > 0 {
			host := strOf[r.SuffixOf-1]
			n := 2 * len(r.Text)
			strOf[i] = &str{b: host.b[len(host.b)-n:], off: host.off + len(host.b) - n}
		}
	}
	var b bytes.Buffer
	b.WriteString("mluc")
	b.Write(be32(0))
	fields = append(fields, Field{Name: "mluc.count", Off: 8, Len: 4, Kind: "count"}, Field{Name: "mluc.recsize", Off: 12, Len: 4, Kind: "length"})
	b.Write(be32(uint32(len(recs))))
	b.Write(be32(uint32(recSize)))
	for i, r := range recs {
		b.WriteString((r.Lang + "  ")[:2])
		b.WriteString((r.Country + "  ")[:2])
		fields = append(fields, Field{Name: "mluc.rec" + itoa(i) + ".length", Off: b.Len(), Len: 4, Kind: "length"}, Field{Name: "mluc.rec" + itoa(i) + ".offset", Off: b.Len() + 4, Len: 4, Kind: "offset"})
		b.Write(be32(uint32(len(strOf[i].b))))
		b.Write(be32(uint32(strOf[i].off)))
		b.Write(make([]byte, recSize-12))
	}
	b.Write(make([]byte, gap))
	b.Write(area.Bytes())
	return b.Bytes(), fields
}

// MinimalHeader returns a plausible v4 display-profile header.
func MinimalHeader(v4 bool) [128]byte {
	var h [128]byte
	copy(h[4:], "lcms")
	if v4 {
		h[8], h[9] = 4, 0x30
	} else {
		h[8], h[9] = 2, 0x10
	}
	copy(h[12:], "mntr")
	copy(h[16:], "RGB ")
	copy(h[20:], "XYZ ")
	binary.BigEndian.PutUint16(h[24:], 2024)
	binary.BigEndian.PutUint16(h[26:], 2)
	binary.BigEndian.PutUint16(h[28:], 29)
	binary.BigEndian.PutUint16(h[30:], 12)
	binary.BigEndian.PutUint16(h[32:], 34)
	binary.BigEndian.PutUint16(h[34:], 56)
	copy(h[36:], "acsp")
	copy(h[40:], "APPL")
	binary.BigEndian.PutUint32(h[68:], 0x0000F6D6)
	binary.BigEndian.PutUint32(h[72:], 0x00010000)
	binary.BigEndian.PutUint32(h[76:], 0x0000D32D)
	return h
}

// TextDescriptionFull builds a v2 'desc' tag with non-empty Unicode and ScriptCode parts.
func TextDescriptionFull(ascii string, unicode []uint16, script string) []byte {
	var b bytes.Buffer
	b.WriteString("desc")
	b.Write(be32(0))
	b.Write(be32(uint32(len(ascii) + 1)))
	b.WriteString(ascii)
	b.WriteByte(0)
	b.Write(be32(0x656E5553)) // unicode language code 'enUS'
	b.Write(be32(uint32(len(unicode) + 1)))
	for _, u := range unicode {
		b.Write([]byte{byte(u >> 8), byte(u)})
	}
	b.Write([]byte{0, 0})
	b.Write(be16(0)) // scriptcode code
	if len(script) > 66 {
		script = script[:66]
	}
	b.WriteByte(byte(len(script) + 1))
	s := make([]byte, 67)
	copy(s, script)
	b.Write(s)
	return b.Bytes()
}
