package imggen

import (
	"bytes"
	"image"
	"image/color"
	"image/jpeg"
)

// JPEGSeg is one marker segment (length field computed from Payload).
type JPEGSeg struct {
	Marker  byte
	Payload []byte
	Name    string
}

type JPEGComp struct {
	ID byte
	H  byte
	V  byte
	Tq byte
}

type JPEGSpec struct {
	// Before: segments between SOI and SOF (APPn, COM, DQT, DHT, DRI, ICC chunks ...)
	Before []JPEGSeg
	// SOF
	Progressive bool
	Precision   byte
	W, H        int
	Comps       []JPEGComp
	// After: segments between SOF and SOS
	After []JPEGSeg
	// Entropy-coded bytes after the SOS header (0xFF must be stuffed by the caller if wanted)
	Entropy []byte
	NoEOI   bool

	// ICC ground truth, set by the caller that placed the chunks
	ICC      []byte
	ICCState string
}

var iccIdent = []byte("ICC_PROFILE\x00")

// ICCChunkSeg builds one APP2 ICC_PROFILE segment.
func ICCChunkSeg(num, total int, data []byte) JPEGSeg {
	p := append(append([]byte{}, iccIdent...), byte(num), byte(total))
	return JPEGSeg{Marker: 0xE2, Payload: append(p, data...), Name: "ICC"}
}

// SplitICC cuts a profile into n chunks (sizes as even as possible, each <= 65519).
func SplitICC(profile []byte, n int) [][]byte {
	var out [][]byte
	per := (len(profile) + n - 1) / n
	for i := 0; i < n; i++ {
		lo, hi := i*per, (i+1)*per
		if lo > len(profile) {
			lo = len(profile)
		}
		if hi > len(profile) {
			hi = len(profile)
		}
		out = append(out, profile[lo:hi])
	}
	return out
}

var realTables []JPEGSeg

// RealTables returns DQT and DHT segments taken from real image/jpeg encoder
// output, so that the standard decoder accepts them.
func RealTables() []JPEGSeg {
	if realTables != nil {
		return realTables
	}
	img := image.NewRGBA(image.Rect(0, 0, 16, 16))
	for i := 0; i < 16*16; i++ {
		img.Set(i%16, i/16, color.RGBA{R: uint8(i * 7), G: uint8(i * 3), B: uint8(i), A: 255})
	}
	var b bytes.Buffer
	_ = jpeg.Encode(&b, img, &jpeg.Options{Quality: 75})
	d := b.Bytes()
	for i := 2; i+4 <= len(d); {
		if d[i] != 0xFF {
			break
		}
		m := d[i+1]
		l := int(d[i+2])<<8 | int(d[i+3])
		if m == 0xDA {
			break
		}
		if m == 0xDB || m == 0xC4 {
			name := "DQT"
			if m == 0xC4 {
				name = "DHT"
			}
			realTables = append(realTables, JPEGSeg{Marker: m, Payload: append([]byte{}, d[i+4:i+2+l]...), Name: name})
		}
		i += 2 + l
	}
	return realTables
}

func writeSeg(b *bytes.Buffer, t *Truth, s JPEGSeg, idx int) {
	name := s.Name
	if name == "" {
		name = "seg"
	}
	name = name + "#" + itoa(idx)
	b.Write([]byte{0xFF, s.Marker})
	t.Fields = append(t.Fields, Field{Name: name + ".length", Off: b.Len(), Len: 2, Kind: "length"})
	b.Write(be16(len(s.Payload) + 2))
	if s.Name == "ICC" && len(s.Payload) >= 14 {
		t.Fields = append(t.Fields, Field{Name: name + ".num", Off: b.Len() + 12, Len: 1, Kind: "num"}, Field{Name: name + ".total", Off: b.Len() + 13, Len: 1, Kind: "count"})
	}
	b.Write(s.Payload)
}

func itoa(i int) string {
	if i == 0 {
		return "0"
	}
	var d []byte
	for i > 0 {
		d = append([]byte{byte('0' + i%10)}, d...)
		i /= 10
	}
	return string(d)
}

func (s JPEGSpec) Build() ([]byte, Truth) {
	t := Truth{Format: "JPEG", W: uint32(s.W), H: uint32(s.H), Depth: uint32(s.Precision), ICC: s.ICC, ICCState: s.ICCState}
	if t.ICCState == "" {
		t.ICCState = "none"
	}
	var b bytes.Buffer
	b.Write([]byte{0xFF, 0xD8})
	lastICCEnd, sofEnd := 0, 0
	n := 0
	for _, g := range s.Before {
		writeSeg(&b, &t, g, n)
		n++
		if g.Name == "ICC" {
			lastICCEnd = b.Len()
		}
	}
	m := byte(0xC0)
	if s.Progressive {
		m = 0xC2
	}
	p := []byte{s.Precision, byte(s.H >> 8), byte(s.H), byte(s.W >> 8), byte(s.W), byte(len(s.Comps))}
	for _, c := range s.Comps {
		p = append(p, c.ID, c.H<<4|c.V, c.Tq)
	}
	sofOff := b.Len()
	writeSeg(&b, &t, JPEGSeg{Marker: m, Payload: p, Name: "SOF"}, n)
	n++
	t.Fields = append(t.Fields, Field{Name: "SOF.height", Off: sofOff + 5, Len: 2, Kind: "dim"}, Field{Name: "SOF.width", Off: sofOff + 7, Len: 2, Kind: "dim"})
	sofEnd = b.Len()
	for _, g := range s.After {
		writeSeg(&b, &t, g, n)
		n++
		if g.Name == "ICC" {
			lastICCEnd = b.Len()
		}
	}
	// SOS header
	sos := []byte{byte(len(s.Comps))}
	for _, c := range s.Comps {
		sos = append(sos, c.ID, 0x00)
	}
	sos = append(sos, 0, 63, 0)
	writeSeg(&b, &t, JPEGSeg{Marker: 0xDA, Payload: sos, Name: "SOS"}, n)
	sosEnd := b.Len()
	b.Write(s.Entropy)
	if !s.NoEOI {
		b.Write([]byte{0xFF, 0xD9})
	}
	switch t.ICCState {
	case "ok":
		t.NeedEnd = sofEnd
		if lastICCEnd > t.NeedEnd {
			t.NeedEnd = lastICCEnd
		}
	default:
		// no (or damaged/incomplete) profile: the extractor may look as far as the SOS header
		t.NeedEnd = sosEnd
	}
	return b.Bytes(), t
}

// StdComps returns a standard component list for 1, 3 or 4 components with the
// given luma sampling factors.
func StdComps(n int, h, v byte) []JPEGComp {
	switch n {
	case 1:
		return []JPEGComp{{1, 1, 1, 0}}
	case 3:
		return []JPEGComp{{1, h, v, 0}, {2, 1, 1, 1}, {3, 1, 1, 1}}
	case 4:
		return []JPEGComp{{1, h, v, 0}, {2, 1, 1, 1}, {3, 1, 1, 1}, {4, h, v, 0}}
	}
	var c []JPEGComp
	for i := 0; i < n; i++ {
		c = append(c, JPEGComp{byte(i + 1), 1, 1, 0})
	}
	return c
}
