// Package imggen writes PNG / JPEG / WebP / ICC byte streams from parameters
// and returns, beside the bytes, the ground truth a correct extractor must
// report and where each structure lies (see DESIGN.md §2 G).
package imggen

import (
	"bytes"
	"compress/zlib"
	"encoding/binary"
	"hash/crc32"
)

// Field locates one multi-byte structure of the generated stream.
type Field struct {
	Name string `json:"name"`
	Off  int    `json:"off"`
	Len  int    `json:"len"`
	// Kind: "length" | "count" | "offset" | "dim" | "sig" | "num" | "data"
	Kind string `json:"kind"`
	// LE is true for little-endian fields (RIFF)
	LE bool `json:"le,omitempty"`
}

// Truth is what a correct extractor must report for a generated file.
type Truth struct {
	Format string `json:"format"` // "PNG" "JPEG" "WebP"
	W      uint32 `json:"w"`
	H      uint32 `json:"h"`
	Depth  uint32 `json:"depth"`
	// ICC is the embedded profile (nil when none is embedded)
	ICC []byte `json:"-"`
	// ICCState: "none" | "ok" | "damaged" (accessor must return an error) |
	// "damaged-or-ok" (damage may leave the payload decodable: error, or exactly ICC)
	ICCState string `json:"icc_state"`
	// NeedEnd is the offset just past the last structure the extractor needs
	NeedEnd int     `json:"need_end"`
	Fields  []Field `json:"fields,omitempty"`
}

func be16(v int) []byte { return []byte{byte(v >> 8), byte(v)} }
func be32(v uint32) []byte {
	b := make([]byte, 4)
	binary.BigEndian.PutUint32(b, v)
	return b
}
func le32(v uint32) []byte {
	b := make([]byte, 4)
	binary.LittleEndian.PutUint32(b, v)
	return b
}
func le24(v uint32) []byte { return []byte{byte(v), byte(v >> 8), byte(v >> 16)} }

// Deflate compresses with the given zlib level (-2..9).
func Deflate(data []byte, level int) []byte {
	var z bytes.Buffer
	w, err := zlib.NewWriterLevel(&z, level)
	if err != nil {
		w = zlib.NewWriter(&z)
	}
	_, _ = w.Write(data)
	_ = w.Close()
	return z.Bytes()
}

// ---------------------------------------------------------------------------
// PNG

type PNGChunk struct {
	Type string
	Data []byte
	// BadCRC writes a wrong CRC (prism does not verify CRCs; std decoders do)
	BadCRC bool
}

type PNGICC struct {
	Name    string // 1..79 Latin-1 bytes
	Profile []byte
	Level   int // zlib level
	// RawStream, when non-nil, is written instead of Deflate(Profile): used for damage classes
	RawStream []byte
	// State is the ICCState to report (default "ok")
	State string
}

type PNGSpec struct {
	W, H      uint32
	Depth     uint8
	ColorType uint8
	Interlace uint8
	Pre       []PNGChunk // ancillary chunks between IHDR and iCCP
	ICC       *PNGICC
	Post      []PNGChunk // between iCCP and IDAT (PLTE goes here for paletted images)
	IDAT      []byte
	NoIEND    bool
	// FixedICCCRC, when non-zero, is written as the iCCP chunk's CRC field instead of the real CRC
	FixedICCCRC uint32
}

var PNGSig = []byte{0x89, 'P', 'N', 'G', 0x0D, 0x0A, 0x1A, 0x0A}

func writePNGChunk(b *bytes.Buffer, t *Truth, c PNGChunk, name string) {
	t.Fields = append(t.Fields, Field{Name: name + ".length", Off: b.Len(), Len: 4, Kind: "length"})
	b.Write(be32(uint32(len(c.Data))))
	t.Fields = append(t.Fields, Field{Name: name + ".type", Off: b.Len(), Len: 4, Kind: "sig"})
	b.WriteString(c.Type)
	b.Write(c.Data)
	crc := crc32.NewIEEE()
	crc.Write([]byte(c.Type))
	crc.Write(c.Data)
	sum := crc.Sum32()
	if c.BadCRC {
		sum ^= 0x5a5a5a5a
	}
	b.Write(be32(sum))
}

func (s PNGSpec) Build() ([]byte, Truth) {
	t := Truth{Format: "PNG", W: s.W, H: s.H, Depth: uint32(s.Depth), ICCState: "none"}
	var b bytes.Buffer
	t.Fields = append(t.Fields, Field{Name: "signature", Off: 0, Len: 8, Kind: "sig"})
	b.Write(PNGSig)
	ihdr := append(append(be32(s.W), be32(s.H)...), s.Depth, s.ColorType, 0, 0, s.Interlace)
	t.Fields = append(t.Fields, Field{Name: "IHDR.width", Off: b.Len() + 8, Len: 4, Kind: "dim"}, Field{Name: "IHDR.height", Off: b.Len() + 12, Len: 4, Kind: "dim"})
	writePNGChunk(&b, &t, PNGChunk{Type: "IHDR", Data: ihdr}, "IHDR")
	for i, c := range s.Pre {
		writePNGChunk(&b, &t, c, "pre"+string(rune('0'+i%10))+"."+c.Type)
	}
	if s.ICC != nil {
		stream := s.ICC.RawStream
		if stream == nil {
			stream = Deflate(s.ICC.Profile, s.ICC.Level)
		}
		data := append([]byte(s.ICC.Name), 0, 0)
		data = append(data, stream...)
		writePNGChunk(&b, &t, PNGChunk{Type: "iCCP", Data: data}, "iCCP")
		if s.FixedICCCRC != 0 {
			bb := b.Bytes()
			copy(bb[len(bb)-4:], be32(s.FixedICCCRC))
		}
		t.ICC = s.ICC.Profile
		t.ICCState = "ok"
		if s.ICC.State != "" {
			t.ICCState = s.ICC.State
		}
		t.NeedEnd = b.Len()
	}
	for i, c := range s.Post {
		writePNGChunk(&b, &t, c, "post"+string(rune('0'+i%10))+"."+c.Type)
	}
	if s.ICC == nil {
		// without a profile the extractor must look as far as the IDAT chunk header
		t.NeedEnd = b.Len() + 8
	}
	writePNGChunk(&b, &t, PNGChunk{Type: "IDAT", Data: s.IDAT}, "IDAT")
	if !s.NoIEND {
		writePNGChunk(&b, &t, PNGChunk{Type: "IEND"}, "IEND")
	}
	return b.Bytes(), t
}

// ---------------------------------------------------------------------------
// WebP

type WebPSpec struct {
	Kind string // "VP8" | "VP8L" | "VP8X"
	W, H uint32 // true pixel dimensions
	// VP8: scaling bits (2+2); VP8L: alpha bit; VP8X: flags byte (bit 5 = ICC is forced to match ICC != nil unless FlagsRaw)
	XScale, YScale uint8
	Alpha          bool
	Flags          uint8
	FlagsRaw       bool
	ICC            []byte   // VP8X only
	ICCFourCC      string   // default "ICCP"; other value = damage class "flag set but next chunk is not ICCP"
	Payload        []byte   // bytes after the header inside the bitstream chunk
	Extra          [][2]any // VP8X: further chunks {fourcc string, data []byte}
	// FrameTag, when non-zero, replaces the three VP8 frame-tag bytes (key frame bit must stay 0;
	// bits 1-3 are the profile 0..3, bit 4 show_frame, the rest the first-partition size)
	FrameTag [3]byte
}

func riffChunk(b *bytes.Buffer, t *Truth, fourcc string, data []byte, name string) {
	t.Fields = append(t.Fields, Field{Name: name + ".fourcc", Off: b.Len(), Len: 4, Kind: "sig"})
	b.WriteString(fourcc)
	t.Fields = append(t.Fields, Field{Name: name + ".size", Off: b.Len(), Len: 4, Kind: "length", LE: true})
	b.Write(le32(uint32(len(data))))
	b.Write(data)
	if len(data)%2 == 1 {
		b.WriteByte(0)
	}
}

func (s WebPSpec) Build() ([]byte, Truth) {
	t := Truth{Format: "WebP", W: s.W, H: s.H, Depth: 8, ICCState: "none"}
	var body bytes.Buffer
	body.WriteString("WEBP")
	base := 8 // offset of body inside the file
	bt := Truth{}
	switch s.Kind {
	case "VP8":
		tag := [3]byte{0x10, 0x02, 0x00}
		if s.FrameTag != [3]byte{} {
			tag = s.FrameTag
			tag[0] &^= 1
		}
		hdr := []byte{tag[0], tag[1], tag[2], 0x9d, 0x01, 0x2a,
			byte(s.W), byte(s.W>>8)&0x3f | s.XScale<<6, byte(s.H), byte(s.H>>8)&0x3f | s.YScale<<6}
		bt.Fields = append(bt.Fields, Field{Name: "VP8.width", Off: body.Len() + 8 + 6, Len: 2, Kind: "dim", LE: true}, Field{Name: "VP8.height", Off: body.Len() + 8 + 8, Len: 2, Kind: "dim", LE: true})
		riffChunk(&body, &bt, "VP8 ", append(hdr, s.Payload...), "VP8")
		t.NeedEnd = base + 4 + 8 + 10
	case "VP8L":
		w1, h1 := s.W-1, s.H-1
		bits := w1&0x3fff | (h1&0x3fff)<<14
		if s.Alpha {
			bits |= 1 << 28
		}
		hdr := append([]byte{0x2f}, le32(bits)...)
		bt.Fields = append(bt.Fields, Field{Name: "VP8L.dims", Off: body.Len() + 8 + 1, Len: 4, Kind: "dim", LE: true})
		riffChunk(&body, &bt, "VP8L", append(hdr, s.Payload...), "VP8L")
		t.NeedEnd = base + 4 + 8 + 5
	case "VP8X":
		flags := s.Flags
		if !s.FlagsRaw {
			flags &^= 1 << 5
			if s.ICC != nil {
				flags |= 1 << 5
			}
		}
		hdr := append([]byte{flags, 0, 0, 0}, append(le24(s.W-1), le24(s.H-1)...)...)
		bt.Fields = append(bt.Fields, Field{Name: "VP8X.width", Off: body.Len() + 8 + 4, Len: 3, Kind: "dim", LE: true}, Field{Name: "VP8X.height", Off: body.Len() + 8 + 7, Len: 3, Kind: "dim", LE: true})
		riffChunk(&body, &bt, "VP8X", hdr, "VP8X")
		t.NeedEnd = base + 4 + 8 + 10
		if s.ICC != nil {
			cc := s.ICCFourCC
			if cc == "" {
				cc = "ICCP"
			}
			riffChunk(&body, &bt, cc, s.ICC, "ICCP")
			if flags&(1<<5) != 0 {
				t.ICC = s.ICC
				t.ICCState = "ok"
				t.NeedEnd = base + body.Len() - len(s.ICC)%2 // payload end, before the pad byte
				if cc != "ICCP" {
					t.ICC = nil
					t.ICCState = "damaged"
					t.NeedEnd = base + 4 + 18 + 8
				}
			}
		} else if flags&(1<<5) != 0 {
			t.ICCState = "damaged" // flag promises a profile that is not there
			t.NeedEnd = base + 4 + 18 + 8
		}
		for i, e := range s.Extra {
			riffChunk(&body, &bt, e[0].(string), e[1].([]byte), "extra"+string(rune('0'+i%10)))
		}
		if s.Payload != nil {
			riffChunk(&body, &bt, "VP8 ", s.Payload, "VP8")
		}
	}
	var b bytes.Buffer
	t.Fields = append(t.Fields, Field{Name: "RIFF.fourcc", Off: 0, Len: 4, Kind: "sig"}, Field{Name: "RIFF.size", Off: 4, Len: 4, Kind: "length", LE: true}, Field{Name: "WEBP", Off: 8, Len: 4, Kind: "sig"})
	b.WriteString("RIFF")
	b.Write(le32(uint32(body.Len())))
	b.Write(body.Bytes())
	for _, f := range bt.Fields {
		f.Off += base
		t.Fields = append(t.Fields, f)
	}
	return b.Bytes(), t
}
