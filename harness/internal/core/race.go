package core

import (
	"bufio"
	"bytes"
	"context"
	"fmt"
	"os"
	"os/exec"
	"path/filepath"
	"sort"
	"strings"
	"time"
)

// RaceReport is one "WARNING: DATA RACE" block of a race-detector log.
type RaceReport struct {
	Sig       string   // sorted pair of the innermost prism frames of the two accesses
	PrismIn   bool     // a frame of the library under judgement appears in either access stack
	Accesses  []string // "Read at ... by goroutine N" header lines
	TopFrames []string // innermost frame of each access stack
	Text      string
}

const prismModule = "github.com/mandykoh/prism"

// ParseRaceLog splits a GORACE log into reports.
func ParseRaceLog(text string) []RaceReport {
	var out []RaceReport
	blocks := strings.Split(text, "==================")
	for _, b := range blocks {
		if !strings.Contains(b, "WARNING: DATA RACE") {
			continue
		}
		rep := RaceReport{Text: strings.TrimSpace(b)}
		var inner []string
		sc := bufio.NewScanner(strings.NewReader(b))
		sc.Buffer(make([]byte, 1<<20), 1<<20)
		inAccess := false
		var firstPrism, top string
		flush := func() {
			if inAccess {
				if firstPrism == "" {
					firstPrism = "(no prism frame) " + top
				}
				inner = append(inner, firstPrism)
				rep.TopFrames = append(rep.TopFrames, top)
			}
			inAccess, firstPrism, top = false, "", ""
		}
		for sc.Scan() {
			line := sc.Text()
			t := strings.TrimSpace(line)
			switch {
			case strings.HasPrefix(t, "Read at ") || strings.HasPrefix(t, "Write at ") || strings.HasPrefix(t, "Previous read at ") ||
				strings.HasPrefix(t, "Previous write at ") || strings.HasPrefix(t, "Atomic read at ") || strings.HasPrefix(t, "Atomic write at ") ||
				strings.HasPrefix(t, "Previous atomic read at ") || strings.HasPrefix(t, "Previous atomic write at "):
				flush()
				inAccess = true
				rep.Accesses = append(rep.Accesses, t)
			case t == "" || strings.HasPrefix(t, "Goroutine "):
				flush()
			case inAccess && strings.HasPrefix(line, "  ") && !strings.HasPrefix(line, "      "):
				fn := t
				if i := strings.LastIndex(fn, "("); i > 0 {
					fn = fn[:i]
				}
				if top == "" {
					top = fn
				}
				if firstPrism == "" && strings.Contains(fn, prismModule) {
					firstPrism = fn
					rep.PrismIn = true
				}
			}
		}
		flush()
		sort.Strings(inner)
		rep.Sig = strings.Join(inner, " <-> ")
		out = append(out, rep)
	}
	return out
}

// RunRaceChild runs the race-instrumented harness binary (VCHECK_RACE_BIN) as
// `vcheck child <args...>` with GORACE logging to a private directory, and
// returns its stdout, the parsed race reports and the exit status. timedOut
// tells whether the wall-clock watchdog had to kill it.
func RunRaceChild(workDir string, tag string, env []string, timeout time.Duration, args ...string) (stdout []byte, reports []RaceReport, exitCode int, timedOut bool, err error) {
	return RunRaceChildOpts(workDir, tag, env, timeout, "", args...)
}

// RunRaceChildOpts is RunRaceChild with extra GORACE options (e.g. "history_size=7").
func RunRaceChildOpts(workDir string, tag string, env []string, timeout time.Duration, gorace string, args ...string) (stdout []byte, reports []RaceReport, exitCode int, timedOut bool, err error) {
	bin := os.Getenv("VCHECK_RACE_BIN")
	if bin == "" {
		return nil, nil, -1, false, fmt.Errorf("VCHECK_RACE_BIN not set (run through ./check)")
	}
	logBase := filepath.Join(workDir, "race-"+tag)
	ctx, cancel := context.WithTimeout(context.Background(), timeout)
	defer cancel()
	cmd := exec.CommandContext(ctx, bin, append([]string{"child"}, args...)...)
	cmd.Env = append(os.Environ(), "GORACE=halt_on_error=0 "+gorace+" log_path="+logBase)
	cmd.Env = append(cmd.Env, env...)
	var so, se bytes.Buffer
	cmd.Stdout, cmd.Stderr = &so, &se
	runErr := cmd.Run()
	timedOut = ctx.Err() != nil
	exitCode = 0
	if runErr != nil {
		if ee, ok := runErr.(*exec.ExitError); ok {
			exitCode = ee.ExitCode()
		} else {
			return so.Bytes(), nil, -1, timedOut, runErr
		}
	}
	matches, _ := filepath.Glob(logBase + ".*")
	for _, m := range matches {
		b, rerr := os.ReadFile(m)
		if rerr == nil {
			reports = append(reports, ParseRaceLog(string(b))...)
		}
		_ = os.Remove(m)
	}
	if exitCode != 0 && exitCode != 66 && len(reports) == 0 {
		// 66 is the race detector's exit status when reports were made
		err = fmt.Errorf("child exit %d: %s", exitCode, tail(se.String(), 600))
	}
	return so.Bytes(), reports, exitCode, timedOut, err
}

func tail(s string, n int) string {
	if len(s) <= n {
		return s
	}
	return s[len(s)-n:]
}
