package core

import (
	"bytes"
	"context"
	"fmt"
	"os"
	"os/exec"
	"strings"
	"time"
)

// RunSelfChild re-executes this binary as `vcheck child <args...>` and returns
// its stdout and stderr. A non-zero exit or a watchdog kill is reported in err /
// timedOut; the caller decides what that means.
func RunSelfChild(timeout time.Duration, env []string, args ...string) (stdout, stderr []byte, exitCode int, timedOut bool, err error) {
	exe, err := os.Executable()
	if err != nil {
		return nil, nil, -1, false, err
	}
	return RunBinChild(exe, timeout, env, args...)
}

// RunBinChild is RunSelfChild with a chosen monitor binary (the GOARCH=386 build of the same monitor).
func RunBinChild(exe string, timeout time.Duration, env []string, args ...string) (stdout, stderr []byte, exitCode int, timedOut bool, err error) {
	ctx, cancel := context.WithTimeout(context.Background(), timeout)
	defer cancel()
	cmd := exec.CommandContext(ctx, exe, append([]string{"child"}, args...)...)
	cmd.Env = append(os.Environ(), env...)
	var so, se bytes.Buffer
	cmd.Stdout, cmd.Stderr = &so, &se
	runErr := cmd.Run()
	timedOut = ctx.Err() != nil
	if runErr != nil {
		if ee, ok := runErr.(*exec.ExitError); ok {
			return so.Bytes(), se.Bytes(), ee.ExitCode(), timedOut, nil
		}
		return so.Bytes(), se.Bytes(), -1, timedOut, runErr
	}
	return so.Bytes(), se.Bytes(), 0, timedOut, nil
}

// RunVariantChild runs `vcheck child <prop> <variant>` and merges its result
// into r. A child that dies without a result is a violation candidate only if
// it panicked inside the library; here it is reported as inconclusive with the
// stderr tail unless the stderr shows a Go panic, which is reported as a
// violation (the library crashed the process).
func (r *Run) RunVariantChild(variant string, timeout time.Duration, countNT bool) {
	env := []string{fmt.Sprintf("VERIF_SEED=%d", r.Seed), "VERIF_TIER=" + r.Tier}
	// "<prelude>@<n>" runs the child with GOMAXPROCS=n (first use under another degree of parallelism)
	if i := strings.LastIndex(variant, "@"); i >= 0 {
		env = append(env, "GOMAXPROCS="+variant[i+1:])
	}
	// "env:NAME=VALUE" tokens set the child's environment (time zone, locale ...): state a process
	// inherits from outside
	for _, tok := range strings.Split(strings.SplitN(variant, "@", 2)[0], "+") {
		if strings.HasPrefix(tok, "env:") {
			env = append(env, tok[4:])
		}
	}
	var so, se []byte
	var code int
	var timedOut bool
	var err error
	if strings.Contains(variant, "arch386") {
		// the same monitor built for a 32-bit target (int and uintptr are 32 bits wide, 64-bit atomics
		// need alignment): ./check builds it for the numeric properties and names it in VCHECK_386_BIN
		exe := os.Getenv("VCHECK_386_BIN")
		if exe == "" {
			r.Inconclusive("variant " + variant + ": the GOARCH=386 build of the monitor is not available (" + os.Getenv("VCHECK_386_ERR") + ")")
			return
		}
		so, se, code, timedOut, err = RunBinChild(exe, timeout, env, r.Prop, variant)
	} else {
		so, se, code, timedOut, err = RunSelfChild(timeout, env, r.Prop, variant)
	}
	if err != nil {
		r.Inconclusive(fmt.Sprintf("variant %s: cannot run child: %v", variant, err))
		return
	}
	if r.MergeChildOutput(so, variant, countNT) {
		return
	}
	if timedOut {
		r.Inconclusive(fmt.Sprintf("variant %s: watchdog fired", variant))
		return
	}
	if bytes.Contains(se, []byte("panic:")) || bytes.Contains(se, []byte("fatal error:")) {
		r.Violate("variant", "crash ["+variant+"]", fmt.Sprintf("child process for variant %s died (exit %d):\n%s", variant, code, tail(string(se), 2500)), map[string]any{"variant": variant})
		return
	}
	r.Inconclusive(fmt.Sprintf("variant %s: child exit %d without result: %s", variant, code, tail(string(se), 300)))
}
