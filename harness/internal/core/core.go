// Package core holds what every property driver shares: the run context
// (counters, non-triviality set, violations, evidence), the seeded PRNG, replay
// files and the known-findings matcher.
package core

import (
	"crypto/sha256"
	"encoding/hex"
	"encoding/json"
	"fmt"
	"hash/fnv"
	"math"
	"os"
	"path/filepath"
	"runtime"
	"sort"
	"strconv"
	"strings"
	"sync"
	"sync/atomic"
	"time"
)

// VerifDir is the root of the verification tree (where evidence/, replays/ and
// known_findings.json live).
func VerifDir() string {
	if d := os.Getenv("VERIF_DIR"); d != "" {
		return d
	}
	return "/verif"
}

// RepoDir is the tree under judgement (only used to find real sample files).
func RepoDir() string {
	if d := os.Getenv("VERIF_REPO"); d != "" {
		return d
	}
	return "/repo"
}

// WorkDir returns a scratch directory below VerifDir (never /tmp) for one run.
// OutDir is where evidence/ and replays/ are written: the verification tree itself, or
// VERIF_OUT_DIR when a self-test (seeded change, mutant, coverage read-back) runs a check
// against a changed copy of the library and must not overwrite the evidence of the real tree.
func OutDir() string {
	if d := os.Getenv("VERIF_OUT_DIR"); d != "" {
		return d
	}
	return VerifDir()
}

// StartWatchdog bounds the whole run by wall-clock time (quick 15 min, thorough 3 h; VERIF_WATCHDOG_MIN
// overrides). A library call that never returns (possible on a changed tree) would otherwise keep
// the monitor alive for ever. Firing is not a verdict on the property: the run ends INCONCLUSIVE
// (exit 3) with a goroutine dump showing where it was.
func StartWatchdog(prop, tier string) {
	mins := 15
	if tier == "thorough" {
		mins = 180
	}
	if s := os.Getenv("VERIF_WATCHDOG_MIN"); s != "" {
		if v, err := strconv.Atoi(s); err == nil && v > 0 {
			mins = v
		}
	}
	go func() {
		time.Sleep(time.Duration(mins) * time.Minute)
		dir := filepath.Join(OutDir(), "replays", prop)
		_ = os.MkdirAll(dir, 0o755)
		path := filepath.Join(dir, fmt.Sprintf("watchdog-%d.log", os.Getpid()))
		buf := make([]byte, 4<<20)
		buf = buf[:runtime.Stack(buf, true)]
		_ = os.WriteFile(path, buf, 0o644)
		fmt.Printf("INCONCLUSIVE property=%s reason=watchdog: the monitor did not finish within %d minutes (goroutine dump: %s)\n", prop, mins, path)
		os.Exit(3)
	}()
}

func WorkDir(prop string) string {
	d := filepath.Join(VerifDir(), ".work", fmt.Sprintf("%s-%d", prop, os.Getpid()))
	_ = os.MkdirAll(d, 0o755)
	return d
}

// RemoveWorkDirs removes this process's scratch directories under .work (those WorkDir made).
func RemoveWorkDirs() {
	ds, _ := filepath.Glob(filepath.Join(VerifDir(), ".work", fmt.Sprintf("*-%d", os.Getpid())))
	for _, d := range ds {
		_ = os.RemoveAll(d)
	}
}

func Seed() int64 {
	if s := os.Getenv("VERIF_SEED"); s != "" {
		if v, err := strconv.ParseInt(s, 10, 64); err == nil {
			return v
		}
	}
	return 1
}

// ---------------------------------------------------------------------------
// PRNG: splitmix64, one independent stream per (seed, labels...)

type RNG struct{ s uint64 }

func NewRNG(seed int64, labels ...string) *RNG {
	h := fnv.New64a()
	fmt.Fprintf(h, "%d", seed)
	for _, l := range labels {
		h.Write([]byte{0})
		h.Write([]byte(l))
	}
	r := &RNG{s: h.Sum64()}
	r.U64()
	return r
}

func (r *RNG) U64() uint64 {
	r.s += 0x9E3779B97F4A7C15
	z := r.s
	z = (z ^ (z >> 30)) * 0xBF58476D1CE4E5B9
	z = (z ^ (z >> 27)) * 0x94D049BB133111EB
	return z ^ (z >> 31)
}
func (r *RNG) U32() uint32 { return uint32(r.U64() >> 32) }
func (r *RNG) Intn(n int) int {
	if n <= 0 {
		return 0
	}
	return int(r.U64() % uint64(n))
}
func (r *RNG) Range(lo, hi int) int { return lo + r.Intn(hi-lo+1) } // inclusive
func (r *RNG) F64() float64         { return float64(r.U64()>>11) / (1 << 53) }
func (r *RNG) Uniform(lo, hi float64) float64 {
	return lo + (hi-lo)*r.F64()
}
func (r *RNG) Bool() bool { return r.U64()&1 == 1 }
func (r *RNG) Bytes(n int) []byte {
	b := make([]byte, n)
	r.Fill(b)
	return b
}
func (r *RNG) Fill(b []byte) {
	i := 0
	for ; i+8 <= len(b); i += 8 {
		v := r.U64()
		b[i], b[i+1], b[i+2], b[i+3] = byte(v), byte(v>>8), byte(v>>16), byte(v>>24)
		b[i+4], b[i+5], b[i+6], b[i+7] = byte(v>>32), byte(v>>40), byte(v>>48), byte(v>>56)
	}
	if i < len(b) {
		v := r.U64()
		for ; i < len(b); i++ {
			b[i] = byte(v)
			v >>= 8
		}
	}
}
func (r *RNG) Perm(n int) []int {
	p := make([]int, n)
	for i := range p {
		p[i] = i
	}
	for i := n - 1; i > 0; i-- {
		j := r.Intn(i + 1)
		p[i], p[j] = p[j], p[i]
	}
	return p
}
func Pick[T any](r *RNG, xs []T) T { return xs[r.Intn(len(xs))] }

// ---------------------------------------------------------------------------
// Run context

type Violation struct {
	Property string `json:"property"`
	Stage    string `json:"stage"`
	Sig      string `json:"signature"`
	Msg      string `json:"message"`
	Seed     int64  `json:"seed"`
	Tier     string `json:"tier"`
	Case     any    `json:"case"`
	Count    int64  `json:"-"`
}

type Run struct {
	Prop  string
	Tier  string
	Seed  int64
	Level string
	Start time.Time

	evals atomic.Int64

	ntShards [64]ntShard
	ntExtra  atomic.Int64

	mu           sync.Mutex
	viol         map[string]*Violation
	violOrder    []string
	obs          map[string]any
	samples      []any
	inconclusive []string

	Rule        string
	Exhaustive  bool
	Assumptions []string

	// Variant is non-empty inside a fresh-process variant child (see
	// RunVariantChild); drivers use it to avoid spawning grandchildren.
	Variant string
}

type ntShard struct {
	mu sync.Mutex
	m  map[uint64]struct{}
}

func NewRun(prop, tier, level string) *Run {
	r := &Run{Prop: prop, Tier: tier, Seed: Seed(), Level: level, Start: time.Now(),
		viol: map[string]*Violation{}, obs: map[string]any{}}
	for i := range r.ntShards {
		r.ntShards[i].m = map[uint64]struct{}{}
	}
	return r
}

func (r *Run) Thorough() bool { return r.Tier == "thorough" }

func (r *Run) AddEvals(n int64) { r.evals.Add(n) }
func (r *Run) Evals() int64     { return r.evals.Load() }

// NT records one non-trivial case by key; distinctness is by the 64-bit hash of
// the key.
func (r *Run) NT(key string) {
	h := fnv.New64a()
	h.Write([]byte(key))
	r.NTHash(h.Sum64())
}
func (r *Run) NTHash(h uint64) {
	s := &r.ntShards[h&63]
	s.mu.Lock()
	s.m[h] = struct{}{}
	s.mu.Unlock()
}

// NTCount adds n cases that the driver has itself established to be distinct
// and non-trivial (e.g. counted with a bitset over an enumerated space).
func (r *Run) NTCount(n int64) { r.ntExtra.Add(n) }

func (r *Run) NTTotal() int64 {
	n := r.ntExtra.Load()
	for i := range r.ntShards {
		r.ntShards[i].mu.Lock()
		n += int64(len(r.ntShards[i].m))
		r.ntShards[i].mu.Unlock()
	}
	return n
}

func (r *Run) Sample(s any) {
	r.mu.Lock()
	if len(r.samples) < 12 {
		r.samples = append(r.samples, s)
	}
	r.mu.Unlock()
}

// Obs sets an observation (any JSON value) in the evidence.
func (r *Run) Obs(k string, v any) {
	r.mu.Lock()
	r.obs[k] = v
	r.mu.Unlock()
}

// ObsAdd adds to an integer counter in the evidence.
func (r *Run) ObsAdd(k string, n int64) {
	r.mu.Lock()
	cur, _ := r.obs[k].(int64)
	r.obs[k] = cur + n
	r.mu.Unlock()
}

// ObsMax keeps the maximum of a float observation.
func (r *Run) ObsMax(k string, v float64) {
	r.mu.Lock()
	cur, ok := r.obs[k].(float64)
	if !ok || v > cur {
		r.obs[k] = v
	}
	r.mu.Unlock()
}

func (r *Run) Inconclusive(reason string) {
	r.mu.Lock()
	r.inconclusive = append(r.inconclusive, reason)
	r.mu.Unlock()
}

// Violate records a violation. Violations with the same signature are grouped;
// the first case seen for a signature becomes its witness.
func (r *Run) Violate(stage, sig, msg string, c any) {
	// a witness that JSON cannot carry (a NaN or an infinity in a float field) must not take the
	// report down with it: it is kept as text
	if _, err := json.Marshal(c); err != nil {
		c = map[string]any{"case_as_text": fmt.Sprintf("%+v", c), "note": "not encodable as JSON: " + err.Error()}
	}
	r.mu.Lock()
	defer r.mu.Unlock()
	if v, ok := r.viol[sig]; ok {
		v.Count++
		return
	}
	r.viol[sig] = &Violation{Property: r.Prop, Stage: stage, Sig: sig, Msg: msg, Seed: r.Seed, Tier: r.Tier, Case: c, Count: 1}
	r.violOrder = append(r.violOrder, sig)
}

func (r *Run) ViolationCount() int {
	r.mu.Lock()
	defer r.mu.Unlock()
	return len(r.viol)
}

// ---------------------------------------------------------------------------
// known findings

type KnownFinding struct {
	Property  string `json:"property"`
	Signature string `json:"signature"` // exact signature, or prefix when ending in '*'
	What      string `json:"what"`
}
type FixedFinding struct {
	Property string `json:"property"`
	Commit   string `json:"commit"`
	What     string `json:"what"`
}
type KnownFile struct {
	Known []KnownFinding `json:"known"`
	Fixed []FixedFinding `json:"fixed"`
}

func LoadKnown() KnownFile {
	var k KnownFile
	b, err := os.ReadFile(filepath.Join(VerifDir(), "known_findings.json"))
	if err == nil {
		_ = json.Unmarshal(b, &k)
	}
	return k
}

func (k KnownFile) match(prop, sig string) *KnownFinding {
	for i := range k.Known {
		f := &k.Known[i]
		if f.Property != prop {
			continue
		}
		if f.Signature == sig {
			return f
		}
	}
	return nil
}

// ---------------------------------------------------------------------------
// finishing a run

func sigFile(sig string) string {
	h := sha256.Sum256([]byte(sig))
	return hex.EncodeToString(h[:6])
}

// Finish prints VIOLATION / KNOWN-FINDING / RESULT lines, writes replay files
// and the evidence file, and returns the process exit code.
func (r *Run) Finish() int {
	strayMu.Lock()
	for _, sp := range strayPanics {
		first := strings.SplitN(sp, "\n", 2)[0]
		r.Violate("panic", "panic reached the harness: "+first, "a panic escaped from the library into the harness:\n"+sp, map[string]any{"panic": first})
	}
	strayMu.Unlock()
	wall := time.Since(r.Start).Seconds()
	known := LoadKnown()
	r.mu.Lock()
	order := append([]string(nil), r.violOrder...)
	r.mu.Unlock()
	sort.Strings(order)

	replayDir := filepath.Join(OutDir(), "replays", r.Prop)
	realViol := 0
	knownHits := 0
	printed := 0
	for _, sig := range order {
		v := r.viol[sig]
		if kf := known.match(r.Prop, sig); kf != nil {
			knownHits++
			fmt.Printf("KNOWN-FINDING: property=%s %s [signature=%s occurrences=%d]\n", r.Prop, kf.What, sig, v.Count)
			continue
		}
		realViol++
		if printed >= 20 {
			continue
		}
		printed++
		_ = os.MkdirAll(replayDir, 0o755)
		p := filepath.Join(replayDir, sigFile(sig)+".json")
		b, err := json.MarshalIndent(v, "", " ")
		if err != nil {
			b, _ = json.Marshal(map[string]any{"property": r.Prop, "stage": v.Stage, "signature": sig, "message": v.Msg, "marshal_error": err.Error()})
		}
		_ = os.WriteFile(p, b, 0o644)
		fmt.Printf("VIOLATION property=%s replay=%s\n", r.Prop, p)
		fmt.Printf("  signature=%s occurrences=%d\n  %s\n", sig, v.Count, strings.ReplaceAll(v.Msg, "\n", "\n  "))
	}
	if realViol > printed {
		fmt.Printf("  (%d further violation signatures not printed)\n", realViol-printed)
	}

	verdict := "held"
	code := 0
	if realViol > 0 {
		verdict = "violated"
		code = 1
	} else if len(r.inconclusive) > 0 {
		verdict = "inconclusive"
		code = 3
		for _, why := range r.inconclusive {
			fmt.Printf("INCONCLUSIVE property=%s reason=%s\n", r.Prop, why)
		}
	}

	nt := r.NTTotal()
	cov := map[string]any{}
	for k, v := range r.obs {
		cov[k] = v
	}
	cov["evaluations"] = r.Evals()
	cov["distinct_nontrivial"] = nt
	cov["rule"] = r.Rule
	samples := r.samples
	if len(samples) == 0 {
		samples = []any{"(no sample recorded)"}
	}
	cov["samples"] = samples
	cov["exhaustive"] = r.Exhaustive
	cov["verdict"] = verdict
	cov["known_findings_matched"] = knownHits
	if len(r.inconclusive) > 0 {
		cov["inconclusive_reasons"] = r.inconclusive
	}
	ev := map[string]any{
		"property_id": r.Prop,
		"tier":        r.Tier,
		"seed":        r.Seed,
		"level":       r.Level,
		"coverage":    cov,
		"assumptions": r.Assumptions,
		"wall_s":      wall,
		"violations":  realViol,
	}
	if r.Assumptions == nil {
		ev["assumptions"] = []string{}
	}
	b, err := json.MarshalIndent(sanitizeJSON(ev), "", " ")
	if err != nil {
		fmt.Printf("INCONCLUSIVE property=%s reason=evidence-marshal:%v\n", r.Prop, err)
		return 3
	}
	evDir := filepath.Join(OutDir(), "evidence")
	_ = os.MkdirAll(evDir, 0o755)
	if err := os.WriteFile(filepath.Join(evDir, r.Prop+".json"), append(b, '\n'), 0o644); err != nil {
		fmt.Printf("INCONCLUSIVE property=%s reason=evidence-write:%v\n", r.Prop, err)
		return 3
	}
	fmt.Printf("RESULT property=%s tier=%s seed=%d verdict=%s evaluations=%d nontrivial=%d wall_s=%.1f\n",
		r.Prop, r.Tier, r.Seed, verdict, r.Evals(), nt, wall)
	return code
}

// ---------------------------------------------------------------------------
// registry

type Property struct {
	ID     string
	Level  string
	Run    func(r *Run)
	Replay func(stage string, c json.RawMessage) (violated bool, msg string, err error)
	// Child, when set, is the body executed in child processes of this
	// property (args are property specific).
	Child func(args []string) int
}

// ApplyVariant is installed by the props package (fresh-process variant preludes).
var ApplyVariant func(variant string)

var Registry = map[string]*Property{}

func Register(p *Property) { Registry[p.ID] = p }

// ParallelFor runs f(i) for i in [0,n) on w workers.
func ParallelFor(n, w int, f func(i int)) {
	if w < 1 {
		w = 1
	}
	var next atomic.Int64
	var wg sync.WaitGroup
	for k := 0; k < w; k++ {
		wg.Add(1)
		go func() {
			defer wg.Done()
			for {
				i := int(next.Add(1) - 1)
				if i >= n {
					return
				}
				func() {
					defer func() {
						if p := recover(); p != nil {
							notePanic(p)
						}
					}()
					f(i)
				}()
			}
		}()
	}
	wg.Wait()
}

// ---------------------------------------------------------------------------
// running part of a property in a fresh child process (process-level state such
// as lazily built tables can only be re-exercised in a new process)

type childResult struct {
	Evals      int64          `json:"evals"`
	NT         int64          `json:"nt"`
	Violations []*Violation   `json:"violations"`
	Incon      []string       `json:"inconclusive"`
	Obs        map[string]any `json:"obs"`
}

// EmitChildResult is called by a child body: it serialises what the child's
// Run collected to stdout for the parent to merge.
func (r *Run) EmitChildResult() {
	res := childResult{Evals: r.Evals(), NT: r.NTTotal(), Incon: r.inconclusive, Obs: r.obs}
	for _, sig := range r.violOrder {
		v := *r.viol[sig]
		res.Violations = append(res.Violations, &v)
	}
	b, _ := json.Marshal(res)
	fmt.Printf("CHILDRESULT %s\n", b)
}

// MergeChildOutput merges a child's CHILDRESULT line into r. variant labels
// the child's violations. It returns false when no result line was found.
func (r *Run) MergeChildOutput(out []byte, variant string, countNT bool) bool {
	for _, line := range strings.Split(string(out), "\n") {
		if !strings.HasPrefix(line, "CHILDRESULT ") {
			continue
		}
		var res childResult
		if err := json.Unmarshal([]byte(line[len("CHILDRESULT "):]), &res); err != nil {
			return false
		}
		r.AddEvals(res.Evals)
		if countNT {
			r.NTCount(res.NT)
		}
		for _, v := range res.Violations {
			r.Violate(v.Stage, v.Sig+" ["+variant+"]", v.Msg+"\n(observed in a fresh process, variant "+variant+")", map[string]any{"variant": variant, "case": v.Case})
		}
		for _, s := range res.Incon {
			r.Inconclusive(variant + ": " + s)
		}
		return true
	}
	return false
}

// Panics that reached the harness from library code called outside a driver's own recover.
// On the unchanged tree there are none; on a changed tree they are violations (the library
// crashed its caller), reported by Finish with the stack.
var (
	strayMu     sync.Mutex
	strayPanics []string
)

func notePanic(p any) {
	buf := make([]byte, 6000)
	buf = buf[:runtime.Stack(buf, false)]
	strayMu.Lock()
	if len(strayPanics) < 5 {
		strayPanics = append(strayPanics, fmt.Sprintf("%v\n%s", p, buf))
	}
	strayMu.Unlock()
}

// NotePanic lets drivers and main report a recovered panic the same way.
func NotePanic(p any) { notePanic(p) }

// sanitizeJSON makes a value safe for encoding/json: NaN and infinities (which a broken
// library can easily produce in "max error" observations) become strings.
func sanitizeJSON(v any) any {
	switch x := v.(type) {
	case float64:
		if math.IsNaN(x) || math.IsInf(x, 0) {
			return fmt.Sprint(x)
		}
		return x
	case float32:
		return sanitizeJSON(float64(x))
	case map[string]any:
		o := make(map[string]any, len(x))
		for k, e := range x {
			o[k] = sanitizeJSON(e)
		}
		return o
	case map[string]float64:
		o := make(map[string]any, len(x))
		for k, e := range x {
			o[k] = sanitizeJSON(e)
		}
		return o
	case []any:
		o := make([]any, len(x))
		for i, e := range x {
			o[i] = sanitizeJSON(e)
		}
		return o
	case []float64:
		o := make([]any, len(x))
		for i, e := range x {
			o[i] = sanitizeJSON(e)
		}
		return o
	}
	// anything else (structs with float fields etc.): round-trip through JSON if it encodes, else stringify
	if _, err := json.Marshal(v); err != nil {
		return fmt.Sprintf("%+v", v)
	}
	return v
}
