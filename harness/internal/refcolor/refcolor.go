// Package refcolor is an independent float64 implementation of the colour
// science the properties refer to, written from the published standards. It
// shares no code and no constants with the library under judgement.
package refcolor

import "math"

// ---- transfer functions ---------------------------------------------------

// SRGBEOTF: IEC 61966-2-1 (also prescribed for Display P3).
func SRGBEOTF(v float64) float64 {
	if v <= 0.04045 {
		return v / 12.92
	}
	return math.Pow((v+0.055)/1.055, 2.4)
}

func SRGBOETF(l float64) float64 {
	if l <= 0.0031308 {
		return 12.92 * l
	}
	return 1.055*math.Pow(l, 1/2.4) - 0.055
}

// Adobe RGB (1998): pure power law, gamma 563/256 = 2.19921875.
const adobeGamma = 563.0 / 256.0

func AdobeEOTF(v float64) float64 { return math.Pow(v, adobeGamma) }
func AdobeOETF(l float64) float64 { return math.Pow(l, 1/adobeGamma) }

// ROMM / ProPhoto RGB (ISO 22028-2): Et = 1/512, linear slope 16 below.
const rommEt = 1.0 / 512.0

func ProPhotoEOTF(v float64) float64 {
	if v < 16*rommEt {
		return v / 16
	}
	return math.Pow(v, 1.8)
}
func ProPhotoOETF(l float64) float64 {
	if l < rommEt {
		return 16 * l
	}
	return math.Pow(l, 1/1.8)
}

type Curve struct {
	Name string
	EOTF func(float64) float64
	OETF func(float64) float64
}

var (
	CurveSRGB     = Curve{"srgb", SRGBEOTF, SRGBOETF}
	CurveAdobe    = Curve{"adobergb", AdobeEOTF, AdobeOETF}
	CurveProPhoto = Curve{"prophotorgb", ProPhotoEOTF, ProPhotoOETF}
)

// ---- 3x3 algebra (row-major, m[row][col]) ----------------------------------

type Mat [3][3]float64
type Vec [3]float64

func (m Mat) MulV(v Vec) Vec {
	var o Vec
	for i := 0; i < 3; i++ {
		for j := 0; j < 3; j++ {
			o[i] += m[i][j] * v[j]
		}
	}
	return o
}

func (m Mat) Mul(o Mat) Mat {
	var r Mat
	for i := 0; i < 3; i++ {
		for j := 0; j < 3; j++ {
			for k := 0; k < 3; k++ {
				r[i][j] += m[i][k] * o[k][j]
			}
		}
	}
	return r
}

func (m Mat) T() Mat {
	var r Mat
	for i := 0; i < 3; i++ {
		for j := 0; j < 3; j++ {
			r[i][j] = m[j][i]
		}
	}
	return r
}

func Identity() Mat { return Mat{{1, 0, 0}, {0, 1, 0}, {0, 0, 1}} }

// Inv inverts by Gauss-Jordan elimination with partial pivoting (deliberately
// not the adjugate formula the library uses). ok=false when a pivot is 0.
func (m Mat) Inv() (Mat, bool) {
	var a [3][6]float64
	for i := 0; i < 3; i++ {
		for j := 0; j < 3; j++ {
			a[i][j] = m[i][j]
		}
		a[i][3+i] = 1
	}
	for c := 0; c < 3; c++ {
		p := c
		for r := c + 1; r < 3; r++ {
			if math.Abs(a[r][c]) > math.Abs(a[p][c]) {
				p = r
			}
		}
		if a[p][c] == 0 {
			return Mat{}, false
		}
		a[c], a[p] = a[p], a[c]
		pv := a[c][c]
		for j := 0; j < 6; j++ {
			a[c][j] /= pv
		}
		for r := 0; r < 3; r++ {
			if r == c {
				continue
			}
			f := a[r][c]
			if f == 0 {
				continue
			}
			for j := 0; j < 6; j++ {
				a[r][j] -= f * a[c][j]
			}
		}
	}
	var o Mat
	for i := 0; i < 3; i++ {
		for j := 0; j < 3; j++ {
			o[i][j] = a[i][3+j]
		}
	}
	return o, true
}

func (m Mat) NormInf() float64 {
	n := 0.0
	for i := 0; i < 3; i++ {
		s := 0.0
		for j := 0; j < 3; j++ {
			s += math.Abs(m[i][j])
		}
		if s > n {
			n = s
		}
	}
	return n
}

func (m Mat) MaxAbsDiff(o Mat) float64 {
	d := 0.0
	for i := 0; i < 3; i++ {
		for j := 0; j < 3; j++ {
			if x := math.Abs(m[i][j] - o[i][j]); x > d || math.IsNaN(x) {
				d = x
				if math.IsNaN(x) {
					return math.Inf(1)
				}
			}
		}
	}
	return d
}

func (m Mat) Det() float64 {
	return m[0][0]*(m[1][1]*m[2][2]-m[1][2]*m[2][1]) -
		m[0][1]*(m[1][0]*m[2][2]-m[1][2]*m[2][0]) +
		m[0][2]*(m[1][0]*m[2][1]-m[1][1]*m[2][0])
}

// Cond is the infinity-norm condition number (Inf when singular).
func (m Mat) Cond() float64 {
	inv, ok := m.Inv()
	if !ok {
		return math.Inf(1)
	}
	return m.NormInf() * inv.NormInf()
}

// ---- chromaticities, spaces ------------------------------------------------

type XY struct{ X, Y float64 }

// XYYToXYZ converts chromaticity + luminance to XYZ.
func XYYToXYZ(x, y, Y float64) Vec {
	return Vec{x * Y / y, Y, (1 - x - y) * Y / y}
}

func (c XY) XYZ() Vec { return XYYToXYZ(c.X, c.Y, 1) }

// CIE 15 / standard-document chromaticities of the two whites used.
var (
	WhiteD65 = XY{0.31271, 0.32902}
	WhiteD50 = XY{0.34567, 0.35850}
)

type Space struct {
	Name    string
	R, G, B XY
	White   XY
	Curve   Curve
}

// Published values. sRGB/BT.709 primaries (IEC 61966-2-1), Adobe RGB (1998)
// specification 4.3.1.1, ROMM RGB (ISO 22028-2, six-digit), Display P3
// (SMPTE EG 432-1 primaries, D65).
var (
	SRGB      = Space{"srgb", XY{0.64, 0.33}, XY{0.30, 0.60}, XY{0.15, 0.06}, WhiteD65, CurveSRGB}
	AdobeRGB  = Space{"adobergb", XY{0.64, 0.33}, XY{0.21, 0.71}, XY{0.15, 0.06}, WhiteD65, CurveAdobe}
	ProPhoto  = Space{"prophotorgb", XY{0.734699, 0.265301}, XY{0.159597, 0.840403}, XY{0.036598, 0.000105}, WhiteD50, CurveProPhoto}
	DisplayP3 = Space{"displayp3", XY{0.680, 0.320}, XY{0.265, 0.690}, XY{0.150, 0.060}, WhiteD65, CurveSRGB}
)

// RGBToXYZ derives the RGB->XYZ matrix from primaries and white: columns are
// the primaries' XYZ (Y=1) scaled so that (1,1,1) maps to the white with Y=1.
func RGBToXYZ(r, g, b, w XY) (Mat, bool) {
	pr, pg, pb := r.XYZ(), g.XYZ(), b.XYZ()
	p := Mat{{pr[0], pg[0], pb[0]}, {pr[1], pg[1], pb[1]}, {pr[2], pg[2], pb[2]}}
	pi, ok := p.Inv()
	if !ok {
		return Mat{}, false
	}
	s := pi.MulV(w.XYZ())
	var m Mat
	for i := 0; i < 3; i++ {
		for j := 0; j < 3; j++ {
			m[i][j] = p[i][j] * s[j]
		}
	}
	return m, true
}

// ---- Bradford chromatic adaptation -----------------------------------------

// BradfordM is the published cone-response matrix (Lam 1985; ICC.1 Annex E).
var BradfordM = Mat{
	{0.8951, 0.2664, -0.1614},
	{-0.7502, 1.7135, 0.0367},
	{0.0389, -0.0685, 1.0296},
}

// Bradford returns the linear Bradford adaptation from white src to white dst.
func Bradford(src, dst Vec) Mat {
	mi, _ := BradfordM.Inv()
	cs := BradfordM.MulV(src)
	cd := BradfordM.MulV(dst)
	d := Mat{{cd[0] / cs[0], 0, 0}, {0, cd[1] / cs[1], 0}, {0, 0, cd[2] / cs[2]}}
	return mi.Mul(d).Mul(BradfordM)
}

// ---- CIE 1976 L*a*b* ---------------------------------------------------------

const (
	labEps   = 216.0 / 24389.0
	labKappa = 24389.0 / 27.0
)

func labF(t float64) float64 {
	if t > labEps {
		return math.Cbrt(t)
	}
	return (labKappa*t + 16) / 116
}

func XYZToLab(c, w Vec) Vec {
	fx, fy, fz := labF(c[0]/w[0]), labF(c[1]/w[1]), labF(c[2]/w[2])
	return Vec{116*fy - 16, 500 * (fx - fy), 200 * (fy - fz)}
}

func labFInv(f float64) float64 {
	if f3 := f * f * f; f3 > labEps {
		return f3
	}
	return (116*f - 16) / labKappa
}

func LabToXYZ(lab, w Vec) Vec {
	fy := (lab[0] + 16) / 116
	fx := lab[1]/500 + fy
	fz := fy - lab[2]/200
	return Vec{labFInv(fx) * w[0], labFInv(fy) * w[1], labFInv(fz) * w[2]}
}
