// Command automut enumerates and applies small syntactic changes ("mutants") to the
// library's non-test Go files. It is the systematic counterpart of the hand-written and
// sub-agent-written seeded changes: every mutant that still compiles and still passes the
// repository's own tests is run against the property checks by selftest/automut.py, and
// the survivors show where a monitor's workload or oracle is blind.
//
//	automut list  <repo>             one JSON line per mutant (stable ids)
//	automut apply <repo> <id>        rewrite the file in <repo> (a scratch copy!)
//
// Only the standard library is used (go/ast, go/parser, go/printer).
package main

import (
	"bytes"
	"encoding/json"
	"fmt"
	"go/ast"
	"go/parser"
	"go/printer"
	"go/token"
	"os"
	"path/filepath"
	"sort"
	"strconv"
	"strings"
)

type mutant struct {
	ID   string `json:"id"`
	File string `json:"file"`
	Line int    `json:"line"`
	Func string `json:"func"`
	Op   string `json:"op"`
	Desc string `json:"desc"`
}

var binSwap = map[token.Token][]token.Token{
	token.LSS: {token.LEQ}, token.LEQ: {token.LSS}, token.GTR: {token.GEQ}, token.GEQ: {token.GTR},
	token.EQL: {token.NEQ}, token.NEQ: {token.EQL},
	token.ADD: {token.SUB}, token.SUB: {token.ADD}, token.MUL: {token.QUO}, token.QUO: {token.MUL},
	token.LAND: {token.LOR}, token.LOR: {token.LAND},
	token.SHL: {token.SHR}, token.SHR: {token.SHL}, token.AND: {token.OR}, token.OR: {token.AND},
	token.REM: {token.QUO},
}

func files(repo string) []string {
	var out []string
	_ = filepath.Walk(repo, func(p string, info os.FileInfo, err error) error {
		if err != nil {
			return nil
		}
		if info.IsDir() {
			n := info.Name()
			if n == ".git" || n == "example-output" || n == "doc-images" || n == "test-images" || n == "test-profiles" {
				return filepath.SkipDir
			}
			return nil
		}
		if strings.HasSuffix(p, ".go") && !strings.HasSuffix(p, "_test.go") {
			rel, _ := filepath.Rel(repo, p)
			out = append(out, rel)
		}
		return nil
	})
	sort.Strings(out)
	return out
}

// site is one place a mutation can be made; apply performs it on the parsed tree.
type site struct {
	m     mutant
	apply func()
}

func exprString(fset *token.FileSet, n ast.Node) string {
	var b bytes.Buffer
	_ = printer.Fprint(&b, fset, n)
	s := strings.Join(strings.Fields(b.String()), " ")
	if len(s) > 90 {
		s = s[:90] + "..."
	}
	return s
}

func sitesOf(fset *token.FileSet, rel string, f *ast.File) []site {
	var out []site
	add := func(pos token.Pos, fn, op, desc string, apply func()) {
		p := fset.Position(pos)
		out = append(out, site{mutant{File: rel, Line: p.Line, Func: fn, Op: op, Desc: desc}, apply})
	}
	for _, d := range f.Decls {
		fd, ok := d.(*ast.FuncDecl)
		if !ok || fd.Body == nil {
			continue
		}
		fn := fd.Name.Name
		if fn == "String" || fn == "Error" || fn == "GoString" { // presentation only: no property speaks about it
			continue
		}
		ast.Inspect(fd.Body, func(n ast.Node) bool {
			switch x := n.(type) {
			case *ast.BinaryExpr:
				for _, to := range binSwap[x.Op] {
					x, from, to := x, x.Op, to
					// string concatenation has no '-'
					if from == token.ADD {
						if bl, ok := x.X.(*ast.BasicLit); ok && bl.Kind == token.STRING {
							continue
						}
						if bl, ok := x.Y.(*ast.BasicLit); ok && bl.Kind == token.STRING {
							continue
						}
					}
					add(x.OpPos, fn, "binop", fmt.Sprintf("%s : %s -> %s", exprString(fset, x), from, to), func() { x.Op = to })
				}
			case *ast.BasicLit:
				switch x.Kind {
				case token.INT:
					v, err := strconv.ParseInt(x.Value, 0, 64)
					if err != nil {
						break
					}
					old := x.Value
					add(x.Pos(), fn, "int+1", fmt.Sprintf("%s -> %d", old, v+1), func() { x.Value = strconv.FormatInt(v+1, 10) })
					if v > 0 {
						add(x.Pos(), fn, "int-1", fmt.Sprintf("%s -> %d", old, v-1), func() { x.Value = strconv.FormatInt(v-1, 10) })
					}
				case token.FLOAT:
					v, err := strconv.ParseFloat(x.Value, 64)
					if err != nil || v == 0 {
						break
					}
					old := x.Value
					nv := strconv.FormatFloat(v*1.0005, 'g', -1, 64)
					if !strings.ContainsAny(nv, ".e") {
						nv += ".0"
					}
					add(x.Pos(), fn, "float*1.0005", fmt.Sprintf("%s -> %s", old, nv), func() { x.Value = nv })
				}
			case *ast.IfStmt:
				add(x.Cond.Pos(), fn, "negate-if", "if "+exprString(fset, x.Cond)+" -> negated", func() {
					x.Cond = &ast.UnaryExpr{Op: token.NOT, X: &ast.ParenExpr{X: x.Cond}}
				})
			// i++ <-> i-- is not generated: loops that count the wrong way only hang the suite
			case *ast.BlockStmt:
				for i, st := range x.List {
					x, i := x, i
					switch s := st.(type) {
					case *ast.ExprStmt:
						if _, ok := s.X.(*ast.CallExpr); ok {
							add(s.Pos(), fn, "drop-call", "removed: "+exprString(fset, s), func() { x.List[i] = &ast.EmptyStmt{Semicolon: s.Pos()} })
						}
					case *ast.AssignStmt:
						if s.Tok == token.ASSIGN || s.Tok == token.ADD_ASSIGN || s.Tok == token.SUB_ASSIGN || s.Tok == token.MUL_ASSIGN || s.Tok == token.OR_ASSIGN {
							add(s.Pos(), fn, "drop-assign", "removed: "+exprString(fset, s), func() { x.List[i] = &ast.EmptyStmt{Semicolon: s.Pos()} })
						}
					case *ast.DeferStmt:
						add(s.Pos(), fn, "drop-defer", "removed: "+exprString(fset, s), func() { x.List[i] = &ast.EmptyStmt{Semicolon: s.Pos()} })
					case *ast.GoStmt:
						// turning `go f()` into `f()` keeps the result and removes the concurrency: equivalent for every property
					}
				}
			}
			return true
		})
	}
	// number sites per file in source order; ids are <file>#<k>
	sort.SliceStable(out, func(i, j int) bool { return out[i].m.Line < out[j].m.Line })
	for k := range out {
		out[k].m.ID = fmt.Sprintf("%s#%d", rel, k)
	}
	return out
}

func main() {
	if len(os.Args) < 3 {
		fmt.Fprintln(os.Stderr, "usage: automut list <repo> | automut apply <repo> <id>")
		os.Exit(2)
	}
	repo := os.Args[2]
	switch os.Args[1] {
	case "list":
		enc := json.NewEncoder(os.Stdout)
		for _, rel := range files(repo) {
			fset := token.NewFileSet()
			f, err := parser.ParseFile(fset, filepath.Join(repo, rel), nil, parser.ParseComments)
			if err != nil {
				continue
			}
			for _, s := range sitesOf(fset, rel, f) {
				_ = enc.Encode(s.m)
			}
		}
	case "apply":
		id := os.Args[3]
		rel := id[:strings.LastIndex(id, "#")]
		fset := token.NewFileSet()
		path := filepath.Join(repo, rel)
		f, err := parser.ParseFile(fset, path, nil, parser.ParseComments)
		if err != nil {
			fmt.Fprintln(os.Stderr, err)
			os.Exit(2)
		}
		for _, s := range sitesOf(fset, rel, f) {
			if s.m.ID == id {
				s.apply()
				var b bytes.Buffer
				if err := printer.Fprint(&b, fset, f); err != nil {
					fmt.Fprintln(os.Stderr, err)
					os.Exit(2)
				}
				if err := os.WriteFile(path, b.Bytes(), 0o644); err != nil {
					fmt.Fprintln(os.Stderr, err)
					os.Exit(2)
				}
				b2, _ := json.Marshal(s.m)
				fmt.Println(string(b2))
				return
			}
		}
		fmt.Fprintln(os.Stderr, "no such mutant", id)
		os.Exit(2)
	}
}
