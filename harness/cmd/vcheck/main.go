// vcheck: dispatcher for the runtime monitors of /verif (see DESIGN.md).
//
//	vcheck run <Cnn> quick|thorough
//	vcheck replay <file>
//	vcheck child <Cnn> args...        (internal: child-process bodies)
package main

import (
	"encoding/json"
	"fmt"
	"os"

	"verifharness/internal/core"
	_ "verifharness/props"
)

func main() {
	if len(os.Args) < 3 {
		fmt.Fprintln(os.Stderr, "usage: vcheck run <id> quick|thorough | replay <file> | child <id> ...")
		os.Exit(2)
	}
	switch os.Args[1] {
	case "run":
		if len(os.Args) < 4 {
			fmt.Fprintln(os.Stderr, "usage: vcheck run <id> quick|thorough")
			os.Exit(2)
		}
		p := core.Registry[os.Args[2]]
		if p == nil {
			fmt.Fprintf(os.Stderr, "unknown property %s\n", os.Args[2])
			os.Exit(2)
		}
		tier := os.Args[3]
		if tier != "quick" && tier != "thorough" {
			fmt.Fprintln(os.Stderr, "tier must be quick or thorough")
			os.Exit(2)
		}
		r := core.NewRun(p.ID, tier, p.Level)
		core.StartWatchdog(p.ID, tier)
		func() {
			defer func() {
				if x := recover(); x != nil {
					core.NotePanic(x)
				}
			}()
			p.Run(r)
		}()
		rc := r.Finish()
		core.RemoveWorkDirs()
		os.Exit(rc)
	case "replay":
		b, err := os.ReadFile(os.Args[2])
		if err != nil {
			fmt.Fprintln(os.Stderr, err)
			os.Exit(2)
		}
		var v struct {
			Property string          `json:"property"`
			Stage    string          `json:"stage"`
			Sig      string          `json:"signature"`
			Case     json.RawMessage `json:"case"`
		}
		if err := json.Unmarshal(b, &v); err != nil {
			fmt.Fprintln(os.Stderr, err)
			os.Exit(2)
		}
		p := core.Registry[v.Property]
		if p == nil || p.Replay == nil {
			fmt.Fprintf(os.Stderr, "no replay for property %q\n", v.Property)
			os.Exit(2)
		}
		// a witness recorded in a fresh-process variant child: re-establish the variant's
		// prelude in this (fresh) process, then replay the inner case
		var wrapped struct {
			Variant string          `json:"variant"`
			Case    json.RawMessage `json:"case"`
		}
		if json.Unmarshal(v.Case, &wrapped) == nil && wrapped.Variant != "" && len(wrapped.Case) > 0 && string(wrapped.Case) != "null" {
			if core.ApplyVariant != nil {
				core.ApplyVariant(wrapped.Variant)
			}
			v.Case = wrapped.Case
		}
		bad, msg, err := p.Replay(v.Stage, v.Case)
		if err != nil {
			fmt.Printf("INCONCLUSIVE property=%s reason=replay:%v\n", v.Property, err)
			os.Exit(3)
		}
		if bad {
			fmt.Printf("VIOLATION property=%s replay=%s\n  %s\n", v.Property, os.Args[2], msg)
			os.Exit(1)
		}
		fmt.Printf("REPLAY property=%s verdict=held (%s)\n", v.Property, msg)
	case "child":
		p := core.Registry[os.Args[2]]
		if p == nil || p.Child == nil {
			fmt.Fprintf(os.Stderr, "no child body for %s\n", os.Args[2])
			os.Exit(2)
		}
		rc := p.Child(os.Args[3:])
		core.RemoveWorkDirs()
		os.Exit(rc)
	default:
		fmt.Fprintln(os.Stderr, "unknown sub-command")
		os.Exit(2)
	}
}
